#!/opt/veriftools/pyvenv/bin/python
"""regenerate MANIFEST.json from the property modules that exist (vmon/props/Cxx.py)"""
import importlib, json, sys, os
sys.path.insert(0, '/verif')
ids = [json.loads(l)['id'] for l in open('/verif/properties.jsonl')]
checks, na = [], []
ACCEPTED = set(json.load(open('/verif/tools/accepted.json')))
PENDING = {}
for pid in ids:
    p = f'/verif/vmon/props/{pid}.py'
    if not os.path.exists(p) or pid not in ACCEPTED:
        na.append({"property_id": pid, "reason": PENDING.get(pid, "check not built yet in this round (see DESIGN.md section 5 for the planned monitor)")})
        continue
    m = importlib.import_module(f'vmon.props.{pid}')
    checks.append({
        "property_id": pid,
        "quick_cmd": f"./check {pid} --tier quick",
        "thorough_cmd": f"./check {pid} --tier thorough",
        "evidence_file": f"evidence/{pid}.json",
        "replay_cmd_template": f"./check {pid} --replay {{path}}",
        "engine": "vmon",
        "level_claimed": {"category": m.LEVEL, "text": m.LEVEL_TEXT, "design_ref": f"DESIGN.md section 5, {pid}"},
        "level_note": m.LEVEL_NOTE,
        "technique": m.TECHNIQUE,
    })
man = {
    "version": 1,
    "setup_cmd": "/venv/bin/python -m pip install -q --no-index --find-links /opt/veriftools/wheels --target /verif/.deps icontract deal",
    "hooks": {
        "guard": "MOLLI_VERIF",
        "enable": "no source hooks: monitors are attached from outside (bound-method wrappers, sys.monitoring, icontract contracts rebound by the harness, scripted external commands, a C++ harness including molli_xt/distance.cpp by path); checks export MOLLI_VERIF=1 only as a marker",
        "baseline_off_cmd": "cd /repo && /venv/bin/python -m pytest -ra -q -p no:cacheprovider --timeout=900 --continue-on-collection-errors",
        "source_commits": [],
        "add_only": True,
    },
    "engines": [{"name": "vmon", "path": "vmon/", "serves_properties": [c["property_id"] for c in checks],
                 "kind_free_text": "runtime monitoring: generated/hostile/faulted workloads on the real code in child interpreters; reference models, history checkers, invariants at quiescent points, runtime contracts, sanitizer builds of the native kernel"}],
    "checks": checks,
    "not_applicable": na,
    "notes": "Every check runs the real code from /repo's working tree under /venv/bin/python. Exit 0 held, 1 violation (VIOLATION line + replay file), 3 inconclusive (a required monitor was not reached or a watchdog fired). known_findings.json lists open findings (KNOWN-FINDING lines) and fixed ones (which suppress nothing).",
}
json.dump(man, open('/verif/MANIFEST.json', 'w'), indent=1)
import jsonschema
jsonschema.validate(man, json.load(open('/root/.vp/MANIFEST.schema.json')))
print('MANIFEST ok:', len(checks), 'checks,', len(na), 'not claimed')
