#!/usr/bin/env python3
"""regenerate section 9 of DESIGN.md: repairs table from git log, findings keys from known_findings.json,
body from tools/design9_body.md (placeholder SEEDED_TABLE <- tools/seeded_table.py)"""
import json, subprocess
fix = subprocess.run(['git', '-C', '/repo', 'log', '--reverse', '--format=%h %s', '9b50261..HEAD'], capture_output=True, text=True).stdout.strip().splitlines()
kf = json.load(open('/verif/known_findings.json'))['findings']
by = {}
for f in kf:
    by.setdefault(f['property'], []).append(f)
s = open('/verif/DESIGN.md').read()
marker = "\n---------------------------------------------------------------------------------\n\n## 9. As built"
if marker in s:
    s = s[:s.index(marker)]
out = [marker, " (this section is the authoritative record; §1–§8 are the plan it grew from)\n"]
out.append(open('/verif/tools/design9_head.md').read())
out.append(f"\n{len(fix)} repairs:\n\n| commit | repair |\n|---|---|\n")
for l in fix:
    h, msg = l.split(' ', 1)
    out.append(f"| `{h}` | {msg[5:] if msg.startswith('fix: ') else msg} |\n")
out.append("\nViolation keys that exposed them, per property:\n\n")
for p in sorted(by):
    out.append(f"* **{p}** — " + "; ".join(f"`{f['key'].split(':', 1)[1]}` ({f.get('commit', '')})" for f in by[p]) + "\n")
body = open('/verif/tools/design9_body.md').read()
table = subprocess.run(['python3', '/verif/tools/seeded_table.py'], capture_output=True, text=True).stdout
body = body.replace('SEEDED_TABLE', table).replace('N_REPAIRS', str(len(fix)))
s = s.rstrip('\n') + '\n' + ''.join(out) + body
import re
n_open = sum(1 for f in kf if f.get('status') == 'open')
s = re.sub(r"\(\d+ repairs, (?:no open finding|\d+ open finding keys?)\)", f"({len(fix)} repairs, {n_open} open finding keys)" if n_open else f"({len(fix)} repairs, no open finding)", s)
open('/verif/DESIGN.md', 'w').write(s)
print('DESIGN.md', len(s), 'bytes;', len(fix), 'repairs;', table.count('\n') - 2, 'seeded changes')
