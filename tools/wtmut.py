#!/venv/bin/python
"""wtmut.py PROP[,PROP] FILE 'old' 'new' [--tier quick]  -- like trymut.py but in a scratch worktree (does not touch /repo)"""
import subprocess, sys, os, shutil
args = sys.argv[1:]
tier = 'quick'
if '--tier' in args:
    i = args.index('--tier'); tier = args[i + 1]; del args[i:i + 2]
props, f, old, new = args[0].split(','), args[1], args[2], args[3]
wt = f'/tmp/wtmut-{os.getpid()}'
try:
    subprocess.run(['git', '-C', '/repo', 'worktree', 'add', '-q', '--detach', wt, 'HEAD'], check=True)
    for x in os.listdir('/repo'):
        if x.startswith('molli_xt') and x.endswith('.so'):
            shutil.copy('/repo/' + x, wt)
    p = os.path.join(wt, f)
    s = open(p).read()
    if s.count(old) != 1:
        print('pattern occurs', s.count(old), 'times'); sys.exit(2)
    open(p, 'w').write(s.replace(old, new))
    r = subprocess.run(['/venv/bin/python', '-c', 'import molli'], env={**os.environ, 'PYTHONPATH': wt}, capture_output=True, text=True)
    if r.returncode:
        print('does not import:', r.stderr[-300:]); sys.exit(2)
    for pr in props:
        env = {**os.environ, 'VERIF_REPO': wt, 'VERIF_EVIDENCE_DIR': '/verif/.work/wtmut-ev', 'VERIF_REPLAY_DIR': '/verif/.work/wtmut-replay'}
        r = subprocess.run(['/verif/check', pr, '--tier', tier], capture_output=True, text=True, env=env)
        lines = [l for l in r.stdout.splitlines() if l.startswith(('VIOLATION', 'KNOWN', 'INCONCLUSIVE', '    key=')) or 'HELD' in l]
        print(f'== {pr} rc={r.returncode}')
        for l in lines[:6]:
            print('  ', l[:300])
finally:
    subprocess.run(['git', '-C', '/repo', 'worktree', 'remove', '--force', wt], capture_output=True)
    shutil.rmtree(wt, ignore_errors=True)
