#!/venv/bin/python
"""mutbatch.py FILE.json [-j N] [--tier quick]
FILE.json: [{"name":..., "props":"C16[,C05]", "file":"molli/...", "old":"...", "new":"..."}, ...]
Each mutant is applied in its own scratch worktree of /repo (never /repo itself), the baseline tests named in
"tests" (optional, default none) are not run here; prints one line per mutant and property: caught / MISSED / inconclusive.
"""
import json, os, shutil, subprocess, sys
from concurrent.futures import ThreadPoolExecutor

args = sys.argv[1:]
tier, jobs = 'quick', 4
if '--tier' in args:
    i = args.index('--tier'); tier = args[i + 1]; del args[i:i + 2]
if '-j' in args:
    i = args.index('-j'); jobs = int(args[i + 1]); del args[i:i + 2]
muts = json.load(open(args[0]))
only = set(args[1:])


def one(k, m):
    wt = f'/tmp/mutbatch-{os.getpid()}-{k}'
    out = []
    try:
        subprocess.run(['git', '-C', '/repo', 'worktree', 'add', '-q', '--detach', wt, 'HEAD'], check=True)
        for x in os.listdir('/repo'):
            if x.startswith('molli_xt') and x.endswith('.so'):
                shutil.copy('/repo/' + x, wt)
        p = os.path.join(wt, m['file'])
        s = open(p).read()
        if s.count(m['old']) != 1:
            return [f"{m['name']}: pattern occurs {s.count(m['old'])} times"]
        open(p, 'w').write(s.replace(m['old'], m['new']))
        r = subprocess.run(['/venv/bin/python', '-c', 'import molli'], env={**os.environ, 'PYTHONPATH': wt},
                           capture_output=True, text=True)
        if r.returncode:
            return [f"{m['name']}: does not import: {r.stderr[-200:]}"]
        for pr in m['props'].split(','):
            env = {**os.environ, 'VERIF_REPO': wt, 'VERIF_EVIDENCE_DIR': f'/verif/.work/mb-ev-{os.getpid()}-{k}',
                   'VERIF_REPLAY_DIR': f'/verif/.work/mb-replay-{os.getpid()}-{k}'}
            r = subprocess.run(['/verif/check', pr, '--tier', tier], capture_output=True, text=True, env=env)
            keys = [l.strip()[:160] for l in r.stdout.splitlines() if l.strip().startswith('key=')]
            verdict = {0: 'MISSED', 1: 'caught', 3: 'inconclusive'}.get(r.returncode, f'rc={r.returncode}')
            out.append(f"{m['name']:40s} {pr} {verdict:12s} {keys[0] if keys else ''}")
    finally:
        subprocess.run(['git', '-C', '/repo', 'worktree', 'remove', '--force', wt], capture_output=True)
        shutil.rmtree(wt, ignore_errors=True)
        shutil.rmtree(f'/verif/.work/mb-ev-{os.getpid()}-{k}', ignore_errors=True)
        shutil.rmtree(f'/verif/.work/mb-replay-{os.getpid()}-{k}', ignore_errors=True)
    return out


with ThreadPoolExecutor(jobs) as ex:
    futs = [ex.submit(one, k, m) for k, m in enumerate(muts) if not only or m['name'] in only]
    for f in futs:
        for l in f.result():
            print(l, flush=True)
