#!/venv/bin/python
"""addfinding.py PROP KEY STATUS COMMIT 'what'"""
import json, sys
prop, key, status, commit, what = sys.argv[1:6]
p = '/verif/known_findings.json'
d = json.load(open(p))
if any(f['key'] == key for f in d['findings']):
    print('exists', key); sys.exit(0)
e = {"property": prop, "key": key, "status": status, "what": what}
if status == 'fixed':
    e["commit"] = commit
    e["line"] = f"fixed: property={prop} {commit} {what}"
d['findings'].append(e)
json.dump(d, open(p, 'w'), indent=1)
print('added', key)
