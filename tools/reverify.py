#!/venv/bin/python
"""
reverify.py [-j N] [NAME ...]   -- re-run the current checks against every stored seeded change (/verif/seeded/<NAME>/)

For each: a scratch worktree of /repo HEAD, the stored patch applied (3-way), the demonstration run (must still fail),
the property's quick check run against the worktree (must report a violation).  Writes /verif/seeded/<NAME>/meta.json
field "reverification" and prints one line per change.  Never touches /repo itself.
"""
import json, os, shutil, subprocess, sys, time
from concurrent.futures import ThreadPoolExecutor

args = sys.argv[1:]
jobs = 4
if '-j' in args:
    i = args.index('-j'); jobs = int(args[i + 1]); del args[i:i + 2]
names = args or sorted(os.listdir('/verif/seeded'))
head = subprocess.run(['git', '-C', '/repo', 'rev-parse', '--short', 'HEAD'], capture_output=True, text=True).stdout.strip()


def sh(cmd, **kw):
    return subprocess.run(cmd, capture_output=True, text=True, **kw)


def one(name):
    d = f'/verif/seeded/{name}'
    if not os.path.exists(d + '/patch.diff'):
        return f'{name:10s} no patch'
    prop = name.split('-')[0]
    try:        # a change may be the business of more than one check: the ones it was verified with when it was stored
        props = list(json.load(open(d + '/meta.json'))['verification']['checks']) or [prop]
    except Exception:  # noqa
        props = [prop]
    wt = f'/tmp/reverify-{os.getpid()}-{name}'
    res = {'at_repo_head': head}
    try:
        sh(['git', '-C', '/repo', 'worktree', 'add', '--detach', wt, 'HEAD'])
        for f in os.listdir('/repo'):
            if f.startswith('molli_xt') and f.endswith('.so'):
                shutil.copy('/repo/' + f, wt)
        a = sh(['git', '-C', wt, 'apply', '--3way', d + '/patch.diff'])
        if a.returncode != 0:
            a = sh(['git', '-C', wt, 'apply', d + '/patch.diff'])
        res['patch_applies'] = a.returncode == 0
        if a.returncode == 0:
            env = {**os.environ, 'PYTHONPATH': wt, 'MOLLI_HOME': wt + '/.molli_home'}
            try:
                r1 = sh(['/venv/bin/python', d + '/demo.py'], env=env, cwd=wt, timeout=600)
                res['demo_changed_exit'] = r1.returncode
            except subprocess.TimeoutExpired:
                res['demo_changed_exit'] = 'timeout'
            cenv = {**os.environ, 'VERIF_REPO': wt, 'VERIF_EVIDENCE_DIR': f'/verif/.work/rv-ev-{name}',
                    'VERIF_REPLAY_DIR': f'/verif/.work/rv-replay-{name}'}
            t0 = time.time()
            res['checks'] = {}
            keys = []
            for pr in props:
                c = sh(['/verif/check', pr, '--tier', 'quick'], env=cenv, timeout=5400)
                k = sorted({l.split('key=')[1].split(' detail=')[0] for l in c.stdout.splitlines() if l.strip().startswith('key=')})
                res['checks'][pr] = {'rc': c.returncode, 'keys': k[:12]}
                keys += k
            rcs = [v['rc'] for v in res['checks'].values()]
            res.update(rc=1 if 1 in rcs else max(rcs), wall_s=round(time.time() - t0, 1), keys=keys[:12], caught=1 in rcs)
    except Exception as e:  # noqa
        res['error'] = repr(e)[:200]
    finally:
        sh(['git', '-C', '/repo', 'worktree', 'remove', '--force', wt])
        shutil.rmtree(wt, ignore_errors=True)
        shutil.rmtree(f'/verif/.work/rv-ev-{name}', ignore_errors=True)
        shutil.rmtree(f'/verif/.work/rv-replay-{name}', ignore_errors=True)
    try:
        meta = json.load(open(d + '/meta.json'))
    except Exception:  # noqa
        meta = {}
    meta['reverification'] = res
    json.dump(meta, open(d + '/meta.json', 'w'), indent=1)
    flag = 'caught' if res.get('caught') else ('NO-APPLY' if not res.get('patch_applies') else f"MISSED rc={res.get('rc')}")
    return f"{name:10s} {flag:14s} demo={res.get('demo_changed_exit')} {res.get('wall_s', '')}s {(res.get('keys') or [''])[0][:90]}"


with ThreadPoolExecutor(jobs) as ex:
    for line in ex.map(one, names):
        print(line, flush=True)
