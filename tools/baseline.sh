#!/bin/sh
# runs the repository's baseline suite (guard off) and compares with BASELINE.json's stable_pass list
cd /repo && env -u MOLLI_VERIF /venv/bin/python -m pytest -ra -q -p no:cacheprovider --timeout=900 --continue-on-collection-errors --junitxml=/tmp/verif-baseline.xml >/tmp/verif-baseline.log 2>&1
/venv/bin/python - <<'PY'
import json, xml.etree.ElementTree as ET
b = json.load(open('/root/.vp/BASELINE.json'))
t = ET.parse('/tmp/verif-baseline.xml')
ok = set()
for tc in t.iter('testcase'):
    if not any(c.tag in ('failure','error','skipped') for c in tc):
        ok.add(f"{tc.get('classname')}::{tc.get('name')}")
missing = [x for x in b['stable_pass'] if x not in ok]
print('baseline stable_pass:', len(b['stable_pass']), 'passing now:', len(ok), 'missing:', missing)
raise SystemExit(1 if missing else 0)
PY
