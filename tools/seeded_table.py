#!/usr/bin/env python3
"""markdown table of /verif/seeded/*: which check catches which seeded change, with the violation keys"""
import json, glob, os
rows = []
for d in sorted(glob.glob('/verif/seeded/*/')):
    m = json.load(open(d + 'meta.json'))
    v = m.get('verification', {})
    name = os.path.basename(d.rstrip('/'))
    for prop, c in v.get('checks', {}).items():
        keys = ', '.join(k.split(':', 1)[1] for k in c['keys'][:2]) or '-'
        rows.append(f"| {name} | {(m.get('summary') or '')[:110].replace('|','/')} | {(m.get('needs') or '')[:110].replace('|','/')} | {prop} {'caught' if c['rc']==1 else 'MISSED'} ({c['wall_s']} s) | `{keys[:120]}` |")
print('| seeded change | what was changed | needs, to manifest | quick check | first violation keys |')
print('|---|---|---|---|---|')
print('\n'.join(rows))
