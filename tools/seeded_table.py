#!/usr/bin/env python3
"""markdown table of /verif/seeded/*: which check catches which seeded change, with the violation keys
(latest result: tools/reverify.py's "reverification" if present, else the result recorded when the change was stored)"""
import json, glob, os
rows = []
for d in sorted(glob.glob('/verif/seeded/*/')):
    m = json.load(open(d + 'meta.json'))
    v = m.get('reverification') or {}
    if not v.get('checks'):
        v = m.get('verification', {})
    name = os.path.basename(d.rstrip('/'))
    for prop, c in v.get('checks', {}).items():
        keys = ', '.join(k.split(':', 1)[1] for k in c['keys'][:2]) or '-'
        verdict = 'caught' if c['rc'] == 1 else 'MISSED'
        if m.get('neutralised_by_repair') and c['rc'] != 1:
            verdict = f"equivalent since repair {m['neutralised_by_repair']['commit']} (caught before)"
        rows.append(f"| {name} | {(m.get('summary') or '')[:110].replace('|','/')} | {(m.get('needs') or '')[:110].replace('|','/')} | {prop} {verdict} | `{keys[:120]}` |")
print('| seeded change | what was changed | needs, to manifest | quick check | first violation keys |')
print('|---|---|---|---|---|')
print('\n'.join(rows))
