#!/venv/bin/python
"""
seedcheck.py <mutant-dir> <PROP[,PROP...]> [--name NAME] [--tier quick]
Verifies a seeded property-breaking change in a scratch worktree (never in /repo):
  demo passes on the unchanged tree, patch applies, baseline tests still pass, demo fails with the patch,
then runs the named checks against the patched worktree and stores everything under /verif/seeded/<NAME>/.
"""
import json, os, shutil, subprocess, sys, time, xml.etree.ElementTree as ET
args = sys.argv[1:]
name = None
tier = 'quick'
if '--name' in args:
    i = args.index('--name'); name = args[i + 1]; del args[i:i + 2]
if '--tier' in args:
    i = args.index('--tier'); tier = args[i + 1]; del args[i:i + 2]
src, props = args[0].rstrip('/'), args[1].split(',')
name = name or (props[0] + '-' + os.path.basename(os.path.dirname(src)).replace(props[0], '').strip('-') + os.path.basename(src)).replace('--', '-')
wt = f'/tmp/seed-wt-{os.getpid()}'
env = {**os.environ, 'PYTHONPATH': wt, 'MOLLI_HOME': wt + '/.molli_home'}
def sh(cmd, **kw):
    return subprocess.run(cmd, capture_output=True, text=True, **kw)
res = {'at_repo_head': sh(['git', '-C', '/repo', 'rev-parse', '--short', 'HEAD']).stdout.strip()}
try:
    sh(['git', '-C', '/repo', 'worktree', 'add', '--detach', wt, 'HEAD'])
    for f in os.listdir('/repo'):
        if f.startswith('molli_xt') and f.endswith('.so'):
            shutil.copy('/repo/' + f, wt)
    demo = os.path.join(src, 'demo.py')
    r0 = sh(['/venv/bin/python', demo], env=env, cwd=wt, timeout=300)
    res['demo_unchanged_exit'] = r0.returncode
    a = sh(['git', '-C', wt, 'apply', '--3way', os.path.join(src, 'patch.diff')])
    if a.returncode != 0:
        a = sh(['git', '-C', wt, 'apply', os.path.join(src, 'patch.diff')])
    res['patch_applies'] = a.returncode == 0
    if a.returncode != 0:
        res['apply_err'] = a.stderr[-400:]
    else:
        sh(['git', '-C', wt, 'diff', 'HEAD'])  # keep
        open(os.path.join(src, 'patch.rebased.diff'), 'w').write(sh(['git', '-C', wt, 'diff', 'HEAD']).stdout)
        t = sh(['/venv/bin/python', '-m', 'pytest', '-q', '-p', 'no:cacheprovider', '--timeout=900', 'molli_test', f'--junitxml={wt}/junit.xml'], env=env, cwd=wt, timeout=1200)
        ok = set()
        for tc in ET.parse(f'{wt}/junit.xml').iter('testcase'):
            if not any(c.tag in ('failure', 'error', 'skipped') for c in tc):
                ok.add(f"{tc.get('classname')}::{tc.get('name')}")
        base = json.load(open('/root/.vp/BASELINE.json'))['stable_pass']
        res['baseline_missing'] = [x for x in base if x not in ok]
        r1 = sh(['/venv/bin/python', demo], env=env, cwd=wt, timeout=300)
        res['demo_changed_exit'] = r1.returncode
        res['demo_changed_tail'] = (r1.stdout + r1.stderr)[-300:]
        res['checks'] = {}
        for p in props:
            cenv = {**os.environ, 'VERIF_REPO': wt, 'VERIF_EVIDENCE_DIR': f'/verif/.work/seed-evidence', 'VERIF_REPLAY_DIR': '/verif/.work/seed-replay'}
            t0 = time.time()
            c = sh(['/verif/check', p, '--tier', tier], env=cenv, timeout=3600)
            keys = sorted({l.split('key=')[1].split(' detail=')[0] for l in c.stdout.splitlines() if l.strip().startswith('key=')})
            res['checks'][p] = {'rc': c.returncode, 'wall_s': round(time.time() - t0, 1), 'keys': keys[:12],
                                'inconclusive': [l[:200] for l in c.stdout.splitlines() if l.startswith('INCONCLUSIVE')][:3]}
finally:
    sh(['git', '-C', '/repo', 'worktree', 'remove', '--force', wt])
    shutil.rmtree(wt, ignore_errors=True)
valid = res.get('demo_unchanged_exit') == 0 and res.get('patch_applies') and not res.get('baseline_missing') and res.get('demo_changed_exit') not in (0, None)
res['valid_mutant'] = bool(valid)
res['caught'] = any(c['rc'] == 1 for c in res.get('checks', {}).values())
print(json.dumps(res, indent=1))
if valid:
    dst = f'/verif/seeded/{name}'
    os.makedirs(dst, exist_ok=True)
    shutil.copy(os.path.join(src, 'patch.rebased.diff'), dst + '/patch.diff')
    shutil.copy(demo, dst + '/demo.py')
    meta = json.load(open(os.path.join(src, 'meta.json'))) if os.path.exists(os.path.join(src, 'meta.json')) else {}
    meta['verification'] = res
    json.dump(meta, open(dst + '/meta.json', 'w'), indent=1)
    print('stored in', dst)
