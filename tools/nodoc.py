"""print a python file without docstrings/comments (reading aid)"""
import ast, sys
src = open(sys.argv[1]).read()
t = ast.parse(src)
for n in ast.walk(t):
    if isinstance(n, (ast.FunctionDef, ast.ClassDef, ast.AsyncFunctionDef, ast.Module)):
        if n.body and isinstance(n.body[0], ast.Expr) and isinstance(getattr(n.body[0], 'value', None), ast.Constant) and isinstance(n.body[0].value.value, str):
            n.body = n.body[1:] or [ast.Pass()]
    if isinstance(n, (ast.ClassDef, ast.Module)):
        n.body = [b for b in n.body if not (isinstance(b, ast.Expr) and isinstance(getattr(b,'value',None), ast.Constant) and isinstance(b.value.value, str))] or [ast.Pass()]
out = ast.unparse(t)
lo = int(sys.argv[2]) if len(sys.argv) > 2 else 0
hi = int(sys.argv[3]) if len(sys.argv) > 3 else 10**9
for i, l in enumerate(out.splitlines()):
    if lo <= i < hi: print(l)
