#!/venv/bin/python
"""
trymut.py PROP[,PROP] FILE 'old' 'new' [--tests] [--tier quick]   -- apply a textual mutation to /repo, run checks, revert.
trymut.py PROP[,PROP] --patch file.diff [--tests]
"""
import subprocess, sys, os
args = sys.argv[1:]
tests = '--tests' in args
if tests: args.remove('--tests')
tier = 'quick'
if '--tier' in args:
    i = args.index('--tier'); tier = args[i+1]; del args[i:i+2]
props = args[0].split(',')
try:
    if args[1] == '--patch':
        subprocess.run(['git', '-C', '/repo', 'apply', args[2]], check=True)
    else:
        f, old, new = args[1:4]
        p = os.path.join('/repo', f)
        s = open(p).read()
        if s.count(old) != 1:
            print('pattern occurs', s.count(old), 'times'); sys.exit(2)
        open(p, 'w').write(s.replace(old, new))
    if tests:
        r = subprocess.run(['/verif/tools/baseline.sh'], capture_output=True, text=True)
        print('TESTS:', r.stdout.strip()[-300:])
    for pr in props:
        r = subprocess.run(['/verif/check', pr, '--tier', tier], capture_output=True, text=True, env={**os.environ, 'VERIF_NOEVIDENCE': '1'})
        lines = [l for l in r.stdout.splitlines() if l.startswith(('VIOLATION', 'KNOWN', 'INCONCLUSIVE', '    key=')) or 'HELD' in l]
        print(f'== {pr} rc={r.returncode}')
        for l in lines[:8]: print('  ', l[:400])
finally:
    subprocess.run(['git', '-C', '/repo', 'checkout', '--', '.'])
    subprocess.run(['git', '-C', '/verif', 'checkout', '--', 'evidence'], capture_output=True)
