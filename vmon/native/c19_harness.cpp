// C19 native harness: compiles the UNMODIFIED repository source molli_xt/distance.cpp (found through
// -I<repo>/molli_xt, together with _molli_xt.hpp) against the pybind11 stand-in in c19_pybind11_shim/,
// runs molli::_init_distance() to obtain the registration table, and calls every registered kernel BY ITS
// EXPORTED NAME over a shape sweep, comparing each element with a long-double loop.
//
//   c19_harness ref <seed> <rounds>          single thread, reference comparison   (ASan+UBSan build)
//   c19_harness threads <n> <seed> <reps>    n threads on shared inputs            (TSan build)
//
// The semantics expected of a name come from the name alone (what a Python caller sees):
//   cdist22*  (N,3) x (M,3) -> (N,M)      cdist32*  (X,N,3) x (M,3) -> (X,N,M)
//   *_eu2     squared Euclidean distance  *_eu      Euclidean distance
// Output is line oriented (REG/OTHER/CALLS/ELEMS/MISMATCH/SHAPE/INPUTCHANGED/NOGIL/THREADMISMATCH/DONE) and
// parsed by vmon/props/C19.py.  Sanitizer reports go to stderr and abort the process.
#include <distance.cpp>

#include <atomic>
#include <cmath>
#include <cstdint>
#include <cstdio>
#include <cstring>
#include <limits>
#include <thread>

namespace {
template <typename T> using arr = molli::carray<T>;
template <typename T> using kern = pybind11::module_::kernel<T>;

struct Rng {  // splitmix64: deterministic, independent of libc
    uint64_t s;
    uint64_t next() { uint64_t z = (s += 0x9e3779b97f4a7c15ULL); z = (z ^ (z >> 30)) * 0xbf58476d1ce4e5b9ULL;
                      z = (z ^ (z >> 27)) * 0x94d049bb133111ebULL; return z ^ (z >> 31); }
    double uni() { return double(next() >> 11) / 9007199254740992.0; }          // [0,1)
    long below(long n) { return long(next() % uint64_t(n)); }
};

// value regimes: 0 uniform [-10,10]; 1 far from the origin (cancellation); 2 small integers (ties, zeros);
// 3 mixed magnitudes 1e-3 .. 1e3; 4 duplicated points (exact zeros)
template <typename T> void fill(arr<T> &a, Rng &r, int regime) {
    T *p = a.mutable_data(); const ssize_t n = a.size();
    for (ssize_t k = 0; k < n; ++k) {
        double v;
        switch (regime) {
            case 0: v = r.uni() * 20 - 10; break;
            case 1: v = 1000.0 + r.uni(); break;
            case 2: v = double(r.below(7) - 3); break;
            case 3: v = (r.uni() - 0.5) * std::pow(10.0, double(r.below(7) - 3)); break;
            default: v = (k % 6 < 3) ? 1.25 : r.uni(); break;
        }
        p[k] = T(v);
    }
}

struct Family { int nd1; bool squared; bool known; char typed; };  // typed: 'f', 'd' or 0
Family family(const std::string &n) {
    Family f{0, false, false, 0};
    if (n.rfind("cdist22", 0) == 0) f.nd1 = 2; else if (n.rfind("cdist32", 0) == 0) f.nd1 = 3; else return f;
    if (n.size() >= 4 && n.compare(n.size() - 4, 4, "_eu2") == 0) f.squared = true;
    else if (n.size() >= 3 && n.compare(n.size() - 3, 3, "_eu") == 0) f.squared = false;
    else return f;
    if (n.size() > 7 && (n[7] == 'f' || n[7] == 'd')) f.typed = n[7];
    f.known = true; return f;
}

long n_calls = 0, n_elems = 0, n_mismatch = 0, n_shape = 0, n_inputchanged = 0;

template <typename T>
void check_one(const std::string &name, kern<T> fn, const Family &fam, ssize_t X, ssize_t N, ssize_t M, Rng &rng, int regime) {
    const char tc = sizeof(T) == 4 ? 'f' : 'd';
    arr<T> a = fam.nd1 == 2 ? arr<T>({N, ssize_t(3)}) : arr<T>({X, N, ssize_t(3)});
    arr<T> b({M, ssize_t(3)});
    fill(a, rng, regime); fill(b, rng, regime == 4 ? 4 : regime);
    std::vector<T> a0(a.data(), a.data() + a.size()), b0(b.data(), b.data() + b.size());
    arr<T> res = fn(a, b);
    ++n_calls;
    if (pybind11::c19::alloc_without_gil) { std::printf("NOGIL %s %c\n", name.c_str(), tc); pybind11::c19::alloc_without_gil = 0; }
    if ((a.size() && std::memcmp(a0.data(), a.data(), a0.size() * sizeof(T))) ||
        (b.size() && std::memcmp(b0.data(), b.data(), b0.size() * sizeof(T)))) {
        if (++n_inputchanged <= 10) std::printf("INPUTCHANGED %s %c shape=%zd,%zd,%zd\n", name.c_str(), tc, X, N, M);
    }
    std::vector<ssize_t> want_shape = fam.nd1 == 2 ? std::vector<ssize_t>{N, M} : std::vector<ssize_t>{X, N, M};
    if (res.shape_vec() != want_shape) {
        if (++n_shape <= 10) {
            std::printf("SHAPE %s %c in=%zd,%zd,%zd out=", name.c_str(), tc, X, N, M);
            for (auto d : res.shape_vec()) std::printf("%zd,", d);
            std::printf("\n");
        }
        return;
    }
    const ssize_t XX = fam.nd1 == 2 ? 1 : X;
    const T *r = res.data();
    for (ssize_t x = 0; x < XX; ++x) for (ssize_t i = 0; i < N; ++i) for (ssize_t j = 0; j < M; ++j) {
        const T *p = a0.data() + (x * N + i) * 3, *q = b0.data() + j * 3;
        long double s = 0;
        for (int k = 0; k < 3; ++k) { long double d = (long double)p[k] - (long double)q[k]; s += d * d; }
        long double want = fam.squared ? s : sqrtl(s);
        long double got = r[(x * N + i) * M + j];
        long double tol = 4.0L * std::numeric_limits<T>::epsilon() * fabsl(want) + std::numeric_limits<T>::min();
        ++n_elems;
        if (!(fabsl(got - want) <= tol)) {
            if (++n_mismatch <= 12)
                std::printf("MISMATCH %s %c shape=%zd,%zd,%zd regime=%d idx=%zd,%zd,%zd p=(%.9g,%.9g,%.9g) q=(%.9g,%.9g,%.9g) got=%.17Lg want=%.17Lg\n",
                            name.c_str(), tc, X, N, M, regime, x, i, j, double(p[0]), double(p[1]), double(p[2]),
                            double(q[0]), double(q[1]), double(q[2]), got, want);
        }
    }
}

template <typename T>
void sweep(const std::vector<std::pair<std::string, kern<T>>> &table, uint64_t seed, int rounds) {
    static const ssize_t NS[] = {0, 1, 2, 7, 64}, XS[] = {0, 1, 2, 5};
    for (const auto &e : table) {
        Family fam = family(e.first);
        if (!fam.known) continue;
        Rng rng{seed * 1000003ULL + std::hash<std::string>{}(e.first) % 1000 + sizeof(T)};
        for (int round = 0; round < rounds; ++round)
            for (int regime = 0; regime < 5; ++regime) {
                for (ssize_t N : NS) for (ssize_t M : NS) {
                    if (fam.nd1 == 2) check_one<T>(e.first, e.second, fam, 1, N, M, rng, regime);
                    else for (ssize_t X : XS) check_one<T>(e.first, e.second, fam, X, N, M, rng, regime);
                }
                for (int extra = 0; extra < 6; ++extra)  // seeded odd shapes
                    check_one<T>(e.first, e.second, fam, 1 + rng.below(6), rng.below(90), rng.below(90), rng, regime);
            }
    }
}

// ---- threads: every thread calls every kernel on the SAME input arrays; results must equal the serial ones bit for bit
std::atomic<int> gate{0};
std::atomic<long> thread_mismatch{0}, thread_calls{0};

template <typename T> struct Shared { arr<T> a2, a3, b; std::vector<std::vector<T>> serial; };

template <typename T>
void prepare(Shared<T> &s, const std::vector<std::pair<std::string, kern<T>>> &table, uint64_t seed) {
    Rng rng{seed + 17 * sizeof(T)};
    s.a2 = arr<T>({ssize_t(160), ssize_t(3)}); s.a3 = arr<T>({ssize_t(3), ssize_t(120), ssize_t(3)}); s.b = arr<T>({ssize_t(90), ssize_t(3)});
    fill(s.a2, rng, 0); fill(s.a3, rng, 0); fill(s.b, rng, 0);
    for (const auto &e : table) {
        Family fam = family(e.first);
        if (!fam.known) { s.serial.emplace_back(); continue; }
        arr<T> r = e.second(fam.nd1 == 2 ? s.a2 : s.a3, s.b);
        s.serial.emplace_back(r.data(), r.data() + r.size());
    }
}

template <typename T>
void worker(const Shared<T> *s, const std::vector<std::pair<std::string, kern<T>>> *table, int reps, int tid) {
    while (gate.load(std::memory_order_acquire) == 0) std::this_thread::yield();
    for (int rep = 0; rep < reps; ++rep)
        for (size_t k = 0; k < table->size(); ++k) {
            size_t kk = (k + size_t(tid)) % table->size();  // threads start on different kernels
            const auto &e = (*table)[kk];
            Family fam = family(e.first);
            if (!fam.known) continue;
            arr<T> r = e.second(fam.nd1 == 2 ? s->a2 : s->a3, s->b);
            thread_calls.fetch_add(1, std::memory_order_relaxed);
            const auto &want = s->serial[kk];
            if (size_t(r.size()) != want.size() || (want.size() && std::memcmp(r.data(), want.data(), want.size() * sizeof(T))))
                thread_mismatch.fetch_add(1, std::memory_order_relaxed);
        }
}
}  // namespace

int main(int argc, char **argv) {
    if (argc < 2) { std::fprintf(stderr, "usage: c19_harness ref <seed> <rounds> | threads <n> <seed> <reps>\n"); return 2; }
    pybind11::module_ m;
    molli::_init_distance(m);
    for (auto &e : m.f32) std::printf("REG %s f\n", e.first.c_str());
    for (auto &e : m.f64) std::printf("REG %s d\n", e.first.c_str());
    for (auto &n : m.other) std::printf("OTHER %s\n", n.c_str());
    for (auto &e : m.f32) if (!family(e.first).known) std::printf("OTHER %s\n", e.first.c_str());
    for (auto &e : m.f64) if (!family(e.first).known) std::printf("OTHER %s\n", e.first.c_str());
    std::string mode = argv[1];
    if (mode == "ref") {
        uint64_t seed = argc > 2 ? std::strtoull(argv[2], nullptr, 10) : 0; int rounds = argc > 3 ? std::atoi(argv[3]) : 1;
        sweep<float>(m.f32, seed, rounds);
        sweep<double>(m.f64, seed, rounds);
        std::printf("CALLS %ld\nELEMS %ld\nNMISMATCH %ld\nNSHAPE %ld\nNINPUTCHANGED %ld\n", n_calls, n_elems, n_mismatch, n_shape, n_inputchanged);
    } else if (mode == "threads") {
        int n = argc > 2 ? std::atoi(argv[2]) : 8; uint64_t seed = argc > 3 ? std::strtoull(argv[3], nullptr, 10) : 0;
        int reps = argc > 4 ? std::atoi(argv[4]) : 3;
        Shared<float> sf; Shared<double> sd;
        prepare(sf, m.f32, seed); prepare(sd, m.f64, seed);
        std::vector<std::thread> ts;
        for (int t = 0; t < n; ++t) {  // n concurrent callers per float width, all on the same input arrays
            ts.emplace_back(worker<float>, &sf, &m.f32, reps, t);
            ts.emplace_back(worker<double>, &sd, &m.f64, reps, t);
        }
        gate.store(1, std::memory_order_release);
        for (auto &t : ts) t.join();
        std::printf("THREADS %zu\nCALLS %ld\nTHREADMISMATCH %ld\n", ts.size(), thread_calls.load(), thread_mismatch.load());
    } else { std::fprintf(stderr, "unknown mode\n"); return 2; }
    std::printf("DONE\n");
    return 0;
}
