// C19 native harness: compiles the UNMODIFIED repository source molli_xt/distance.cpp (found through
// -I<repo>/molli_xt, together with _molli_xt.hpp) against the pybind11 stand-in in c19_pybind11_shim/,
// runs molli::_init_distance() to obtain the registration table, and calls every registered kernel BY ITS
// EXPORTED NAME over a shape sweep and a memory-layout sweep, comparing each element with a long-double loop.
//
//   c19_harness ref <seed> <rounds>          single thread, reference comparison   (ASan+UBSan build)
//   c19_harness threads <n> <seed> <reps>    n threads on shared inputs            (TSan build)
//
// The semantics expected of a name come from the name alone (what a Python caller sees):
//   cdist22*  (N,3) x (M,3) -> (N,M)      cdist32*  (X,N,3) x (M,3) -> (X,N,M)
//   *_eu2     squared Euclidean distance  *_eu      Euclidean distance
//
// Caller side: an argument is described the way a Python caller holds it -- LOGICAL values plus a memory layout (a view
// with its own strides over an exact-size buffer: a, a.T, a[:, ::2], a[:, ::-1], a[::2], a[::-1], a[:, 2:5], broadcast_to,
// swapaxes).  The call goes through the registration recorded by the stand-in's module_::def, which converts each argument
// to the kernel's declared array type as pybind11's type caster does (a C-ordered copy only if that type carries c_style
// and the view is not C-contiguous, ...; see pybind11.h) and then calls the kernel.  The reference is computed from the
// logical values; the result is read through ITS strides.
//
// Beyond the small shapes: a LARGE sweep (several hundred to a few thousand points in either argument, up to 300 conformers --
// beyond plausible block / unroll / threshold sizes; some of it through non-contiguous views) with the same element-wise
// comparison, and a WRONG-NDIM sweep: arguments with 0, 1, 3 (cdist22*) resp. 0, 1, 2, 4 (cdist32*) dimensions and second
// arguments with 0, 1, 3 dimensions.  pybind11 turns those away in unchecked<N>() / shape(i) (the stand-in does the same), so a
// call that RETURNS is reported (NDIMACCEPTED); a kernel that no longer goes through those and reads the buffer by hand
// either reads past the exact-size allocation (ASan) or returns.
//
// Output is line oriented (REG/OTHER/CALLS/ELEMS/MISMATCH/MMLAYOUT/SHAPE/INPUTCHANGED/NOGIL/RAISED/LAYOUT/LARGE*/NDIM*/.../DONE, stdout
// line-buffered so that lines printed before a sanitizer abort survive) and parsed by vmon/props/C19.py.  Sanitizer reports
// go to stderr and abort the process.
#include <distance.cpp>

#include <atomic>
#include <cmath>
#include <cstdint>
#include <cstdio>
#include <cstring>
#include <limits>
#include <thread>

namespace {
template <typename T> using arr = pybind11::array_data<T>;          // an ndarray as the caller holds it
template <typename T> using reg = pybind11::c19::registration<T>;
template <typename T> using table_t = std::vector<reg<T>>;

struct Rng {  // splitmix64: deterministic, independent of libc
    uint64_t s;
    uint64_t next() { uint64_t z = (s += 0x9e3779b97f4a7c15ULL); z = (z ^ (z >> 30)) * 0xbf58476d1ce4e5b9ULL;
                      z = (z ^ (z >> 27)) * 0x94d049bb133111ebULL; return z ^ (z >> 31); }
    double uni() { return double(next() >> 11) / 9007199254740992.0; }          // [0,1)
    long below(long n) { return long(next() % uint64_t(n)); }
};

// value regimes: 0 uniform [-10,10]; 1 far from the origin (cancellation); 2 small integers (ties, zeros);
// 3 mixed magnitudes 1e-3 .. 1e3; 4 duplicated points (exact zeros)
template <typename T> void fill(T *p, ssize_t n, Rng &r, int regime) {
    for (ssize_t k = 0; k < n; ++k) {
        double v;
        switch (regime) {
            case 0: v = r.uni() * 20 - 10; break;
            case 1: v = 1000.0 + r.uni(); break;
            case 2: v = double(r.below(7) - 3); break;
            case 3: v = (r.uni() - 0.5) * std::pow(10.0, double(r.below(7) - 3)); break;
            default: v = (k % 6 < 3) ? 1.25 : r.uni(); break;
        }
        p[k] = T(v);
    }
}

// ---- memory layouts of a caller-side array of logical shape (..., 3)
enum Layout { L_C, L_F, L_LASTSTEP, L_LASTREV, L_FIRSTSTEP, L_FIRSTREV, L_COLWINDOW, L_BCASTFIRST, L_BCASTLAST,
              L_SWAP01, L_SWAP12, L_COUNT };
const char *const LNAME[L_COUNT] = {"c-contiguous", "fortran-transposed", "strided-last-axis", "reversed-last-axis",
                                    "strided-first-axis", "reversed-first-axis", "column-window", "broadcast-first-axis",
                                    "broadcast-last-axis", "swapaxes-0-1", "swapaxes-1-2"};
constexpr int NL2 = L_SWAP01;      // layouts meaningful for a 2-d array (swapaxes-0-1 of a 2-d array is fortran-transposed)
constexpr int NL3 = L_COUNT;

template <typename T> struct Caller {
    arr<T> a; std::vector<T> logical, base0; Layout lay;
    bool base_unchanged() const { return base0.empty() || std::memcmp(base0.data(), a.base_data(), base0.size() * sizeof(T)) == 0; }
};

std::vector<ssize_t> cstr(const std::vector<ssize_t> &shape) {      // C strides in elements
    std::vector<ssize_t> s(shape.size(), 1);
    for (size_t k = shape.size(); k-- > 1;) s[k - 1] = s[k] * shape[k];
    return s;
}

template <typename T> Caller<T> make_caller(const std::vector<ssize_t> &shape, Layout lay, Rng &rng, int regime) {
    const size_t n = shape.size();
    std::vector<ssize_t> bshape = shape, est; ssize_t first = 0;
    switch (lay) {
        case L_C: est = cstr(shape); break;                                                          // a
        case L_F: { est.assign(n, 1); for (size_t k = 1; k < n; ++k) est[k] = est[k - 1] * shape[k - 1]; } break;   // b.T, b of the reversed shape
        case L_LASTSTEP: bshape[n - 1] = 2 * shape[n - 1] - 1; est = cstr(bshape); est[n - 1] = 2; break;           // b[..., ::2]
        case L_LASTREV: est = cstr(shape); first = shape[n - 1] - 1; est[n - 1] = -1; break;                        // b[..., ::-1]
        case L_FIRSTSTEP: bshape[0] = shape[0] ? 2 * shape[0] - 1 : 0; est = cstr(bshape); est[0] *= 2; break;      // b[::2]
        case L_FIRSTREV: est = cstr(shape); first = shape[0] ? (shape[0] - 1) * est[0] : 0; est[0] = -est[0]; break;   // b[::-1]
        case L_COLWINDOW: bshape[n - 1] = shape[n - 1] + 2; est = cstr(bshape); first = 2; break;                   // b[..., 2:5]
        case L_BCASTFIRST: bshape[0] = 1; est = cstr(bshape); est[0] = 0; break;                                    // broadcast_to(b[None], shape)
        case L_BCASTLAST: bshape[n - 1] = 1; est = cstr(bshape); est[n - 1] = 0; break;                             // broadcast_to(b[..., None], shape)
        case L_SWAP01: { bshape = {shape[1], shape[0], shape[2]}; auto bs = cstr(bshape); est = {bs[1], bs[0], bs[2]}; } break;
        case L_SWAP12: { bshape = {shape[0], shape[2], shape[1]}; auto bs = cstr(bshape); est = {bs[0], bs[2], bs[1]}; } break;
        default: std::abort();
    }
    ssize_t nbase = 1, size = 1;
    for (auto d : bshape) nbase *= d;
    for (auto d : shape) size *= d;
    if (size == 0 || nbase == 0) first = 0;
    std::vector<ssize_t> bytes(est);
    for (auto &s : bytes) s *= ssize_t(sizeof(T));
    Caller<T> c{arr<T>(shape, bytes, nbase, first), {}, {}, lay};
    fill(c.a.mutable_base_data(), nbase, rng, regime);
    c.base0.assign(c.a.base_data(), c.a.base_data() + nbase);
    c.logical.resize(size_t(size));
    for (ssize_t k = 0; k < size; ++k) c.logical[size_t(k)] = c.a.logical(k);
    return c;
}

struct Family { int nd1; bool squared; bool known; char typed; };  // typed: 'f', 'd' or 0
Family family(const std::string &n) {
    Family f{0, false, false, 0};
    if (n.rfind("cdist22", 0) == 0) f.nd1 = 2; else if (n.rfind("cdist32", 0) == 0) f.nd1 = 3; else return f;
    if (n.size() >= 4 && n.compare(n.size() - 4, 4, "_eu2") == 0) f.squared = true;
    else if (n.size() >= 3 && n.compare(n.size() - 3, 3, "_eu") == 0) f.squared = false;
    else return f;
    if (n.size() > 7 && (n[7] == 'f' || n[7] == 'd')) f.typed = n[7];
    f.known = true; return f;
}

long n_calls = 0, n_elems = 0, n_mismatch = 0, n_shape = 0, n_inputchanged = 0, n_raised = 0;
long n_layout[L_COUNT] = {0}, n_noncontig_calls = 0, n_noncontig_elems = 0, n_cast_copy = 0, n_cast_pass = 0, n_pass_noncontig = 0;
std::map<std::string, long> mm_printed;
std::map<std::string, long> mm_by_layout;        // "name w la lb" -> mismatching elements

template <typename T> bool logical_equals(const arr<T> &x, const std::vector<T> &want) {
    if (size_t(x.size()) != want.size()) return false;
    for (size_t k = 0; k < want.size(); ++k) if (std::memcmp(&x.logical(ssize_t(k)), &want[k], sizeof(T))) return false;
    return true;
}

template <typename T>
void check_pair(const reg<T> &e, const Family &fam, ssize_t X, ssize_t N, ssize_t M, Caller<T> &a, Caller<T> &b, int regime);

template <typename T>
void check_one(const reg<T> &e, const Family &fam, ssize_t X, ssize_t N, ssize_t M, Rng &rng, int regime, Layout la, Layout lb) {
    Caller<T> a = make_caller<T>(fam.nd1 == 2 ? std::vector<ssize_t>{N, 3} : std::vector<ssize_t>{X, N, 3}, la, rng, regime);
    Caller<T> b = make_caller<T>({M, 3}, lb, rng, regime);
    check_pair<T>(e, fam, X, N, M, a, b, regime);
}

long n_alias_calls = 0, n_alias_same_start = 0, n_alias_identical = 0, n_alias_overlap = 0;
long n_large_calls = 0, n_large_second = 0, n_large_first = 0, n_large_conformers = 0, n_large_noncontig = 0, n_large_elems = 0;
long n_ndim_calls = 0, n_ndim_raised = 0, n_ndim_accepted = 0;

// both arguments are views of ONE caller array (coords[:k] against coords, ens.coords against ens.coords[x], the same
// array twice, overlapping windows): what a kernel may conclude from equal data pointers must still be right
template <typename T>
void check_alias(const reg<T> &e, const Family &fam, Rng &rng, int regime, ssize_t X, ssize_t K, ssize_t i0, ssize_t N, ssize_t j0, ssize_t M) {
    // base: (K,3) for the 2-d family, (X,K,3) for the 3-d one; first = base[i0:i0+N] / base[:, i0:i0+N]; second = base[j0:j0+M] / base[x, j0:j0+M]
    Caller<T> base = make_caller<T>(fam.nd1 == 2 ? std::vector<ssize_t>{K, 3} : std::vector<ssize_t>{X, K, 3}, L_C, rng, regime);
    const ssize_t sz = ssize_t(sizeof(T));
    Caller<T> a, b;
    ssize_t xrow = fam.nd1 == 2 ? 0 : (X ? rng.below(X) : 0);
    if (fam.nd1 == 2) a.a = base.a.view({N, 3}, {3 * sz, sz}, i0 * 3);
    else a.a = base.a.view({X, N, 3}, {K * 3 * sz, 3 * sz, sz}, i0 * 3);
    b.a = base.a.view({M, 3}, {3 * sz, sz}, (xrow * K + j0) * 3);
    if (fam.nd1 == 3 && X == 0) b.a = base.a.view({M, 3}, {3 * sz, sz}, 0);
    a.lay = a.a.c_contiguous() ? L_C : L_FIRSTSTEP; b.lay = L_C;
    a.base0 = base.base0;                                         // the shared allocation is compared once, through `a`
    a.logical.resize(size_t(a.a.size())); b.logical.resize(size_t(b.a.size()));
    for (ssize_t k = 0; k < a.a.size(); ++k) a.logical[size_t(k)] = a.a.logical(k);
    for (ssize_t k = 0; k < b.a.size(); ++k) b.logical[size_t(k)] = b.a.logical(k);
    ++n_alias_calls;
    if (a.a.size() && b.a.size() && a.a.data() == b.a.data()) { ++n_alias_same_start; if (fam.nd1 == 2 && N == M) ++n_alias_identical; }
    if (i0 < j0 + M && j0 < i0 + N) ++n_alias_overlap;
    check_pair<T>(e, fam, X, N, M, a, b, regime);
}

template <typename T>
void check_pair(const reg<T> &e, const Family &fam, ssize_t X, ssize_t N, ssize_t M, Caller<T> &a, Caller<T> &b, int regime) {
    const char tc = sizeof(T) == 4 ? 'f' : 'd';
    const std::string &name = e.name;
    const Layout la = a.lay, lb = b.lay;
    const std::vector<T> &a0 = a.logical, &b0 = b.logical;
    const bool noncontig = !a.a.c_contiguous() || !b.a.c_contiguous();
    pybind11::c19::call_record<T> rec;
    arr<T> res;
    ++n_calls; ++n_layout[la]; ++n_layout[lb];
    if (noncontig) ++n_noncontig_calls;
    try {
        res = e.call(a.a, b.a, &rec);
    } catch (const std::exception &ex) {
        if (++n_raised <= 10) std::printf("RAISED %s %c layouts=%s/%s shape=%zd,%zd,%zd what=%s\n", name.c_str(), tc, LNAME[la], LNAME[lb], X, N, M, ex.what());
        return;
    }
    for (int k = 0; k < 2; ++k) {
        if (rec.copied[k]) ++n_cast_copy; else { ++n_cast_pass; if (!rec.arg[k].c_contiguous()) ++n_pass_noncontig; }
    }
    if (pybind11::c19::alloc_without_gil) { std::printf("NOGIL %s %c\n", name.c_str(), tc); pybind11::c19::alloc_without_gil = 0; }
    // neither the caller's memory (whole buffers, gaps of the views included) nor what the kernel received may have changed
    if (!a.base_unchanged() || !b.base_unchanged() || !logical_equals(rec.arg[0], a0) || !logical_equals(rec.arg[1], b0)) {
        if (++n_inputchanged <= 10) std::printf("INPUTCHANGED %s %c layouts=%s/%s shape=%zd,%zd,%zd\n", name.c_str(), tc, LNAME[la], LNAME[lb], X, N, M);
    }
    std::vector<ssize_t> want_shape = fam.nd1 == 2 ? std::vector<ssize_t>{N, M} : std::vector<ssize_t>{X, N, M};
    if (res.shape_vec() != want_shape) {
        if (++n_shape <= 10) {
            std::printf("SHAPE %s %c layouts=%s/%s in=%zd,%zd,%zd out=", name.c_str(), tc, LNAME[la], LNAME[lb], X, N, M);
            for (auto d : res.shape_vec()) std::printf("%zd,", d);
            std::printf("\n");
        }
        return;
    }
    const ssize_t XX = fam.nd1 == 2 ? 1 : X;
    long bad = 0;
    for (ssize_t x = 0; x < XX; ++x) for (ssize_t i = 0; i < N; ++i) for (ssize_t j = 0; j < M; ++j) {
        const T *p = a0.data() + (x * N + i) * 3, *q = b0.data() + j * 3;
        long double s = 0;
        for (int k = 0; k < 3; ++k) { long double d = (long double)p[k] - (long double)q[k]; s += d * d; }
        long double want = fam.squared ? s : sqrtl(s);
        long double got = res.logical((x * N + i) * M + j);
        long double tol = 4.0L * std::numeric_limits<T>::epsilon() * fabsl(want) + std::numeric_limits<T>::min();
        ++n_elems;
        if (noncontig) ++n_noncontig_elems;
        if (!(fabsl(got - want) <= tol)) {
            ++bad;
            if ((++n_mismatch <= 12) | (++mm_printed[name + tc] <= 1))      // the first dozen, and the first of every registration
                std::printf("MISMATCH %s %c layouts=%s/%s shape=%zd,%zd,%zd regime=%d idx=%zd,%zd,%zd p=(%.9g,%.9g,%.9g) q=(%.9g,%.9g,%.9g) got=%.17Lg want=%.17Lg\n",
                            name.c_str(), tc, LNAME[la], LNAME[lb], X, N, M, regime, x, i, j, double(p[0]), double(p[1]), double(p[2]),
                            double(q[0]), double(q[1]), double(q[2]), got, want);
        }
    }
    if (bad) {
        const std::string key = name + " " + tc + " " + LNAME[la] + " " + LNAME[lb];
        if (!mm_by_layout.count(key)) std::printf("MMLAYOUT %s\n", key.c_str());     // printed at once: survives a later abort
        mm_by_layout[key] += bad;
    }
}

uint64_t name_seed(uint64_t seed, const std::string &name, size_t width, uint64_t salt) {
    return seed * 1000003ULL + std::hash<std::string>{}(name) % 1000 + width + salt;
}

// shape sweep, both arguments C-contiguous
template <typename T>
void sweep(const table_t<T> &table, uint64_t seed, int rounds) {
    static const ssize_t NS[] = {0, 1, 2, 7, 64}, XS[] = {0, 1, 2, 5};
    for (const auto &e : table) {
        Family fam = family(e.name);
        if (!fam.known) continue;
        Rng rng{name_seed(seed, e.name, sizeof(T), 0)};
        for (int round = 0; round < rounds; ++round)
            for (int regime = 0; regime < 5; ++regime) {
                for (ssize_t N : NS) for (ssize_t M : NS) {
                    if (fam.nd1 == 2) check_one<T>(e, fam, 1, N, M, rng, regime, L_C, L_C);
                    else for (ssize_t X : XS) check_one<T>(e, fam, X, N, M, rng, regime, L_C, L_C);
                }
                for (int extra = 0; extra < 6; ++extra)  // seeded odd shapes
                    check_one<T>(e, fam, 1 + rng.below(6), rng.below(90), rng.below(90), rng, regime, L_C, L_C);
            }
    }
}

// layout sweep: every pair (layout of the first argument, layout of the second) x a few shapes incl. 0 and 1 points
template <typename T>
void layout_sweep(const table_t<T> &table, uint64_t seed, int rounds) {
    static const ssize_t SH[][3] = {{1, 0, 0}, {1, 1, 1}, {0, 2, 3}, {2, 0, 3}, {3, 3, 0}, {1, 1, 4}, {2, 2, 7}, {3, 5, 2}};   // X, N, M
    for (const auto &e : table) {
        Family fam = family(e.name);
        if (!fam.known) continue;
        Rng rng{name_seed(seed, e.name, sizeof(T), 7777)};
        const int nla = fam.nd1 == 2 ? NL2 : NL3;
        for (int round = 0; round < rounds; ++round)
            for (int regime = 0; regime < 5; ++regime)
                for (int la = 0; la < nla; ++la) for (int lb = 0; lb < NL2; ++lb) {
                    for (const auto &s : SH) check_one<T>(e, fam, fam.nd1 == 2 ? 1 : s[0], s[1], s[2], rng, regime, Layout(la), Layout(lb));
                    for (int extra = 0; extra < 2; ++extra)  // seeded shapes
                        check_one<T>(e, fam, 1 + rng.below(4), 1 + rng.below(24), 1 + rng.below(24), rng, regime, Layout(la), Layout(lb));
                }
    }
}

// large sweep: more than 256 points in the second argument, more than 256 rows (points resp. conformers) in the first, more
// than 8 conformers; fixed shapes around powers of two plus seeded ones; C-contiguous and (every third call) views that the
// call boundary has to copy
template <typename T>
void large_sweep(const table_t<T> &table, uint64_t seed, int rounds) {
    static const ssize_t S22[][2] = {{5, 300}, {300, 5}, {257, 513}, {1030, 70}, {70, 1030}, {2, 4100}, {4100, 2}, {1, 257}, {256, 256}};    // N, M
    static const ssize_t S32[][3] = {{1, 5, 300}, {9, 3, 300}, {2, 300, 5}, {33, 7, 40}, {17, 40, 260}, {3, 270, 290}, {300, 2, 3},
                                     {2, 1030, 3}, {64, 1, 65}, {257, 1, 1}};                                                          // X, N, M
    static const Layout LA[] = {L_C, L_C, L_FIRSTSTEP, L_C, L_FIRSTREV, L_C, L_COLWINDOW, L_C, L_LASTREV};
    static const Layout LB[] = {L_C, L_C, L_F, L_C, L_LASTSTEP, L_C, L_FIRSTSTEP, L_C, L_FIRSTREV};
    for (const auto &e : table) {
        Family fam = family(e.name);
        if (!fam.known) continue;
        Rng rng{name_seed(seed, e.name, sizeof(T), 9191)};
        for (int round = 0; round < rounds; ++round) {
            std::vector<std::vector<ssize_t>> shapes;
            if (fam.nd1 == 2) for (const auto &s : S22) shapes.push_back({1, s[0], s[1]});
            else for (const auto &s : S32) shapes.push_back({s[0], s[1], s[2]});
            // seeded: one long side, the other one short (keeps the element count down)
            shapes.push_back({fam.nd1 == 2 ? 1 : 1 + rng.below(3), 257 + rng.below(2000), 1 + rng.below(40)});
            shapes.push_back({fam.nd1 == 2 ? 1 : 1 + rng.below(3), 1 + rng.below(40), 257 + rng.below(2000)});
            if (fam.nd1 == 3) shapes.push_back({9 + rng.below(120), 1 + rng.below(12), 1 + rng.below(60)});
            size_t k = size_t(rng.below(9));
            for (const auto &s : shapes) {
                const long before = n_elems;
                const Layout la = LA[k % 9], lb = LB[k % 9]; ++k;
                check_one<T>(e, fam, s[0], s[1], s[2], rng, int(rng.below(5)), la, lb);
                ++n_large_calls; n_large_elems += n_elems - before;
                if (s[2] > 256) ++n_large_second;
                if (s[1] > 256 || (fam.nd1 == 3 && s[0] > 256)) ++n_large_first;
                if (fam.nd1 == 3 && s[0] > 8) ++n_large_conformers;
                if (la != L_C || lb != L_C) ++n_large_noncontig;
            }
        }
    }
}

// wrong-ndim sweep: see the head of the file.  Arrays of shape (2,)*(nd-1) + (3,) (nd = 0: a 0-d array), C-contiguous.
template <typename T> arr<T> ndim_array(int nd, Rng &rng) {
    std::vector<ssize_t> shape;
    for (int k = 0; k + 1 < nd; ++k) shape.push_back(2);
    if (nd > 0) shape.push_back(3);
    ssize_t n = 1; for (auto d : shape) n *= d;
    std::vector<ssize_t> st = arr<T>::c_strides(shape);
    arr<T> a(shape, st, n, 0);
    fill(a.mutable_base_data(), n, rng, 0);
    return a;
}

template <typename T>
void ndim_sweep(const table_t<T> &table, uint64_t seed) {
    const char tc = sizeof(T) == 4 ? 'f' : 'd';
    for (const auto &e : table) {
        Family fam = family(e.name);
        if (!fam.known) continue;
        Rng rng{name_seed(seed, e.name, sizeof(T), 5151)};
        // higher dimension counts first: a kernel reading the buffers by hand stays inside them there and RETURNS (reported
        // below); with fewer dimensions it reads past the allocation and the sanitizer ends the process
        for (int na = 4; na >= 0; --na) for (int nb = 3; nb >= 0; --nb) {
            if (na == fam.nd1 && nb == 2) continue;
            arr<T> a = ndim_array<T>(na, rng), b = ndim_array<T>(nb, rng);
            ++n_ndim_calls;
            try {
                arr<T> r = e.call(a, b, nullptr);
                if (++n_ndim_accepted <= 40) {
                    std::printf("NDIMACCEPTED %s %c a.ndim=%d b.ndim=%d out=", e.name.c_str(), tc, na, nb);
                    for (auto d : r.shape_vec()) std::printf("%zd,", d);
                    std::printf("\n");
                }
            } catch (const std::exception &) { ++n_ndim_raised; }
        }
    }
}

// alias sweep: see check_alias
template <typename T>
void alias_sweep(const table_t<T> &table, uint64_t seed, int rounds) {
    for (const auto &e : table) {
        Family fam = family(e.name);
        if (!fam.known) continue;
        Rng rng{name_seed(seed, e.name, sizeof(T), 4242)};
        for (int round = 0; round < rounds; ++round)
            for (int regime = 0; regime < 5; ++regime) {
                static const ssize_t KS[] = {1, 2, 3, 8, 33};
                for (ssize_t K : KS) {
                    const ssize_t X = fam.nd1 == 2 ? 1 : 1 + rng.below(3);
                    check_alias<T>(e, fam, rng, regime, X, K, 0, K, 0, K);               // the same array twice
                    check_alias<T>(e, fam, rng, regime, X, K, 0, K, 0, 0);               // a, a[:0]
                    check_alias<T>(e, fam, rng, regime, X, K, 0, 0, 0, K);               // a[:0], a
                    for (int extra = 0; extra < 6; ++extra) {
                        ssize_t n = rng.below(K + 1), m = rng.below(K + 1);
                        check_alias<T>(e, fam, rng, regime, X, K, 0, n, 0, K);           // a[:n], a
                        check_alias<T>(e, fam, rng, regime, X, K, 0, K, 0, m);           // a, a[:m]
                        check_alias<T>(e, fam, rng, regime, X, K, 0, n, 0, m);           // a[:n], a[:m]
                        ssize_t i0 = rng.below(K + 1), j0 = rng.below(K + 1);
                        check_alias<T>(e, fam, rng, regime, X, K, i0, rng.below(K - i0 + 1), j0, rng.below(K - j0 + 1));   // windows
                    }
                }
            }
    }
}

// ---- threads: every thread calls every kernel on the SAME input arrays; results must equal the serial ones bit for bit
std::atomic<int> gate{0};
std::atomic<long> thread_mismatch{0}, thread_calls{0};

template <typename T> struct Shared { Caller<T> a2, a3, b; std::vector<std::vector<T>> serial; };

template <typename T> std::vector<T> flat(const arr<T> &r) {
    std::vector<T> v(size_t(r.size()));
    for (size_t k = 0; k < v.size(); ++k) v[k] = r.logical(ssize_t(k));
    return v;
}

template <typename T>
void prepare(Shared<T> &s, const table_t<T> &table, uint64_t seed) {
    Rng rng{seed + 17 * sizeof(T)};
    s.a2 = make_caller<T>({160, 3}, L_C, rng, 0); s.a3 = make_caller<T>({3, 120, 3}, L_C, rng, 0); s.b = make_caller<T>({90, 3}, L_C, rng, 0);
    for (const auto &e : table) {
        Family fam = family(e.name);
        if (!fam.known) { s.serial.emplace_back(); continue; }
        s.serial.push_back(flat(e.call(fam.nd1 == 2 ? s.a2.a : s.a3.a, s.b.a, nullptr)));
    }
}

template <typename T>
void worker(const Shared<T> *s, const table_t<T> *table, int reps, int tid) {
    while (gate.load(std::memory_order_acquire) == 0) std::this_thread::yield();
    for (int rep = 0; rep < reps; ++rep)
        for (size_t k = 0; k < table->size(); ++k) {
            size_t kk = (k + size_t(tid)) % table->size();  // threads start on different kernels
            const auto &e = (*table)[kk];
            Family fam = family(e.name);
            if (!fam.known) continue;
            std::vector<T> r = flat(e.call(fam.nd1 == 2 ? s->a2.a : s->a3.a, s->b.a, nullptr));
            thread_calls.fetch_add(1, std::memory_order_relaxed);
            const auto &want = s->serial[kk];
            if (r.size() != want.size() || (want.size() && std::memcmp(r.data(), want.data(), want.size() * sizeof(T))))
                thread_mismatch.fetch_add(1, std::memory_order_relaxed);
        }
}

template <typename T> void print_table(const table_t<T> &t, char tc) {
    for (auto &e : t) std::printf("REG %s %c flags=%d,%d,%d\n", e.name.c_str(), tc, e.flags_ret, e.flags_a, e.flags_b);
}
}  // namespace

int main(int argc, char **argv) {
    if (argc < 2) { std::fprintf(stderr, "usage: c19_harness ref <seed> <rounds> | threads <n> <seed> <reps>\n"); return 2; }
    std::setvbuf(stdout, nullptr, _IOLBF, 0);
    pybind11::module_ m;
    molli::_init_distance(m);
    print_table(m.f32, 'f'); print_table(m.f64, 'd');
    for (auto &n : m.other) std::printf("OTHER %s\n", n.c_str());
    for (auto &e : m.f32) if (!family(e.name).known) std::printf("OTHER %s\n", e.name.c_str());
    for (auto &e : m.f64) if (!family(e.name).known) std::printf("OTHER %s\n", e.name.c_str());
    std::string mode = argv[1];
    if (mode == "ref") {
        uint64_t seed = argc > 2 ? std::strtoull(argv[2], nullptr, 10) : 0; int rounds = argc > 3 ? std::atoi(argv[3]) : 1;
        // layouts first: what is printed before a sanitizer abort then already names the layouts that give wrong values
        alias_sweep<float>(m.f32, seed, rounds);
        alias_sweep<double>(m.f64, seed, rounds);
        layout_sweep<float>(m.f32, seed, rounds);
        layout_sweep<double>(m.f64, seed, rounds);
        sweep<float>(m.f32, seed, rounds);
        sweep<double>(m.f64, seed, rounds);
        large_sweep<float>(m.f32, seed, rounds);
        large_sweep<double>(m.f64, seed, rounds);
        std::printf("CALLS %ld\nELEMS %ld\nNMISMATCH %ld\nNSHAPE %ld\nNINPUTCHANGED %ld\nNRAISED %ld\n", n_calls, n_elems, n_mismatch, n_shape, n_inputchanged, n_raised);
        for (int l = 0; l < L_COUNT; ++l) std::printf("LAYOUT %s %ld\n", LNAME[l], n_layout[l]);
        std::printf("NONCONTIGCALLS %ld\nNONCONTIGELEMS %ld\nCASTCOPY %ld\nCASTPASS %ld\nPASSNONCONTIG %ld\n",
                    n_noncontig_calls, n_noncontig_elems, n_cast_copy, n_cast_pass, n_pass_noncontig);
        std::printf("ALIASCALLS %ld\nALIASSAMESTART %ld\nALIASIDENTICAL %ld\nALIASOVERLAP %ld\n", n_alias_calls, n_alias_same_start, n_alias_identical, n_alias_overlap);
        for (auto &kv : mm_by_layout) std::printf("MMCOUNT %s %ld\n", kv.first.c_str(), kv.second);
        std::printf("LARGECALLS %ld\nLARGEELEMS %ld\nLARGESECOND %ld\nLARGEFIRST %ld\nLARGECONFORMERS %ld\nLARGENONCONTIG %ld\n",
                    n_large_calls, n_large_elems, n_large_second, n_large_first, n_large_conformers, n_large_noncontig);
        // last (the totals above are out already): arguments with a wrong number of dimensions
        ndim_sweep<float>(m.f32, seed);
        ndim_sweep<double>(m.f64, seed);
        std::printf("NDIMCALLS %ld\nNDIMRAISED %ld\nNDIMACCEPTED_TOTAL %ld\n", n_ndim_calls, n_ndim_raised, n_ndim_accepted);
    } else if (mode == "threads") {
        int n = argc > 2 ? std::atoi(argv[2]) : 8; uint64_t seed = argc > 3 ? std::strtoull(argv[3], nullptr, 10) : 0;
        int reps = argc > 4 ? std::atoi(argv[4]) : 3;
        Shared<float> sf; Shared<double> sd;
        prepare(sf, m.f32, seed); prepare(sd, m.f64, seed);
        std::vector<std::thread> ts;
        for (int t = 0; t < n; ++t) {  // n concurrent callers per float width, all on the same input arrays
            ts.emplace_back(worker<float>, &sf, &m.f32, reps, t);
            ts.emplace_back(worker<double>, &sd, &m.f64, reps, t);
        }
        gate.store(1, std::memory_order_release);
        for (auto &t : ts) t.join();
        std::printf("THREADS %zu\nCALLS %ld\nTHREADMISMATCH %ld\n", ts.size(), thread_calls.load(), thread_mismatch.load());
    } else { std::fprintf(stderr, "unknown mode\n"); return 2; }
    std::printf("DONE\n");
    return 0;
}
