// C19 stand-in: everything (array_t included) lives in the stand-in pybind11.h
#pragma once
#include <pybind11/pybind11.h>
