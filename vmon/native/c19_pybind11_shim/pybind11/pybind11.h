// C19 stand-in for the pybind11 names used by molli_xt/distance.cpp and _molli_xt.hpp.
// pybind11 is not installed on this image; this header lets the UNMODIFIED repository source be
// compiled into a plain executable (c19_harness.cpp) under ASan/UBSan/TSan.  It models exactly:
//   py::array_t<T, flags>  (C-contiguous, exact-size malloc buffer so sanitizer red zones are adjacent;
//                           shape(i), unchecked<N>(), mutable_unchecked<N>() without any bounds check)
//   py::array::c_style / forcecast, py::ssize_t, py::gil_scoped_release, py::module_::def(name, f, doc...)
#pragma once
#include <sys/types.h>
#include <cstdlib>
#include <map>
#include <memory>
#include <string>
#include <type_traits>
#include <utility>
#include <vector>

namespace pybind11 {
using ssize_t = ::ssize_t;

namespace c19 {                         // bookkeeping the harness reads
inline thread_local int gil_released = 0;    // >0 while a gil_scoped_release is alive on this thread
inline thread_local long alloc_without_gil = 0;
}

struct array { enum { c_style = 1, f_style = 2, forcecast = 16 }; };

template <typename T, ssize_t N, bool Mutable> struct unchecked_ref {
    T *p; ssize_t dim[N > 0 ? N : 1];
    template <typename... Ix> ssize_t off(Ix... ix) const {
        static_assert(sizeof...(Ix) == N, "index count"); ssize_t idx[] = {ssize_t(ix)...}, o = 0;
        for (ssize_t k = 0; k < N; ++k) o = o * dim[k] + idx[k];
        return o; }
    template <typename... Ix> const T *data(Ix... ix) const { return p + off(ix...); }
    template <typename... Ix> std::conditional_t<Mutable, T &, const T &> operator()(Ix... ix) const { return p[off(ix...)]; }
    template <typename... Ix> T *mutable_data(Ix... ix) const { static_assert(Mutable, "read-only"); return p + off(ix...); }
    ssize_t shape(ssize_t i) const { return dim[i]; }
};

template <typename T, int Flags = array::forcecast> class array_t {
    std::vector<ssize_t> shp; std::shared_ptr<T> buf;
public:
    using value_type = T;
    array_t() : array_t(std::vector<ssize_t>{0}) {}
    array_t(std::vector<ssize_t> shape) : shp(std::move(shape)) {       // like numpy.empty(shape): uninitialised
        if (c19::gil_released > 0) ++c19::alloc_without_gil;            // creating a Python object needs the GIL
        buf = std::shared_ptr<T>(static_cast<T *>(std::malloc(size() * sizeof(T))), std::free); }
    ssize_t ndim() const { return ssize_t(shp.size()); }
    ssize_t shape(ssize_t i) const { return shp[size_t(i)]; }           // pybind11 raises on i >= ndim; callers here never do
    const std::vector<ssize_t> &shape_vec() const { return shp; }
    ssize_t size() const { ssize_t n = 1; for (auto d : shp) n *= d; return n; }
    const T *data() const { return buf.get(); }
    T *mutable_data() { return buf.get(); }
    template <ssize_t N> unchecked_ref<const T, N, false> unchecked() const {
        unchecked_ref<const T, N, false> r{buf.get(), {}}; for (ssize_t k = 0; k < N; ++k) r.dim[k] = shp[size_t(k)]; return r; }
    template <ssize_t N> unchecked_ref<T, N, true> mutable_unchecked() {
        unchecked_ref<T, N, true> r{buf.get(), {}}; for (ssize_t k = 0; k < N; ++k) r.dim[k] = shp[size_t(k)]; return r; }
};

struct gil_scoped_release {
    gil_scoped_release() { ++c19::gil_released; }
    ~gil_scoped_release() { --c19::gil_released; }
    gil_scoped_release(const gil_scoped_release &) = delete;
};

class module_ {                         // def() collects the registration table instead of creating Python callables
public:
    template <typename T> using kernel = array_t<T, array::c_style | array::forcecast> (*)(
        const array_t<T, array::c_style | array::forcecast> &, const array_t<T, array::c_style | array::forcecast> &);
    std::vector<std::pair<std::string, kernel<float>>> f32;
    std::vector<std::pair<std::string, kernel<double>>> f64;
    std::vector<std::string> other;     // registrations with a signature this stand-in does not know
    template <typename F, typename... Extra> module_ &def(const char *name, F &&f, const Extra &...) {
        if constexpr (std::is_convertible_v<F, kernel<float>>) f32.emplace_back(name, f);
        else if constexpr (std::is_convertible_v<F, kernel<double>>) f64.emplace_back(name, f);
        else other.emplace_back(name);
        return *this; }
    struct docproxy { template <typename X> docproxy &operator=(X &&) { return *this; } };
    docproxy doc() { return {}; }
};
using module = module_;
}  // namespace pybind11
