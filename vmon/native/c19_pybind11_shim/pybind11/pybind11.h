// C19 stand-in for the pybind11 names used by molli_xt/distance.cpp and _molli_xt.hpp.
// pybind11 is not installed on this image; this header lets the UNMODIFIED repository source be
// compiled into a plain executable (c19_harness.cpp) under ASan/UBSan/TSan.  It models:
//   py::array_t<T, Flags>  shape AND byte strides over an exact-size malloc buffer (so sanitizer red zones are
//                          adjacent to the data); array_t(shape) makes C strides, or Fortran strides when Flags has
//                          f_style (as pybind11's constructor does); shape(i), strides(i), data(), mutable_data(),
//                          unchecked<N>() / mutable_unchecked<N>() index through the strides without any bounds
//                          check (as pybind11's proxies do) but REFUSE an array whose number of dimensions is not N
//                          (std::domain_error "array has incorrect number of dimensions", as pybind11 does -- the only
//                          place where a wrong-ndim argument is turned away); shape(i) / strides(i) with i >= ndim
//                          raise index_error("invalid axis") as pybind11's fail_dim_check does;
//                          data(i, j, ...) / at(i, j, ...) go through the strides WITH pybind11's bounds check (index_error)
//   the CALL BOUNDARY      array_t<T, Flags>::ensure(src) is what pybind11's type caster does for an ndarray whose
//                          dtype is already T (PyArray_FromAny(src, dtype, 0, 0, ENSUREARRAY | Flags)): if Flags has
//                          c_style and src is not C-contiguous (numpy's definition: extent-1 axes and empty arrays
//                          do not count) the kernel gets a fresh C-ordered copy; likewise f_style / Fortran; otherwise
//                          the kernel gets the caller's array itself, same buffer, same strides
//   py::module_::def       accepts a kernel R(*)(A, B) whose argument / return types are array_t<T, ANY flags>
//                          (by value or by const reference) and records name, element type, the three flag words and
//                          a callable that performs the conversion above and then calls the kernel
//   py::array::c_style / f_style / forcecast, py::ssize_t, py::gil_scoped_release, py::index_error
#pragma once
#include <sys/types.h>
#include <cstdlib>
#include <functional>
#include <map>
#include <memory>
#include <stdexcept>
#include <string>
#include <type_traits>
#include <utility>
#include <vector>

namespace pybind11 {
using ssize_t = ::ssize_t;

namespace c19 {                         // bookkeeping the harness reads
inline thread_local int gil_released = 0;    // >0 while a gil_scoped_release is alive on this thread
inline thread_local long alloc_without_gil = 0;
}

struct index_error : std::runtime_error { using std::runtime_error::runtime_error; };
// the other built-in exception translations a kernel may use to turn an argument away
struct value_error : std::runtime_error { using std::runtime_error::runtime_error; };
struct type_error : std::runtime_error { using std::runtime_error::runtime_error; };
struct buffer_error : std::runtime_error { using std::runtime_error::runtime_error; };

struct array { enum { c_style = 1, f_style = 2, forcecast = 16 }; };

template <typename T, ssize_t N, bool Mutable> struct unchecked_ref {   // T is const-qualified for the read-only proxy
    using byte = std::conditional_t<Mutable, unsigned char, const unsigned char>;
    byte *p; ssize_t dim[N > 0 ? N : 1], str[N > 0 ? N : 1];            // str in bytes
    template <typename... Ix> ssize_t off(Ix... ix) const {
        static_assert(sizeof...(Ix) == N, "index count"); ssize_t idx[] = {ssize_t(ix)...}, o = 0;
        for (ssize_t k = 0; k < N; ++k) o += idx[k] * str[k];
        return o; }
    template <typename... Ix> const T *data(Ix... ix) const { return reinterpret_cast<const T *>(p + off(ix...)); }
    template <typename... Ix> std::conditional_t<Mutable, T &, const T &> operator()(Ix... ix) const {
        return *reinterpret_cast<T *>(p + off(ix...)); }
    template <typename... Ix> T *mutable_data(Ix... ix) const {
        static_assert(Mutable, "read-only"); return reinterpret_cast<T *>(p + off(ix...)); }
    ssize_t shape(ssize_t i) const { return dim[i]; }
    ssize_t ndim() const { return N; }
};

// an ndarray of element type T, whatever the flags of the array_t it is seen through: shape, byte strides, first element,
// owner of the allocation
template <typename T> class array_data {
protected:
    std::vector<ssize_t> shp, str; std::shared_ptr<T> buf; T *ptr = nullptr; ssize_t nalloc = 0;
    void allocate(ssize_t n) {
        if (c19::gil_released > 0) ++c19::alloc_without_gil;            // creating a Python object needs the GIL
        nalloc = n; buf = std::shared_ptr<T>(static_cast<T *>(std::malloc(size_t(n) * sizeof(T))), std::free); ptr = buf.get(); }
    template <typename... Ix> ssize_t checked_offset(Ix... ix) const {
        if (ssize_t(sizeof...(Ix)) > ndim()) throw index_error("too many indices for an array");
        ssize_t idx[] = {ssize_t(ix)..., 0}, o = 0;
        for (size_t k = 0; k < sizeof...(Ix); ++k) {
            if (idx[k] < 0 || idx[k] >= shp[k]) throw index_error("index out of bounds for axis");
            o += idx[k] * str[k]; }
        return o; }
public:
    using value_type = T;
    static std::vector<ssize_t> c_strides(const std::vector<ssize_t> &shape) {
        std::vector<ssize_t> s(shape.size(), ssize_t(sizeof(T)));
        for (size_t k = shape.size(); k-- > 1;) s[k - 1] = s[k] * shape[k];
        return s; }
    static std::vector<ssize_t> f_strides(const std::vector<ssize_t> &shape) {
        std::vector<ssize_t> s(shape.size(), ssize_t(sizeof(T)));
        for (size_t k = 1; k < shape.size(); ++k) s[k] = s[k - 1] * shape[k - 1];
        return s; }
    array_data() = default;
    // numpy.empty(shape) with the given byte strides over a buffer of exactly nbase elements whose first logical
    // element is base[first] -- how the harness builds views (a.T, a[:, ::2], a[:, ::-1], broadcast_to, ...)
    array_data(std::vector<ssize_t> shape, std::vector<ssize_t> byte_strides, ssize_t nbase, ssize_t first)
        : shp(std::move(shape)), str(std::move(byte_strides)) { allocate(nbase); ptr = buf.get() + first; }
    ssize_t ndim() const { return ssize_t(shp.size()); }
    void dim_check(ssize_t i) const {                                   // pybind11: fail_dim_check(dim, "invalid axis")
        if (i < 0 || i >= ndim()) throw index_error("invalid axis: " + std::to_string(i) + " (ndim = " + std::to_string(ndim()) + ")"); }
    void ndim_check(ssize_t n) const {                                  // pybind11: unchecked<N>() / mutable_unchecked<N>()
        if (ndim() != n) throw std::domain_error("array has incorrect number of dimensions: " + std::to_string(ndim()) +
                                                 "; expected " + std::to_string(n)); }
    ssize_t shape(ssize_t i) const { dim_check(i); return shp[size_t(i)]; }
    ssize_t strides(ssize_t i) const { dim_check(i); return str[size_t(i)]; }
    const std::vector<ssize_t> &shape_vec() const { return shp; }
    const std::vector<ssize_t> &strides_vec() const { return str; }
    ssize_t size() const { ssize_t n = 1; for (auto d : shp) n *= d; return n; }
    ssize_t itemsize() const { return ssize_t(sizeof(T)); }
    const T *data() const { return ptr; }
    T *mutable_data() { return ptr; }
    template <typename I, typename... Ix> const T *data(I i, Ix... ix) const {
        return reinterpret_cast<const T *>(reinterpret_cast<const unsigned char *>(ptr) + checked_offset(i, ix...)); }
    template <typename I, typename... Ix> T *mutable_data(I i, Ix... ix) {
        return reinterpret_cast<T *>(reinterpret_cast<unsigned char *>(ptr) + checked_offset(i, ix...)); }
    template <typename... Ix> const T &at(Ix... ix) const {
        if (ssize_t(sizeof...(Ix)) != ndim()) throw index_error("index dimension mismatch");
        return *data(ix...); }
    template <typename... Ix> T &mutable_at(Ix... ix) {
        if (ssize_t(sizeof...(Ix)) != ndim()) throw index_error("index dimension mismatch");
        return *mutable_data(ix...); }
    template <ssize_t N> unchecked_ref<const T, N, false> unchecked() const {
        ndim_check(N);
        unchecked_ref<const T, N, false> r{reinterpret_cast<const unsigned char *>(ptr), {}, {}};
        for (ssize_t k = 0; k < N; ++k) { r.dim[k] = shp[size_t(k)]; r.str[k] = str[size_t(k)]; } return r; }
    template <ssize_t N> unchecked_ref<T, N, true> mutable_unchecked() {
        ndim_check(N);
        unchecked_ref<T, N, true> r{reinterpret_cast<unsigned char *>(ptr), {}, {}};
        for (ssize_t k = 0; k < N; ++k) { r.dim[k] = shp[size_t(k)]; r.str[k] = str[size_t(k)]; } return r; }
    // harness side: the whole allocation behind this array and whether two arrays share it
    const T *base_data() const { return buf.get(); }
    T *mutable_base_data() { return buf.get(); }
    ssize_t base_size() const { return nalloc; }
    // a view into the same allocation: numpy basic slicing (a[i:j], a[x, i:j], ...) -- `first` counts elements from base[0]
    array_data view(std::vector<ssize_t> shape, std::vector<ssize_t> byte_strides, ssize_t first) const {
        array_data v(*this); v.shp = std::move(shape); v.str = std::move(byte_strides); v.ptr = buf.get() + first; return v; }
    bool same_buffer(const array_data &o) const { return buf.get() == o.buf.get() && ptr == o.ptr; }
    // numpy's NPY_ARRAY_C_CONTIGUOUS / NPY_ARRAY_F_CONTIGUOUS
    bool c_contiguous() const {
        if (size() == 0) return true;
        ssize_t sd = ssize_t(sizeof(T));
        for (size_t k = shp.size(); k-- > 0;) if (shp[k] != 1) { if (str[k] != sd) return false; sd *= shp[k]; }
        return true; }
    bool f_contiguous() const {
        if (size() == 0) return true;
        ssize_t sd = ssize_t(sizeof(T));
        for (size_t k = 0; k < shp.size(); ++k) if (shp[k] != 1) { if (str[k] != sd) return false; sd *= shp[k]; }
        return true; }
    // element by logical index (row-major counter over the shape), through the strides
    const T &logical(ssize_t flat) const {
        ssize_t o = 0;
        for (size_t k = shp.size(); k-- > 0;) { o += (flat % shp[k]) * str[k]; flat /= shp[k]; }
        return *reinterpret_cast<const T *>(reinterpret_cast<const unsigned char *>(ptr) + o); }
};

template <typename T, int Flags = array::forcecast> class array_t : public array_data<T> {
    using base = array_data<T>;
public:
    static constexpr int flags = Flags;
    array_t() : array_t(std::vector<ssize_t>{0}) {}
    array_t(std::vector<ssize_t> shape) {                               // like numpy.empty(shape): uninitialised
        this->str = (Flags & array::f_style) ? base::f_strides(shape) : base::c_strides(shape);
        this->shp = std::move(shape);
        this->allocate(this->size()); }
    // the type caster for an argument whose dtype is already T
    static array_t ensure(const array_data<T> &src, bool *copied = nullptr) {
        const bool want_c = (Flags & array::c_style) != 0, want_f = !want_c && (Flags & array::f_style) != 0;
        const bool ok = want_c ? src.c_contiguous() : want_f ? src.f_contiguous() : true;
        if (copied) *copied = !ok;
        if (ok) { array_t r{view_tag{}}; static_cast<base &>(r) = src; return r; }
        array_t r{view_tag{}};
        r.shp = src.shape_vec(); r.str = want_f ? base::f_strides(r.shp) : base::c_strides(r.shp);
        r.allocate(r.size());
        const ssize_t n = r.size();
        for (ssize_t k = 0; k < n; ++k) const_cast<T &>(r.logical(k)) = src.logical(k);
        return r; }
private:
    struct view_tag {};
    explicit array_t(view_tag) {}
};

struct gil_scoped_release {
    gil_scoped_release() { ++c19::gil_released; }
    ~gil_scoped_release() { --c19::gil_released; }
    gil_scoped_release(const gil_scoped_release &) = delete;
};

namespace c19 {
template <typename X> struct is_array_t : std::false_type {};
template <typename T, int F> struct is_array_t<array_t<T, F>> : std::true_type {};
template <typename T> struct call_record { array_data<T> arg[2]; bool copied[2] = {false, false}; };   // what the kernel received
template <typename T> struct registration {
    std::string name; int flags_ret, flags_a, flags_b;
    std::function<array_data<T>(const array_data<T> &, const array_data<T> &, call_record<T> *)> call;
};
}

class module_ {                         // def() collects the registration table instead of creating Python callables
    template <typename T> std::vector<c19::registration<T>> &table() {
        if constexpr (std::is_same_v<T, float>) return f32; else return f64; }
public:
    std::vector<c19::registration<float>> f32;
    std::vector<c19::registration<double>> f64;
    std::vector<std::string> other;     // registrations with a signature this stand-in does not know
    template <typename R, typename A, typename B, typename... Extra> module_ &def(const char *name, R (*f)(A, B), const Extra &...) {
        using DA = std::decay_t<A>; using DB = std::decay_t<B>;
        if constexpr (c19::is_array_t<R>::value && c19::is_array_t<DA>::value && c19::is_array_t<DB>::value) {
            using T = typename R::value_type;
            if constexpr (std::is_same_v<T, typename DA::value_type> && std::is_same_v<T, typename DB::value_type> &&
                          (std::is_same_v<T, float> || std::is_same_v<T, double>)) {
                table<T>().push_back({name, R::flags, DA::flags, DB::flags,
                    [f](const array_data<T> &a, const array_data<T> &b, c19::call_record<T> *rec) -> array_data<T> {
                        bool ca = false, cb = false;
                        DA xa = DA::ensure(a, &ca); DB xb = DB::ensure(b, &cb);
                        if (rec) { rec->arg[0] = xa; rec->arg[1] = xb; rec->copied[0] = ca; rec->copied[1] = cb; }
                        R r = f(xa, xb);
                        return r; }});
                return *this;
            }
        }
        other.emplace_back(name);
        return *this; }
    template <typename F, typename... Extra> module_ &def(const char *name, F &&, const Extra &...) { other.emplace_back(name); return *this; }
    struct docproxy { template <typename X> docproxy &operator=(X &&) { return *this; } };
    docproxy doc() { return {}; }
};
using module = module_;
}  // namespace pybind11
