"""
vmon.runner -- parent side of every check.

A property module (vmon/props/Cxx.py) provides

    ID, LEVEL, RULE, ASSUMPTIONS            constants
    REQUIRED = {"monitor-name": min_count}  counters that must be reached, else INCONCLUSIVE
    plan(tier, seed) -> list[dict]          chunk specs (JSON-able); each is run in its own child
    run_chunk(spec, ctx)                    executed in the child (see vmon.child.Ctx)
    post(run, results)          (optional)  parent-side offline checker over everything recorded

The parent runs chunks in child interpreters (`subprocess.run(timeout=)`, never a
Pool), aggregates counters, classifies violations against known_findings.json, writes
evidence/<id>.json and prints the verdict lines.

Exit codes: 0 held, 1 violation, 3 inconclusive.
"""
from __future__ import annotations

import hashlib
import importlib
import json
import os
import pickle
import shutil
import subprocess
import sys
import time
from concurrent.futures import ThreadPoolExecutor
from pathlib import Path

VERIF = Path(__file__).resolve().parent.parent
REPO = Path(os.environ.get("VERIF_REPO", "/repo"))
PY = os.environ.get("VERIF_PY", "/venv/bin/python")
DEPS = VERIF / ".deps"
WORK = Path(os.environ.get("VERIF_WORK", str(VERIF / ".work")))
WHEELS = "/opt/veriftools/wheels"
NPROC = int(os.environ.get("VERIF_JOBS", "0")) or min(16, os.cpu_count() or 4)


def ensure_deps():
    """icontract + deal beside the repository's interpreter (offline, from the wheelhouse)."""
    if (DEPS / "icontract").is_dir() and (DEPS / "deal").is_dir():
        return
    DEPS.mkdir(exist_ok=True)
    subprocess.run(
        [PY, "-m", "pip", "install", "-q", "--no-index", "--find-links", WHEELS,
         "--target", str(DEPS), "icontract", "deal"],
        check=True, stdout=subprocess.DEVNULL, stderr=subprocess.DEVNULL,
    )


def child_env(workdir: Path, seed: int) -> dict:
    env = dict(os.environ)
    env["PYTHONPATH"] = os.pathsep.join([str(VERIF), str(DEPS), str(REPO)])
    env["PYTHONHASHSEED"] = "0"
    env["MOLLI_HOME"] = str(workdir / "home")
    env["VERIF_SEED"] = str(seed)
    env["MOLLI_VERIF"] = "1"
    env.pop("MOLLI_SCRATCH_DIR", None)
    env.pop("MOLLI_SHARED_DIR", None)
    env["OMP_NUM_THREADS"] = "1"
    env["OPENBLAS_NUM_THREADS"] = "1"
    env["PYTHONDONTWRITEBYTECODE"] = "1"
    return env


def load_known():
    p = VERIF / "known_findings.json"
    if not p.exists():
        return []
    return json.loads(p.read_text()).get("findings", [])


def h8(s) -> str:
    if not isinstance(s, (bytes, bytearray)):
        s = repr(s).encode()
    return hashlib.blake2b(s, digest_size=8).hexdigest()


class Run:
    def __init__(self, mod, tier: str, seed: int):
        self.mod = mod
        self.pid = mod.ID
        self.tier = tier
        self.seed = seed
        self.t0 = time.time()
        self.workdir = WORK / self.pid / f"run-{os.getpid()}"
        if self.workdir.exists():
            shutil.rmtree(self.workdir, ignore_errors=True)
        (self.workdir / "home").mkdir(parents=True)
        self.evaluations = 0
        self.nontrivial: set[str] = set()
        self.samples: list = []
        self.counters: dict[str, int] = {}
        self.violations: list[dict] = []
        self.inconclusive: list[str] = []
        self.extra: dict = {}
        self.keep_work = False

    # ---- aggregation ---------------------------------------------------------
    def absorb(self, res: dict):
        self.evaluations += res.get("evaluations", 0)
        self.nontrivial.update(res.get("nontrivial", ()))
        for s in res.get("samples", ()):
            if len(self.samples) < 6:
                self.samples.append(s)
        for k, v in res.get("counters", {}).items():
            self.counters[k] = self.counters.get(k, 0) + v
        self.violations.extend(res.get("violations", ()))
        for k, v in res.get("extra", {}).items():
            if isinstance(v, (int, float)) and isinstance(self.extra.get(k, 0), (int, float)):
                self.extra[k] = self.extra.get(k, 0) + v
            elif isinstance(v, list):
                self.extra.setdefault(k, [])
                self.extra[k].extend(v)
                del self.extra[k][200:]
            else:
                self.extra[k] = v
        self.inconclusive.extend(res.get("inconclusive", ()))

    # ---- running chunks ---------------------------------------------------------
    def run_chunk(self, idx: int, spec: dict, only=None) -> dict:
        cdir = self.workdir / f"c{idx}"
        cdir.mkdir(parents=True, exist_ok=True)
        specf = cdir / "spec.pkl"
        outf = cdir / "out.pkl"
        specf.write_bytes(pickle.dumps({"spec": spec, "only": only, "tier": self.tier,
                                        "seed": self.seed, "idx": idx}))
        timeout = spec.get("timeout", getattr(self.mod, "CHUNK_TIMEOUT", 600))
        env = child_env(cdir, self.seed)
        env.update(getattr(self.mod, "EXTRA_ENV", {}))
        proc = subprocess.Popen(
            [PY, "-X", "faulthandler", "-m", "vmon.child", self.pid, str(specf), str(outf), str(cdir)],
            env=env, cwd=str(cdir), stdout=subprocess.PIPE, stderr=subprocess.PIPE, text=True,
            start_new_session=True,
        )
        try:
            out, err = proc.communicate(timeout=timeout)
        except subprocess.TimeoutExpired:
            _killpg_quiet(proc)
            try:
                proc.communicate(timeout=10)
            except Exception:
                pass
            return {"inconclusive": [f"chunk {idx} watchdog {timeout}s spec={_short(spec)}"]}
        _killpg_quiet(proc)  # stray grandchildren of a finished chunk
        p = subprocess.CompletedProcess(proc.args, proc.returncode, out, err)
        if not outf.exists():
            tail = (p.stderr or "")[-1500:]
            return {"inconclusive": [f"chunk {idx} died rc={p.returncode} spec={_short(spec)} stderr={tail}"]}
        res = pickle.loads(outf.read_bytes())
        if not self.keep_work:
            shutil.rmtree(cdir, ignore_errors=True)
        return res

    def run_all(self, specs: list[dict]):
        results = []
        with ThreadPoolExecutor(max_workers=NPROC) as ex:
            futs = [ex.submit(self.run_chunk, i, s) for i, s in enumerate(specs)]
            for f in futs:
                res = f.result()
                results.append(res)
                self.absorb(res)
        return results

    # ---- verdict ----------------------------------------------------------------
    def finish(self) -> int:
        known = {k["key"]: k for k in load_known() if k.get("property") == self.pid}
        fired_known: dict[str, dict] = {}
        real: list[dict] = []
        for v in self.violations:
            k = known.get(v.get("key"))
            if k is not None and k.get("status") == "open":
                fired_known.setdefault(v["key"], v)
            else:
                real.append(v)

        required = getattr(self.mod, "REQUIRED", {})
        if callable(required):
            required = required(self.tier)
        self.waived = []
        for name, minimum in required.items():
            if self.counters.get(name, 0) == 0 and self.counters.get(name + ".anchor-not-found", 0) > 0:
                # a monitor that counts executions of a particular statement of the code under test: when the current
                # source no longer has a statement of that shape (the code was restructured) it cannot observe anything;
                # that says nothing about the property -- the input-class monitors feeding that code stay required
                self.waived.append(name)
                continue
            if self.counters.get(name, 0) < minimum:
                self.inconclusive.append(
                    f"monitor {name!r} reached {self.counters.get(name, 0)} < {minimum}")
        if self.evaluations == 0:
            self.inconclusive.append("no case was evaluated")
        if len(self.nontrivial) < 2:
            self.inconclusive.append("fewer than 2 distinct non-trivial cases")

        replay_paths = []
        if real:
            rdir = Path(os.environ.get("VERIF_REPLAY_DIR", str(VERIF / "replay"))) / self.pid
            rdir.mkdir(parents=True, exist_ok=True)
            seen = {}
            for v in real:
                n = seen.get(v["key"], 0)
                seen[v["key"]] = n + 1
                if n >= 3:
                    continue
                name = "".join(c if c.isalnum() or c in "-_." else "_" for c in v["key"])[:80]
                p = rdir / f"{name}-s{self.seed}-{n}.json"
                p.write_text(json.dumps({"property": self.pid, "tier": self.tier, "seed": self.seed,
                                         **v}, indent=1, default=_jd))
                replay_paths.append((v, p))

        wall = time.time() - self.t0
        cov = {
            "evaluations": self.evaluations,
            "distinct_nontrivial": len(self.nontrivial),
            "rule": self.mod.RULE,
            "samples": self.samples[:5] or ["<none>"],
            "monitors": dict(sorted(self.counters.items())),
            "known_findings_fired": sorted(fired_known),
            "violation_keys": sorted({v["key"] for v in real}),
            "inconclusive": self.inconclusive[:20],
        }
        if getattr(self.mod, "EXHAUSTIVE", False):
            cov["exhaustive"] = True
        cov.update(self.extra)
        ev = {
            "property_id": self.pid,
            "tier": self.tier,
            "seed": self.seed,
            "level": self.mod.LEVEL,
            "coverage": cov,
            "assumptions": list(getattr(self.mod, "ASSUMPTIONS", [])) + [
                f"monitor {w!r} waived in this run: its source anchor was not found in the current tree" for w in self.waived],
            "wall_s": round(wall, 2),
            "violations": len(real),
        }
        evdir = Path(os.environ.get("VERIF_EVIDENCE_DIR", str(VERIF / "evidence")))
        evdir.mkdir(exist_ok=True, parents=True)
        (evdir / f"{self.pid}.json").write_text(json.dumps(ev, indent=1, default=_jd) + "\n")

        print(f"[{self.pid}] tier={self.tier} seed={self.seed} evaluations={self.evaluations} "
              f"distinct_nontrivial={len(self.nontrivial)} wall={wall:.1f}s")
        for k, v in sorted(self.counters.items()):
            print(f"[{self.pid}]   monitor {k} = {v}")
        for key, v in sorted(fired_known.items()):
            print(f"KNOWN-FINDING: property={self.pid} {key}: {known[key].get('what', '')}")
        for v, p in replay_paths:
            print(f"VIOLATION property={self.pid} replay={p}")
            print(f"    key={v['key']} detail={_short(v.get('detail'), 600)}")
        if real and not replay_paths:
            print(f"VIOLATION property={self.pid} replay=<none>")
        if not self.keep_work:
            shutil.rmtree(self.workdir, ignore_errors=True)
        if real:
            return 1
        if self.inconclusive:
            for why in self.inconclusive[:10]:
                print(f"INCONCLUSIVE property={self.pid} why={why}")
            return 3
        print(f"[{self.pid}] HELD on everything explored")
        return 0


def _killpg_quiet(proc):
    import signal
    try:
        os.killpg(proc.pid, signal.SIGKILL)
    except (ProcessLookupError, PermissionError):
        pass


def _short(x, n=200):
    s = repr(x)
    return s if len(s) <= n else s[:n] + "..."


def _jd(o):
    try:
        import numpy as np
        if isinstance(o, np.ndarray):
            return o.tolist()
        if isinstance(o, (np.integer,)):
            return int(o)
        if isinstance(o, (np.floating,)):
            return float(o)
    except Exception:
        pass
    if isinstance(o, (bytes, bytearray)):
        return {"__bytes__": bytes(o).hex()}
    if isinstance(o, (set, frozenset, tuple)):
        return list(o)
    if isinstance(o, Path):
        return str(o)
    return repr(o)


def main(argv=None):
    import argparse

    ap = argparse.ArgumentParser(prog="check")
    ap.add_argument("prop")
    ap.add_argument("--tier", default=os.environ.get("VERIF_TIER", "quick"), choices=["quick", "thorough"])
    ap.add_argument("--replay", default=None)
    ap.add_argument("--keep", action="store_true")
    a = ap.parse_args(argv)
    seed = int(os.environ.get("VERIF_SEED", "0") or 0)
    ensure_deps()
    sys.path[:0] = [str(VERIF), str(DEPS)]
    mod = importlib.import_module(f"vmon.props.{a.prop}")
    if a.replay:
        w = json.loads(Path(a.replay).read_text())
        run = Run(mod, w.get("tier", a.tier), int(w.get("seed", seed)))
        run.keep_work = a.keep
        res = run.run_chunk(0, w["spec"], only=w.get("case"))
        run.absorb(res)
        hit = [v for v in run.violations if v.get("key") == w.get("key")]
        for v in run.violations:
            print(f"replayed violation key={v['key']} detail={_short(v.get('detail'), 2000)}")
        print(f"REPLAY property={a.prop} reproduced={bool(hit)} violations={len(run.violations)} "
              f"inconclusive={run.inconclusive}")
        shutil.rmtree(run.workdir, ignore_errors=True)
        return 1 if run.violations else 0
    run = Run(mod, a.tier, seed)
    run.keep_work = a.keep
    if hasattr(mod, "run"):
        mod.run(run)
    else:
        specs = mod.plan(a.tier, seed)
        results = run.run_all(specs)
        if hasattr(mod, "post"):
            mod.post(run, results)
    return run.finish()


if __name__ == "__main__":
    sys.exit(main())
