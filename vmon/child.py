"""
vmon.child -- executes one chunk of a property's workload in its own interpreter.

    python -m vmon.child <PROP> <spec.pkl> <out.pkl> <workdir>
"""
from __future__ import annotations

import hashlib
import importlib
import os
import pickle
import random
import sys
import traceback
from pathlib import Path


def h8(s) -> str:
    if not isinstance(s, (bytes, bytearray)):
        s = repr(s).encode()
    return hashlib.blake2b(s, digest_size=8).hexdigest()


def _norm(x):
    if isinstance(x, (list, tuple)):
        return [_norm(i) for i in x]
    return x


def plain(x, depth=0):
    """JSON-able copy of a witness / sample: foreign objects become short reprs"""
    if x is None or isinstance(x, (bool, int, float, str)):
        return x
    if isinstance(x, (bytes, bytearray)):
        return {"__bytes__": bytes(x[:64]).hex(), "len": len(x)}
    if depth > 6:
        return repr(x)[:80]
    if isinstance(x, dict):
        return {str(k) if not isinstance(k, (str, int)) else k: plain(v, depth + 1) for k, v in list(x.items())[:60]}
    if isinstance(x, (list, tuple, set, frozenset)):
        return [plain(v, depth + 1) for v in list(x)[:60]]
    try:
        import numpy as np
        if isinstance(x, np.ndarray):
            return plain(x.tolist()[:60], depth + 1)
        if isinstance(x, np.generic):
            return x.item()
    except Exception:
        pass
    return repr(x)[:120]


class Ctx:
    """What a property module sees while running a chunk."""

    def __init__(self, pid, spec, only, tier, seed, idx, workdir):
        self.pid = pid
        self.spec = spec
        self.only = only
        self.tier = tier
        self.seed = seed
        self.idx = idx
        self.tmp = Path(workdir)
        self.evaluations = 0
        self.nontrivial: set[str] = set()
        self.samples: list = []
        self.counters: dict[str, int] = {}
        self.violations: list[dict] = []
        self.extra: dict = {}
        self.inconclusive: list[str] = []
        self._case = None
        self._vkeys: dict[str, int] = {}

    # -- seeding: one generator per (seed, property, case id)
    def rng(self, *case_id) -> random.Random:
        return random.Random(f"{self.seed}/{self.pid}/{case_id!r}")

    def nprng(self, *case_id):
        import numpy as np

        d = hashlib.blake2b(f"{self.seed}/{self.pid}/{case_id!r}".encode(), digest_size=8).digest()
        return np.random.default_rng(int.from_bytes(d, "big"))

    def want(self, case) -> bool:
        """replay filter: True when this case should run"""
        return self.only is None or _norm(self.only) == _norm(case)

    def case(self, case, dkey=None, nontrivial=True, sample=None):
        """record one evaluated case; `case` identifies it inside the chunk (for replay)"""
        self._case = case
        self.evaluations += 1
        if nontrivial:
            self.nontrivial.add(h8(dkey if dkey is not None else (self.spec, case)))
        if sample is not None and len(self.samples) < 3:
            self.samples.append(plain(sample))

    def count(self, name, n=1):
        self.counters[name] = self.counters.get(name, 0) + n

    def violation(self, key: str, /, case=None, **detail):
        """a property violation: key names the mechanism (operation, field, direction)"""
        n = self._vkeys.get(key, 0)
        self._vkeys[key] = n + 1
        if n >= 5:  # keep a handful of witnesses per mechanism and chunk
            return
        self.violations.append({
            "key": f"{self.pid}:{key}" if not key.startswith(self.pid + ":") else key,
            "spec": self.spec,
            "case": plain(case if case is not None else self._case),
            "detail": plain(detail),
        })

    def note(self, name, value):
        self.extra[name] = plain(value)

    def result(self):
        return {
            "evaluations": self.evaluations,
            "nontrivial": self.nontrivial,
            "samples": self.samples,
            "counters": self.counters,
            "violations": self.violations,
            "extra": self.extra,
            "inconclusive": self.inconclusive,
        }


def main():
    pid, specf, outf, workdir = sys.argv[1:5]
    job = pickle.loads(Path(specf).read_bytes())
    ctx = Ctx(pid, job["spec"], job["only"], job["tier"], job["seed"], job["idx"], workdir)
    random.seed(job["seed"])
    mod = importlib.import_module(f"vmon.props.{pid}")
    try:
        mod.run_chunk(job["spec"], ctx)
    except BaseException:  # a crash of the harness is inconclusive, never "held"
        ctx.inconclusive.append(
            f"harness error in chunk {job['idx']} spec={job['spec']!r} case={ctx._case!r}: "
            + traceback.format_exc()[-1800:])
    tmp = Path(outf).with_suffix(".tmp")
    tmp.write_bytes(pickle.dumps(ctx.result()))
    os.replace(tmp, outf)


if __name__ == "__main__":
    main()
