"""
vmon.contracts -- runtime contracts on real molli functions + the rebinding utility.

* install_everywhere(original, wrapped): molli binds functions by name at import time
  (`from ..math import rotation_matrix_from_vectors` in molli.chem.structure), so replacing the
  attribute of the defining module is not enough.  Every module-level and class-level reference in
  the already imported `molli.*` modules that *is* the original is replaced.
* contracts for `rotation_matrix_from_vectors` and `rotation_matrix_from_axis` (property C11), written
  with icontract: named condition functions, explicit `error=` classes, every evaluation counted.
* BranchReach: sys.monitoring LINE counters for the two arms of an `if` inside a function (anchor reach).

Top level: stdlib only.  numpy / icontract / molli are imported inside functions.
"""
from __future__ import annotations

import sys
import types

COUNTS: dict[str, int] = {}      # condition name -> number of (non-vacuous) evaluations
VACUOUS: dict[str, int] = {}     # condition name -> evaluations skipped because the contract does not speak
WORST: dict[str, float] = {}     # condition name -> largest error measured
INSTALLED: dict[int, tuple] = {}  # id(original) -> (original, wrapped, sites)
RAISED: list = []                # (key, message) of every contract error constructed (also if a caller swallows it)

RMFV_TOL = 1e-6   # DESIGN C11: orthogonality, determinant and image of rotation_matrix_from_vectors
RMFA_TOL = 1e-9   # rotation_matrix_from_axis is a closed formula of sin/cos: errors are ~1e-15


def _count(name, err=None):
    COUNTS[name] = COUNTS.get(name, 0) + 1
    if err is not None and err == err and err > WORST.get(name, 0.0):
        WORST[name] = float(err)


def _vacuous(name):
    VACUOUS[name] = VACUOUS.get(name, 0) + 1
    return True


# ------------------------------------------------------------------------------------------------
# rebinding

def _molli_modules():
    for name, mod in list(sys.modules.items()):
        if mod is None or not isinstance(mod, types.ModuleType):
            continue
        if name == "molli" or name.startswith("molli.") or name == "molli_xt" or name.startswith("molli_xt."):
            yield name, mod


def _unwrap_descriptor(v):
    if isinstance(v, (staticmethod, classmethod)):
        return v.__func__, type(v)
    return v, None


def install_everywhere(original, wrapped):
    """Replace every reference that `is` `original` in imported molli modules by `wrapped`.

    Looks at module globals and at the `__dict__` of every class found in module globals (one level of
    nested classes too).  staticmethod/classmethod wrappers around the original are rebuilt around the
    replacement.  A bound/unbound method object is reduced to its function first.
    Returns the list of sites `(owner, attribute_name, old_value)` that were rebound (see `uninstall`).
    """
    original = getattr(original, "__func__", original)
    sites = []
    seen_classes = set()

    def visit_class(cls, depth=0):
        if id(cls) in seen_classes:
            return
        seen_classes.add(id(cls))
        if not str(getattr(cls, "__module__", "")).startswith("molli"):
            return
        for k, v in list(vars(cls).items()):
            f, kind = _unwrap_descriptor(v)
            if f is original:
                new = kind(wrapped) if kind is not None else wrapped
                try:
                    setattr(cls, k, new)
                except (AttributeError, TypeError):
                    continue
                sites.append((cls, k, v))
            elif isinstance(v, type) and depth < 2:
                visit_class(v, depth + 1)

    for _name, mod in _molli_modules():
        for k, v in list(vars(mod).items()):
            if v is original:
                setattr(mod, k, wrapped)
                sites.append((mod, k, v))
            elif isinstance(v, type):
                visit_class(v)
    INSTALLED[id(original)] = (original, wrapped, sites)
    return sites


def uninstall(sites):
    for owner, k, old in reversed(sites):
        setattr(owner, k, old)


def site_names(sites):
    return sorted(f"{getattr(o, '__name__', o)}.{k}" for o, k, _ in sites)


# ------------------------------------------------------------------------------------------------
# errors (one class per clause so that a violation names the clause that failed)

class ContractViolation(Exception):
    """a runtime contract on a molli function does not hold; `key` names function and clause"""
    key = "contract"

    def __init__(self, *args):
        super().__init__(*args)
        if len(RAISED) < 1000:
            RAISED.append((self.key, str(args[0])[-400:] if args else ""))


class RmfvNotOrthogonal(ContractViolation):
    key = "rotation_matrix_from_vectors:not-orthogonal"


class RmfvNotProper(ContractViolation):
    key = "rotation_matrix_from_vectors:determinant-not-plus-one"


class RmfvWrongImage(ContractViolation):
    key = "rotation_matrix_from_vectors:v1-not-taken-to-v2"


class RmfvBadShape(ContractViolation):
    key = "rotation_matrix_from_vectors:result-not-finite-3x3"


class RmfaBadShape(ContractViolation):
    key = "rotation_matrix_from_axis:result-not-finite-3x3"


class RmfaNotOrthogonal(ContractViolation):
    key = "rotation_matrix_from_axis:not-orthogonal"


class RmfaNotProper(ContractViolation):
    key = "rotation_matrix_from_axis:determinant-not-plus-one"


class RmfaAxisMoved(ContractViolation):
    key = "rotation_matrix_from_axis:axis-not-fixed"


class RmfaWrongAngle(ContractViolation):
    key = "rotation_matrix_from_axis:angle-wrong"


class RmfaSenseMixed(ContractViolation):
    key = "rotation_matrix_from_axis:sense-not-consistent"


# ------------------------------------------------------------------------------------------------
# condition functions.  A clause is vacuous (returns True, counted separately) when the documented
# behaviour is not defined for the arguments: non-finite or zero-length vectors, non-finite angle.

def _unit(v):
    """unit vector of a usable 3-vector, else None"""
    import numpy as np

    try:
        a = np.asarray(v, dtype=float)
    except (TypeError, ValueError):
        return None
    if a.shape != (3,) or not np.all(np.isfinite(a)):
        return None
    m = float(np.max(np.abs(a)))
    if not (1e-100 < m < 1e100):
        return None
    a = a / m
    return a / np.sqrt(float(a @ a))


def _mat(result):
    import numpy as np

    try:
        r = np.asarray(result, dtype=float)
    except (TypeError, ValueError):
        return None
    if r.shape != (3, 3) or not np.all(np.isfinite(r)):
        return None
    return r


def orthogonality_error(r):
    import numpy as np

    return float(np.max(np.abs(r @ r.T - np.eye(3))))


def rmfv_result_is_finite_3x3(_v1, _v2, result):
    if _unit(_v1) is None or _unit(_v2) is None:
        return _vacuous("rmfv.shape")
    _count("rmfv.shape")
    return _mat(result) is not None


def rmfv_result_is_orthogonal(_v1, _v2, result):
    r = _mat(result)
    if _unit(_v1) is None or _unit(_v2) is None or r is None:
        return _vacuous("rmfv.orthogonal")
    e = orthogonality_error(r)
    _count("rmfv.orthogonal", e)
    return e <= RMFV_TOL


def rmfv_result_is_proper(_v1, _v2, result):
    import numpy as np

    r = _mat(result)
    if _unit(_v1) is None or _unit(_v2) is None or r is None:
        return _vacuous("rmfv.proper")
    e = abs(float(np.linalg.det(r)) - 1.0)
    _count("rmfv.proper", e)
    return e <= RMFV_TOL


def rmfv_takes_v1_to_v2(_v1, _v2, result):
    """documented equation (row vectors): v1 @ R / |v1| == v2 / |v2|"""
    import numpy as np

    r = _mat(result)
    u1, u2 = _unit(_v1), _unit(_v2)
    if u1 is None or u2 is None or r is None:
        return _vacuous("rmfv.image")
    e = float(np.max(np.abs(u1 @ r - u2)))
    _count("rmfv.image", e)
    return e <= RMFV_TOL


def _angle_ok(angle):
    import math

    try:
        a = float(angle)
    except (TypeError, ValueError):
        return None
    if not math.isfinite(a) or abs(a) > 1e6:
        return None
    return a


def _perp(u):
    """a deterministic unit vector perpendicular to the unit vector u"""
    import numpy as np

    e = np.zeros(3)
    e[int(np.argmin(np.abs(u)))] = 1.0
    p = np.cross(u, e)
    return p / np.sqrt(float(p @ p))


def rmfa_result_is_finite_3x3(_axis, angle, result):
    if _unit(_axis) is None or _angle_ok(angle) is None:
        return _vacuous("rmfa.shape")
    _count("rmfa.shape")
    return _mat(result) is not None


def rmfa_result_is_orthogonal(_axis, angle, result):
    r = _mat(result)
    if _unit(_axis) is None or _angle_ok(angle) is None or r is None:
        return _vacuous("rmfa.orthogonal")
    e = orthogonality_error(r)
    _count("rmfa.orthogonal", e)
    return e <= RMFA_TOL


def rmfa_result_is_proper(_axis, angle, result):
    import numpy as np

    r = _mat(result)
    if _unit(_axis) is None or _angle_ok(angle) is None or r is None:
        return _vacuous("rmfa.proper")
    e = abs(float(np.linalg.det(r)) - 1.0)
    _count("rmfa.proper", e)
    return e <= RMFA_TOL


def rmfa_fixes_axis(_axis, angle, result):
    import numpy as np

    r = _mat(result)
    u = _unit(_axis)
    if u is None or _angle_ok(angle) is None or r is None:
        return _vacuous("rmfa.axis")
    e = max(float(np.max(np.abs(r @ u - u))), float(np.max(np.abs(u @ r - u))))
    _count("rmfa.axis", e)
    return e <= RMFA_TOL


def rotation_angle_and_sense(r, u, v):
    """(cos, signed sin) of the rotation that the matrix r (acting on columns) applies to v about u"""
    import numpy as np

    w = r @ v
    return float(v @ w), float(u @ np.cross(v, w))


def rmfa_turns_by_angle(_axis, angle, result):
    """for v perpendicular to the axis: v.Rv = cos(angle) and |axis.(v x Rv)| = |sin(angle)|"""
    import math

    r = _mat(result)
    u = _unit(_axis)
    a = _angle_ok(angle)
    if u is None or a is None or r is None:
        return _vacuous("rmfa.angle")
    c, s = rotation_angle_and_sense(r, u, _perp(u))
    e = max(abs(c - math.cos(a)), abs(abs(s) - abs(math.sin(a))))
    _count("rmfa.angle", e)
    return e <= RMFA_TOL


_SENSE = {"hand": 0}


def rmfa_sense_is_consistent(_axis, angle, result):
    """either hand is accepted for the sense of rotation, but the same one in every evaluation of the run"""
    import math

    r = _mat(result)
    u = _unit(_axis)
    a = _angle_ok(angle)
    if u is None or a is None or r is None or abs(math.sin(a)) < 1e-6:
        return _vacuous("rmfa.sense")
    _c, s = rotation_angle_and_sense(r, u, _perp(u))
    if abs(s) < 1e-7:
        return _vacuous("rmfa.sense")  # the angle clause speaks about this case
    hand = 1 if (s > 0) == (math.sin(a) > 0) else -1
    _count("rmfa.sense")
    if _SENSE["hand"] == 0:
        _SENSE["hand"] = hand
    return _SENSE["hand"] == hand


# ------------------------------------------------------------------------------------------------

def with_postconditions(func, clauses):
    """icontract.ensure for each (condition, description, error class), outermost first"""
    import icontract

    wrapped = func
    for cond, desc, err in reversed(clauses):
        wrapped = icontract.ensure(cond, desc, error=err)(wrapped)
    return wrapped


RMFV_CLAUSES = [
    (rmfv_result_is_finite_3x3, "result is a finite 3x3 matrix", RmfvBadShape),
    (rmfv_result_is_orthogonal, "max|R R^T - I| <= 1e-6", RmfvNotOrthogonal),
    (rmfv_result_is_proper, "|det R - 1| <= 1e-6", RmfvNotProper),
    (rmfv_takes_v1_to_v2, "max|v1/|v1| @ R - v2/|v2|| <= 1e-6", RmfvWrongImage),
]
RMFA_CLAUSES = [
    (rmfa_result_is_finite_3x3, "result is a finite 3x3 matrix", RmfaBadShape),
    (rmfa_result_is_orthogonal, "max|R R^T - I| <= 1e-9", RmfaNotOrthogonal),
    (rmfa_result_is_proper, "|det R - 1| <= 1e-9", RmfaNotProper),
    (rmfa_fixes_axis, "R axis = axis = axis R", RmfaAxisMoved),
    (rmfa_turns_by_angle, "a vector perpendicular to the axis is turned by the angle", RmfaWrongAngle),
    (rmfa_sense_is_consistent, "the sense of rotation is the same in every evaluation", RmfaSenseMixed),
]


def install_rotation_contracts():
    """Attach the C11 contracts to the two rotation constructors wherever molli refers to them.
    Idempotent.  Returns {"rmfv": (original, wrapped, sites), "rmfa": (...)}."""
    import molli  # noqa: F401  (all modules that bind the names must be imported first)
    import molli.math.rotation as rot

    out = {}
    for short, name, clauses in (("rmfv", "rotation_matrix_from_vectors", RMFV_CLAUSES),
                                 ("rmfa", "rotation_matrix_from_axis", RMFA_CLAUSES)):
        current = getattr(rot, name)
        original = getattr(current, "__vmon_original__", None)
        if original is not None:
            out[short] = INSTALLED[id(original)]
            continue
        wrapped = with_postconditions(current, clauses)
        wrapped.__vmon_original__ = current
        install_everywhere(current, wrapped)
        out[short] = INSTALLED[id(current)]
    return out


# ------------------------------------------------------------------------------------------------
# anchor reach: how often each arm of an `if` inside a function ran

class BranchReach:
    """Counts executions of the first line of both arms of the first `if` statement of `func` whose test
    mentions the name `mention` (found through the AST of the source, not through line numbers written
    here).  `counts` is {"if": n, "else": n}; `ok` is False when the statement could not be located."""

    TOOL = 4  # a free sys.monitoring tool id (0 debugger, 1 coverage, 2 profiler, 5 optimizer)

    def __init__(self, func, mention):
        import ast
        import inspect
        import textwrap

        self.counts = {"if": 0, "else": 0}
        self.ok = False
        self.code = func.__code__
        try:
            src = textwrap.dedent(inspect.getsource(func))
            tree = ast.parse(src)
        except (OSError, SyntaxError, TypeError):
            return
        target = None
        for node in ast.walk(tree):
            if isinstance(node, ast.If) and node.orelse and any(
                    isinstance(n, ast.Name) and n.id == mention for n in ast.walk(node.test)):
                target = node
                break
        if target is None:
            return
        off = self.code.co_firstlineno - 1
        self.lines = {target.body[0].lineno + off: "if", target.orelse[0].lineno + off: "else"}
        self.ok = True

    def start(self):
        if not self.ok:
            return self
        mon = sys.monitoring
        try:
            mon.use_tool_id(self.TOOL, "vmon-reach")
        except ValueError:
            pass
        mon.register_callback(self.TOOL, mon.events.LINE, self._line)
        mon.set_local_events(self.TOOL, self.code, mon.events.LINE)
        return self

    def _line(self, code, line):
        if code is self.code:
            arm = self.lines.get(line)
            if arm is not None:
                self.counts[arm] += 1
            return None
        return sys.monitoring.DISABLE

    def stop(self):
        if not self.ok:
            return
        mon = sys.monitoring
        mon.set_local_events(self.TOOL, self.code, 0)
        mon.register_callback(self.TOOL, mon.events.LINE, None)
        try:
            mon.free_tool_id(self.TOOL)
        except ValueError:
            pass
