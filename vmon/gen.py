"""
vmon.gen -- seeded generators of molli objects (built through the public API only).
"""
from __future__ import annotations

import math
import random

import numpy as np

import molli as ml
from molli.chem import (Atom, AtomGeom, AtomStereo, AtomType, Bond, BondStereo, BondType,
                        ConformerEnsemble, Element, Molecule, Structure)

ELEMENTS = list(Element)
ATYPES = list(AtomType)
ASTEREO = list(AtomStereo)
AGEOM = list(AtomGeom)
BTYPES = list(BondType)
BSTEREO = [BondStereo.Unknown, BondStereo.NotStereogenic, BondStereo.E, BondStereo.Z,
           BondStereo.Axial_R, BondStereo.Axial_S]

LABELS = [None, "", "C1", "x", "H12", "αβ", "a-b", "N_3", "Q" * 9, "lbl"]
LABELS_WS = LABELS + ["two words", " lead", "tab\there"]
SPECIAL_FLOATS = [0.0, -0.0, 1.0, -1.5, 1e-30, -1e30, 1e30, 3.4e38, 123456.789, 1e-7]


def leaf(rng: random.Random):
    k = rng.randrange(9)
    if k == 0:
        return None
    if k == 1:
        return rng.random() < 0.5
    if k == 2:
        return rng.randrange(-10**6, 10**6)
    if k == 3:
        return rng.choice([0.5, -2.25, 1024.0, 1.0e10, 0.0, 3.0])  # exactly representable in float32
    if k == 4:
        return rng.choice(["", "s", "text with spaces", "ünï", "x" * 40])
    if k == 5:
        return rng.choice([b"", b"\x00\xff", b"bytes"])
    if k == 6:
        return rng.uniform(-100, 100)
    if k == 7:
        return 2 ** rng.randrange(31, 60)
    return rng.choice(["a", 1, None])


def attrib(rng: random.Random, depth=2, p_empty=0.5):
    """nested msgpack-able attribute dictionary"""
    if rng.random() < p_empty:
        return {}
    d = {}
    for _ in range(rng.randrange(1, 4)):
        key = rng.choice(["k", "key2", "coords", "__tag", "n", "nested", "é"]) + rng.choice(["", "1", "_x"])
        if rng.random() < 0.12:
            key = rng.choice([0, 1, 7, -3, 2 ** 40])       # integer keys are msgpack-able too
        r = rng.random()
        if depth > 0 and r < 0.2:
            d[key] = attrib(rng, depth - 1, p_empty=0.1)
        elif depth > 0 and r < 0.4:
            d[key] = [leaf(rng) for _ in range(rng.randrange(0, 4))]
        elif r < 0.5:
            d[key] = np.array([rng.uniform(-5, 5) for _ in range(rng.randrange(0, 5))], dtype=rng.choice(["f4", "f8"]))
        elif r < 0.55:
            d[key] = np.arange(rng.randrange(0, 6), dtype=rng.choice(["i4", "i8"])).reshape(-1)
        else:
            d[key] = leaf(rng)
    return d


def coords(rng: random.Random, n, special=0.15, scale=5.0):
    c = np.array([[rng.gauss(0, scale) for _ in range(3)] for _ in range(n)], dtype=float).reshape(n, 3)
    if n and rng.random() < special:
        for _ in range(rng.randrange(1, 4)):
            c[rng.randrange(n), rng.randrange(3)] = rng.choice(SPECIAL_FLOATS + [float("nan"), float("inf"), float("-inf")])
    return c


def atom(rng: random.Random, rich=True, labels=LABELS, elements=None):
    el = rng.choice(elements or ELEMENTS)
    if not rich:
        return Atom(el, label=rng.choice(labels))
    return Atom(
        el,
        isotope=rng.choice([None, None, 1, 2, 13, 238]),
        label=rng.choice(labels),
        atype=rng.choice(ATYPES),
        stereo=rng.choice(ASTEREO),
        geom=rng.choice(AGEOM),
        formal_charge=rng.choice([0, 0, 1, -1, 2, -3, 3]),
        formal_spin=rng.choice([0, 0, 1, 2]),
        attrib=attrib(rng),
    )


def molecule(rng: random.Random, n_atoms=None, max_atoms=40, rich=True, labels=LABELS, special=0.15,
             name=None, cls=Molecule, elements=None, bond_attrib=True, p_dense=0.1, charges=True):
    """a Molecule built through the public constructors and edit methods"""
    n = rng.choice([0, 1, 2, 3, 5, 8, 13, 21, max_atoms]) if n_atoms is None else n_atoms
    n = min(n, max_atoms)
    atoms = [atom(rng, rich, labels, elements) for _ in range(n)]
    kw = {}
    if name is None:
        name = rng.choice(["m", "mol_1", "name-with-dash", "Z" * 30, "ünicode", "n.1", None])
    q = rng.choice([0, 0, 1, -1, -2, 3])
    mult = rng.choice([1, 1, 2, 3])
    m = cls(atoms, name=name, charge=q, mult=mult, coords=coords(rng, n, special) if n else None)
    if rich:
        m.attrib = attrib(rng)
    # bonds
    if n >= 2:
        mode = rng.random()
        if mode < 0.15:
            nb = 0
        elif mode < 0.15 + p_dense:
            nb = n * (n - 1) // 2
        else:
            nb = rng.randrange(1, 2 * n)
        pairs = set()
        for _ in range(nb * 2):
            if len(pairs) >= nb:
                break
            i, j = rng.sample(range(n), 2)
            if (i, j) in pairs or (j, i) in pairs:
                continue
            pairs.add((i, j))
        for i, j in sorted(pairs, key=lambda p: rng.random()):
            kwb = {}
            if rich:
                kwb = dict(label=rng.choice([None, "", "b1", "bond label"]), btype=rng.choice(BTYPES),
                           stereo=rng.choice(BSTEREO), f_order=rng.choice([1.0, 1.5, 0.5, 2.0, 0.25]))
                if bond_attrib:
                    kwb["attrib"] = attrib(rng, depth=1)
            else:
                kwb = dict(btype=rng.choice([BondType.Single, BondType.Double, BondType.Aromatic, BondType.Triple]))
            m.connect(i, j, **kwb)
    if charges and cls is not Structure and hasattr(m, "atomic_charges") and n:
        m.atomic_charges = np.array([rng.choice([0.0, 0.125, -0.5, rng.uniform(-2, 2)]) for _ in range(n)])
    return m


def ensemble(rng: random.Random, n_conformers=None, max_atoms=20, rich=True, route=None, labels=LABELS,
             special=0.1, elements=None):
    """a ConformerEnsemble built through one of its constructor routes"""
    nc = rng.choice([0, 1, 2, 3, 6]) if n_conformers is None else n_conformers
    base = molecule(rng, max_atoms=max_atoms, rich=rich, labels=labels, special=special, elements=elements)
    n = base.n_atoms
    route = route or rng.choice(["mol", "list", "kw", "ens"])
    cs = np.array([coords(rng, n, special) for _ in range(nc)]).reshape(nc, n, 3)
    qs = np.array([[rng.uniform(-1, 1) for _ in range(n)] for _ in range(nc)]).reshape(nc, n)
    ws = np.array([rng.choice([1.0, 0.5, 0.25, rng.random()]) for _ in range(nc)]).reshape(nc)
    if route == "list" and nc >= 1:
        mols = []
        for i in range(nc):
            mi = Molecule(base)
            mi.coords = cs[i]
            mi.atomic_charges = qs[i]
            mols.append(mi)
        e = ConformerEnsemble(mols)
        e.attrib = dict(base.attrib)
        e.weights = ws
    elif route == "mol" and nc >= 1:
        e = ConformerEnsemble(base, n_conformers=nc)
        e.coords = cs
        e.atomic_charges = qs
        e.weights = ws
    elif route == "ens":
        e0 = ConformerEnsemble(base, n_conformers=nc, coords=cs, atomic_charges=qs, weights=ws) if nc >= 1 else \
            ConformerEnsemble(base.atoms, n_conformers=0, name=base.name, charge=base.charge, mult=base.mult,
                              copy_atoms=True)
        if nc == 0:
            for b in base.bonds:
                e0.connect(base.atoms.index(b.a1), base.atoms.index(b.a2), label=b.label, btype=b.btype,
                           stereo=b.stereo, f_order=b.f_order, attrib=dict(b.attrib))
        e = ConformerEnsemble(e0)
    else:
        # atoms + n_conformers keyword route (atoms are copied so `base` stays intact)
        e = ConformerEnsemble(base.atoms, n_conformers=nc, name=base.name, charge=base.charge, mult=base.mult,
                              copy_atoms=True, coords=cs if nc else None, weights=ws if nc else None,
                              atomic_charges=qs if nc else None)
        for b in base.bonds:
            e.connect(base.atoms.index(b.a1), base.atoms.index(b.a2), label=b.label, btype=b.btype,
                      stereo=b.stereo, f_order=b.f_order, attrib=dict(b.attrib))
        e.attrib = dict(base.attrib)
    return e


# ----------------------------------------------------------------------------------------------
# chemically plausible 3-D fragments (used by geometry / join / hydrogens properties)

def random_rotation(rng: random.Random):
    """uniform random proper rotation matrix (QR of a gaussian matrix)"""
    a = np.array([[rng.gauss(0, 1) for _ in range(3)] for _ in range(3)])
    q, r = np.linalg.qr(a)
    q = q @ np.diag(np.sign(np.diag(r)))
    if np.linalg.det(q) < 0:
        q[:, 0] = -q[:, 0]
    return q


def tree3d(rng: random.Random, n, elements=("C", "N", "O", "S", "P", "Si", "B", "F", "Cl"), ring=False,
           min_sep=0.9, bond_len=(1.1, 1.7), cls=Molecule, name="frag"):
    """random 3-D tree (optionally with one ring closure) in general position, atoms well separated"""
    pts = [np.zeros(3)]
    parents = [-1]
    deg = [0]
    tries = 0
    while len(pts) < n and tries < 5000:
        tries += 1
        p = rng.randrange(len(pts))
        if deg[p] >= 4:
            continue
        v = np.array([rng.gauss(0, 1) for _ in range(3)])
        v /= np.linalg.norm(v)
        q = pts[p] + v * rng.uniform(*bond_len)
        if min(np.linalg.norm(q - x) for x in pts) < min_sep:
            continue
        pts.append(q)
        parents.append(p)
        deg[p] += 1
        deg.append(1)
    n = len(pts)
    m = cls([Atom(rng.choice(elements), label=f"A{i}") for i in range(n)], name=name, coords=np.array(pts))
    for i in range(1, n):
        m.connect(parents[i], i, btype=rng.choice([BondType.Single, BondType.Single, BondType.Double, BondType.Aromatic]))
    if ring and n >= 4:
        for _ in range(20):
            i, j = rng.sample(range(n), 2)
            if parents[i] != j and parents[j] != i and m.lookup_bond(i, j) is None:
                m.connect(i, j)
                break
    return m
