"""
C11 -- geometric operations are rigid motions with the documented effect.

Monitor shapes
* runtime contracts (icontract, vmon/contracts.py) on the real `rotation_matrix_from_vectors` and
  `rotation_matrix_from_axis`, rebound in every molli module that refers to them, active in every chunk; on top of
  them the conditioning-aware clauses of vmon/models/c11_tight.py (bound ~ eps * condition of the input);
* harness oracles around each top-level operation: pairwise distance matrices, signed volumes of the
  centres with >= 3 neighbours, documented effect (row-vector convention, displacement, centring),
  row-exactness of Substructure edits, dihedral after rotate_dihedral, achieved RMSD and pose independence
  of align_to_ref_coords with a Kabsch `func` that lives in the harness.

Added after the gap review (inputs in vmon/models/c11_workload.py, bounds in vmon/models/c11_tight.py):
* conditioning-aware bounds for both constructors and a densely sampled parallel neighbourhood / small-angle range;
* torsions down to 1e-6 rad from linear, judged with a tolerance ~ 1/(sin * sin);
* molecules with dummy atoms / attachment points and with spectator components in every molecular workload;
* Substructure edits through nested views and rotate_dihedral called on a Substructure (root rows judged; the unchanged
  library loses these edits: KNOWN_ON_UNCHANGED_TREE, tools/findings/C11-ext.json);
* long-lived views in every member order across deletions between / beyond their members;
* documented effect of the alignment (core centred, optimum over the given mappings, identical core on the reference)
  and of centroid().

Top level: stdlib only (numpy / molli are imported inside functions).
"""
from __future__ import annotations

import math

ID = "C11"
LEVEL = "exploration"
EXHAUSTIVE = False
CHUNK_TIMEOUT = 600
RULE = ("seeded random vectors/axes/angles incl. the degenerate neighbourhoods (v2 = -v1 + d*p for d in 1e-3..1e-12 "
        "on a grid and log-uniform, d = 0 exactly, the branch switch of both tolerances in use; v2 = v1 + d*p for d "
        "log-uniform in 1e-16..1e-2 and on a 15-point grid incl. 0; angle 0/pi/2pi and log-uniform 1e-16..1e-1 around 0 "
        "and +-pi, axis-aligned and rescaled vectors); every bundled .mol2 molecule <= 120 atoms plus generated 3-D trees, "
        "ring-closed trees and random graphs, every second one with 1-3 dummy atoms / attachment points as leaves, every "
        "third one with further components (a second small tree, isolated atoms); every acyclic bond with substituents on "
        "both ends in both directions (quick: a seeded sample of 8-12 directed bonds per molecule) x 8 target angles, called "
        "on the Molecule / Conformer and (1 in 6) on a Substructure holding all atoms in another order; molecules whose bond "
        "angle at one or both ends of the turned bond is within 1e-6..5e-2 rad of 180 degrees; Substructure edits through "
        "views one, two and three levels deep (unsorted, by position or by atom) judged in the root's rows; long-lived views "
        "(ascending, descending, random, both end members low / high in the parent) re-used after deletions before, between, "
        "beyond both ends of and after their members; random ensembles (1..8 conformers, incl. n_conformers == n_atoms == "
        "3) and pentane_confs; alignments incl. identical cores and cores with placeholder atoms. "
        "non-trivial = non-degenerate input and (>= 4 atoms moved | rotation angle not 0 | rmsd problem with >= 4 core "
        "atoms); distinct by operation + rounded inputs")
ASSUMPTIONS = [
    "rotation_matrix_from_vectors: orthogonality, determinant and image within min(1e-6, 64 * eps * (1 + 1/(1 + cos(v1, v2)))), "
    "eps = 2^-52: the documented (Rodrigues) form divides by 1 + cos, so its error is eps times that condition number "
    "(measured on the unchanged code: <= 7.2 * eps * (1 + 1/(1 + cos)) over 4e5 inputs; 1.4e-14 for perpendicular, 2.1e-14 for "
    "parallel vectors); the 1e-6 cap is what the form reaches right at its default branch switch (1 + cos = 1e-8) and is "
    "also the bound below the switch, where the documentation promises only an approximate answer. "
    "rotation_matrix_from_axis: all clauses within 256 * eps = 5.7e-14 (closed formula of sin / cos; measured <= 11 * eps). "
    "Vectors with 1e-6 <= |v| <= 1e6; the contracts are vacuous for zero / non-finite vectors. The shared 1e-6 / 1e-9 "
    "contracts of vmon/contracts.py stay installed underneath",
    "distances compared with max|dD| <= 1e-9 * max(1, largest |coordinate| before/after); handedness = sign of the "
    "signed volume of a centre and three of its neighbours, judged only where |volume| > 1e-6 * scale^3",
    "dihedral compared modulo 2*pi within max(1e-8, 64 * eps * scale / (s1 * s2)) (target) and max(1e-9, the same) (molli's "
    "dihedral() against the harness's projection formula), s1, s2 = sines of the two bond angles: the triple products behind "
    "the angle lose 1/(s1*s2) of their digits (measured on the unchanged code <= 1.2 * eps * scale / (s1*s2)); judged where "
    "min(s1, s2) >= 5e-7 and s1 * s2 >= 1e-8, i.e. down to 1e-6 rad from linear",
    "alignment: func is a rotation-only Kabsch written in the harness (proper rotations, rmsd computed from the rotated "
    "coordinates); RMSD compared within 1e-8 * scale, final poses within 1e-6 * scale when the best mapping is "
    "separated from the others by > 1e-3 and the Kabsch problem is non-degenerate. Documented effect (docstrings of "
    "ConformerEnsemble.align_to_ref_coords / optimal_rotation_to_ref_coords / center_at_core; Molecule.align_to_ref_coords "
    "has none and is held to the same): the core is centred, the lowest rmsd over the given mappings is picked, vec is added "
    "afterwards -- judged only where all mappings name one set of atoms (the centring is then the same whichever mapping "
    "is used for it): returned rmsd = min over the mappings of the full Kabsch rmsd, core centroid on vec, an identical "
    "core lands on the reference. centroid() = plain mean of the rows (placeholder atoms are atoms)",
    "a translate() argument that is not a 3-vector (one displacement per atom, shape (n_atoms, 3)) is outside the statement "
    "(the unchanged code refuses it); not part of the workload",
    "for exactly/nearly antiparallel vectors the implementation may draw from numpy's global generator; the harness seeds "
    "it per case (hidden state itself is judged under C12)",
]
TECHNIQUE = ("runtime monitoring: icontract postconditions on the real rotation constructors (rebound in every molli module; "
             "bounds follow the condition of the input) "
             "+ rigid-motion oracles (distance matrices, signed volumes, dihedral, achieved RMSD) around each operation")
LEVEL_TEXT = ("Held on the executions produced: every call of the two rotation constructors made in the run (harness calls and "
              "calls made by molli itself, e.g. CDXML parsing, joins, rotate_dihedral) is checked by contracts; every "
              "translate/transform/rotate/centre/rotate_dihedral/align call issued by the harness is bracketed by an "
              "independent rigid-motion oracle. Both arms of rotation_matrix_from_vectors must be reached. Not a proof.")
LEVEL_NOTE = ("Trusted: numpy linear algebra, the harness's Kabsch and dihedral formulas, icontract. The sense of "
              "rotation_matrix_from_axis is not prescribed (either hand, consistently).")


def REQUIRED(tier):
    k = 1 if tier == "quick" else 10
    req = {
        "reach.rmfv.antiparallel-branch": 5000, "reach.rmfv.rodrigues-branch": 20000,
        "contract.rmfv.image": 30000, "contract.rmfv.orthogonal": 30000, "contract.rmfv.proper": 30000,
        "contract.rmfa.angle": 10000, "contract.rmfa.axis": 10000, "contract.rmfa.orthogonal": 10000,
        "contract.rmfa.proper": 10000, "contract.rmfa.sense": 5000,
        "oracle.rmfv": 20000, "oracle.rmfa": 10000,
        "rmfv.regime.antiparallel-exact": 1000, "rmfv.regime.antiparallel-near": 5000,
        "rmfv.regime.branch-switch": 1000, "rmfv.regime.axis-aligned": 1000,
        "rmfa.angle-zero": 100, "rmfa.angle-pi": 400,
        "oracle.translate": 100, "oracle.transform": 200, "oracle.handedness": 20000,
        "oracle.substructure-rows": 400, "oracle.substructure-view": 400, "oracle.conformer-only": 500,
        "oracle.ens-translate-1d": 60, "oracle.ens-translate-2d": 60, "oracle.ens-rotate": 60,
        "oracle.ens-rotate-stack": 60, "oracle.center_at_atom": 60, "oracle.center_at_core": 60,
        "oracle.rotate_dihedral.target": 2000, "oracle.rotate_dihedral.rigid": 2000,
        "oracle.rotate_dihedral.fixed-bit-identical": 2000, "oracle.dihedral-formula": 2000,
        "oracle.align-mol.achieved": 100, "oracle.align-mol.pose": 100, "oracle.align-mol.final-pose": 50,
        "oracle.align-ens.achieved": 200, "oracle.align-ens.pose": 200, "oracle.align-ens.final-pose": 100,
        "kabsch.calls": 1000,
    }
    # added after the gap review (thresholds <= half of what seeds 0-2 reach)
    req.update({
        "contract.rmfv.image-tight": 30000, "contract.rmfv.orthogonal-tight": 30000, "contract.rmfv.proper-tight": 30000,
        "contract.rmfa.angle-tight": 10000, "contract.rmfa.axis-tight": 10000, "contract.rmfa.orthogonal-tight": 10000,
        "contract.rmfa.proper-tight": 10000,
        "oracle.rmfv.bound-below-1e-12": 5000, "rmfv.regime.parallel-near": 2000, "rmfa.angle-near-zero-or-pi": 1500,
        "geom.molecule-with-placeholders": 30, "oracle.centroid": 100, "oracle.centroid.with-placeholders": 30,
        "oracle.nested-substructure-view": 400, "oracle.nested-substructure-rows": 500,
        "oracle.rotate_dihedral.near-linear": 250, "oracle.dihedral-formula.near-linear": 250,
        "oracle.rotate_dihedral.placeholder-in-moved-part": 1000, "oracle.rotate_dihedral.with-spectators": 1000,
        "oracle.rotate_dihedral.via-substructure": 600,
        "oracle.align-mol.optimal": 50, "oracle.align-ens.optimal": 120, "oracle.align-mol.identical-core": 15,
        "oracle.align-ens.identical-core": 40, "oracle.align.placeholder-in-core": 60,
        "oracle.center_at_core.placeholder-in-core": 15,
        "oracle.stale-view": 300, "oracle.stale-view.unsorted": 200, "stale-view.del.between": 120,
        "stale-view.del.beyond-both-ends": 30, "stale-view.del.shifts-inner-members-only": 50,
    })
    req = {name: n * k for name, n in req.items()}
    req["oracle.rmfa.argument-unchanged"] = 3000 * k
    req["oracle.rmfv.argument-unchanged"] = 10000 * k
    req["realistic.cdxml-molecules"] = 50
    return req


TWO_PI = 2.0 * math.pi
DELTAS = [1e-3, 1e-4, 1e-5, 1e-6, 1e-7, 1e-8, 1e-9, 1e-10, 1e-11, 1e-12, 0.0]
PARALLEL_DELTAS = [1e-2, 1e-3, 1e-4, 1e-5, 3e-6, 1e-6, 3e-7, 1e-7, 1e-8, 1e-9, 1e-10, 1e-12, 1e-14, 1e-15, 0.0]


# =================================================================================================
# plan

def plan(tier, seed):
    q = tier == "quick"
    specs = []
    for i in range(16 if q else 64):
        specs.append({"kind": "rotvec", "chunk": i, "n": 2500 if q else 9000})
    for i in range(8 if q else 32):
        specs.append({"kind": "rotaxis", "chunk": i, "n": 2500 if q else 9000})
    for i in range(16 if q else 64):
        specs.append({"kind": "geom", "chunk": i, "n": 20 if q else 60})
    for i in range(16 if q else 64):
        specs.append({"kind": "ens", "chunk": i, "n": 90 if q else 270})
    # dihedrals: bundled molecules spread over chunks + generated molecules
    for i in range(4 if q else 8):
        specs.append({"kind": "dihedral", "chunk": i, "source": "bundled", "part": i, "of": 4 if q else 8,
                      "max_bonds": 12 if q else 10 ** 6})
    for i in range(16 if q else 96):
        specs.append({"kind": "dihedral", "chunk": 100 + i, "source": "generated", "n": 12 if q else 24,
                      "max_bonds": 8 if q else 10 ** 6})
    for i in range(16 if q else 64):
        specs.append({"kind": "align", "chunk": i, "n": 30 if q else 100})
    for i in range(8 if q else 32):
        specs.append({"kind": "staleview", "chunk": i, "n": 60 if q else 150})
    specs.append({"kind": "realistic", "chunk": 0})
    if not q:  # ~16 s of one core for ~240 contract evaluations: thorough only
        specs.append({"kind": "testsuite", "chunk": 0, "timeout": 900})
    # one chunk of every kind first (the samples shown in the evidence come from the first chunks)
    first, seen = [], set()
    for sp in specs:
        if sp["kind"] not in seen:
            seen.add(sp["kind"])
            first.append(sp)
    order = {"dihedral": 0, "align": 1, "ens": 2, "geom": 3, "rotvec": 4, "rotaxis": 5, "realistic": 6, "testsuite": -1, "staleview": 7}
    first.sort(key=lambda sp: order[sp["kind"]])
    return first + [sp for sp in specs if not any(sp is f for f in first)]


# =================================================================================================
# numeric helpers (numpy imported lazily)

def wrap(a):
    """angle folded into (-pi, pi]"""
    return math.remainder(a, TWO_PI)


def gvec(rng):
    import numpy as np
    return np.array([rng.gauss(0, 1) for _ in range(3)])


def unit(v):
    import numpy as np
    v = np.asarray(v, dtype=float)
    m = np.max(np.abs(v))
    v = v / m
    return v / math.sqrt(float(v @ v))


def perp(rng, u):
    """random unit vector perpendicular to the unit vector u"""
    while True:
        w = gvec(rng)
        p = w - u * float(w @ u)
        n = math.sqrt(float(p @ p))
        if n > 0.2:
            p = p / n
            p = p - u * float(p @ u)
            return p / math.sqrt(float(p @ p))


def random_rotation(rng):
    import numpy as np
    a = np.array([[rng.gauss(0, 1) for _ in range(3)] for _ in range(3)])
    q, r = np.linalg.qr(a)
    q = q @ np.diag(np.sign(np.diag(r)))
    if np.linalg.det(q) < 0:
        q[:, 0] = -q[:, 0]
    return q


def dmat(x):
    import numpy as np
    d = x[:, None, :] - x[None, :, :]
    return np.sqrt(np.einsum("ijk,ijk->ij", d, d))


def scale_of(*arrays):
    import numpy as np
    s = 1.0
    for a in arrays:
        a = np.asarray(a, dtype=float)
        if a.size:
            s = max(s, float(np.max(np.abs(a))))
    return s


def centre_quads(mol):
    """(centre, n1, n2, n3) index quadruples for every centre with >= 3 neighbours (all triples of the first 4)"""
    import itertools
    idx = {id(a): i for i, a in enumerate(mol.atoms)}
    nbrs = [[] for _ in range(mol.n_atoms)]
    for b in mol.bonds:
        i, j = idx[id(b.a1)], idx[id(b.a2)]
        if i != j:
            nbrs[i].append(j)
            nbrs[j].append(i)
    quads = []
    for c, nb in enumerate(nbrs):
        nb = sorted(set(nb))[:4]
        if len(nb) >= 3:
            for t in itertools.combinations(nb, 3):
                quads.append((c,) + t)
    return quads, nbrs


def volumes(x, quads):
    import numpy as np
    if not quads:
        return np.zeros(0)
    q = np.asarray(quads)
    c = x[q[:, 0]]
    m = np.stack([x[q[:, 1]] - c, x[q[:, 2]] - c, x[q[:, 3]] - c], axis=1)
    return np.linalg.det(m)


def torsion(x, i, j, k, l):
    """IUPAC torsion angle from coordinates -- the harness's own formula (normalised bond frame)"""
    import numpy as np
    b0 = x[i] - x[j]
    b1 = x[k] - x[j]
    b2 = x[l] - x[k]
    b1 = b1 / math.sqrt(float(b1 @ b1))
    v = b0 - float(b0 @ b1) * b1
    w = b2 - float(b2 @ b1) * b1
    return math.atan2(float(np.cross(b1, v) @ w), float(v @ w))


def sin_angle(x, i, j, k):
    import numpy as np
    a, b = x[i] - x[j], x[k] - x[j]
    na, nb = math.sqrt(float(a @ a)), math.sqrt(float(b @ b))
    if na == 0 or nb == 0:
        return 0.0
    c = np.cross(a, b)
    return math.sqrt(float(c @ c)) / (na * nb)


def kabsch_rotation(a, b):
    """proper rotation R minimising |a @ R - b| (row vectors, no centring) and the rmsd it achieves"""
    import numpy as np
    h = a.T @ b
    u, s, vt = np.linalg.svd(h)
    d = 1.0 if np.linalg.det(u @ vt) > 0 else -1.0
    r = u @ np.diag([1.0, 1.0, d]) @ vt
    diff = a @ r - b
    rmsd = math.sqrt(float(np.sum(diff * diff)) / max(1, len(a)))
    return r, rmsd, s, d


def rmsd_of(a, b):
    import numpy as np
    diff = a - b
    return math.sqrt(float(np.sum(diff * diff)) / max(1, len(a)))


def jl(a, nd=None):
    """small JSON-able rendering of an array"""
    import numpy as np
    a = np.asarray(a)
    if a.size > 48:
        return {"shape": list(a.shape), "head": a.ravel()[:12].tolist()}
    return a.tolist()


# =================================================================================================
# common oracle pieces

class Oracle:
    def __init__(self, ctx):
        self.ctx = ctx

    def rigid(self, opkey, case, x0, x1, rows=None, what="distances", **detail):
        """pairwise distances among `rows` unchanged"""
        import numpy as np
        if rows is not None:
            a, b = x0[rows], x1[rows]
        else:
            a, b = x0, x1
        if len(a) < 2:
            return True
        sc = scale_of(a, b)
        d0, d1 = dmat(a), dmat(b)
        err = float(np.max(np.abs(d0 - d1)))
        if not (err <= 1e-9 * sc):
            i, j = np.unravel_index(int(np.nanargmax(np.abs(d0 - d1))), d0.shape) if np.isfinite(err) else (0, 0)
            self.ctx.violation(f"{opkey}:{what}-changed", case=case, max_abs_change=err, scale=sc,
                               pair=[int(i), int(j)], before=float(d0[i, j]), after=float(d1[i, j]), **detail)
            return False
        return True

    def handed(self, opkey, case, x0, x1, quads, **detail):
        """signed volumes keep their sign (proper motion)"""
        import numpy as np
        if not quads:
            return True
        v0, v1 = volumes(x0, quads), volumes(x1, quads)
        sc = scale_of(x0 - x0.mean(axis=0)) if len(x0) else 1.0
        sig = np.abs(v0) > 1e-6 * sc ** 3
        self.ctx.count("oracle.handedness", int(np.sum(sig)))
        bad = sig & (np.sign(v0) != np.sign(v1))
        if np.any(bad):
            k = int(np.argmax(bad))
            self.ctx.violation(f"{opkey}:handedness-flipped", case=case, centre=list(map(int, quads[k])),
                               volume_before=float(v0[k]), volume_after=float(v1[k]),
                               n_flipped=int(np.sum(bad)), n_judged=int(np.sum(sig)), **detail)
            return False
        return True

    def effect(self, opkey, case, expected, observed, what="effect", tol=1e-9, **detail):
        import numpy as np
        sc = scale_of(expected, observed)
        if expected.shape != observed.shape:
            self.ctx.violation(f"{opkey}:{what}-shape", case=case, expected=list(expected.shape),
                               observed=list(observed.shape), **detail)
            return False
        if expected.size == 0:
            return True
        err = float(np.max(np.abs(expected - observed)))
        if not (err <= tol * sc):
            k = int(np.nanargmax(np.abs(expected - observed).reshape(len(expected), -1).max(axis=1))) \
                if np.isfinite(err) else 0
            self.ctx.violation(f"{opkey}:{what}-wrong", case=case, max_abs_error=err, scale=sc, row=k,
                               expected_row=jl(expected[k]), observed_row=jl(observed[k]), **detail)
            return False
        return True

    def rows_untouched(self, opkey, case, x0, x1, rows, **detail):
        """the given rows are bit-identical"""
        import numpy as np
        a, b = x0[rows], x1[rows]
        if not np.array_equal(a, b):
            ch = [int(rows[i]) for i in np.nonzero(np.any(a != b, axis=-1).reshape(len(rows), -1).any(axis=1))[0][:8]]
            self.ctx.violation(f"{opkey}:unselected-rows-changed", case=case, changed_rows=ch,
                               n_unselected=len(rows), **detail)
            return False
        return True


_SAMPLES = {"n": 0}
SAMPLE_LIMIT = {"dihedral": 1, "align": 2, "ens": 1, "geom": 1, "rotvec": 1, "rotaxis": 1, "realistic": 1, "testsuite": 0}


def smp(ctx, obj):
    """hand a sample description to ctx.case for the first few cases of a chunk only (the runner shows five per run)"""
    if _SAMPLES["n"] >= SAMPLE_LIMIT.get(ctx.spec.get("kind"), 1):
        return None
    _SAMPLES["n"] += 1
    return obj


def run_op(ctx, op, case, fn):
    """run one molli operation; a contract firing or an exception is reported under a mechanism key"""
    from vmon import contracts
    try:
        return True, fn()
    except contracts.ContractViolation as e:
        ctx.violation(f"{e.key}:during:{op}", case=case, by="contract", message=str(e)[-400:])
    except Exception as e:  # noqa: BLE001
        ctx.violation(f"{op}:raises:{type(e).__name__}", case=case, err=repr(e)[:300])
    return False, None


# Violation keys that the UNCHANGED library produces; written up with a tested fix in /verif/tools/findings/C11-ext.json.
# They are counted ("known.<key>") instead of reported.  REMOVE AFTER THE REPAIR (set VERIF_C11_REPORT_KNOWN=1 to have
# them reported, e.g. against a repaired worktree).  One mechanism: the coords setter of a Substructure whose parent is a
# Substructure writes into a temporary copy, so an edit through a nested view (and Substructure.rotate_dihedral, which
# builds one) is lost.
KNOWN_ON_UNCHANGED_TREE = set()      # (its six entries, edits through nested views, were repaired in the library)


class Known:
    """ctx proxy: violations whose key is in KNOWN_ON_UNCHANGED_TREE are counted, not reported"""

    def __init__(self, ctx):
        self.__dict__["_ctx"] = ctx

    def __getattr__(self, name):
        return getattr(self._ctx, name)

    def __setattr__(self, name, value):
        setattr(self._ctx, name, value)

    def violation(self, key, /, case=None, **detail):
        import os
        if key in KNOWN_ON_UNCHANGED_TREE and not os.environ.get("VERIF_C11_REPORT_KNOWN"):
            self._ctx.count("known." + key)
            return
        self._ctx.violation(key, case=case, **detail)


# =================================================================================================
# chunk dispatcher

def run_chunk(spec, ctx):
    import warnings

    import numpy as np  # noqa: F401
    import molli as ml  # noqa: F401
    import molli.math.rotation as rotmod
    from vmon import contracts

    from vmon.models import c11_tight

    warnings.simplefilter("ignore")
    ctx = Known(ctx)
    original_rmfv = rotmod.rotation_matrix_from_vectors
    inst = c11_tight.install()   # the shared contracts + the conditioning-aware clauses
    ctx.note("contract_sites", sorted(set(contracts.site_names(inst["rmfv"][2]) + contracts.site_names(inst["rmfa"][2])))
             if spec["kind"] == "realistic" else [])
    reach = contracts.BranchReach(getattr(original_rmfv, "__vmon_original__", original_rmfv), "tol").start()
    import time
    t0 = time.time()
    try:
        KINDS[spec["kind"]](spec, ctx)
    finally:
        ctx.note("chunk_seconds", [[spec["kind"], spec["chunk"], round(time.time() - t0, 1)]])  # information only
        reach.stop()
        if reach.ok:
            ctx.count("reach.rmfv.antiparallel-branch", reach.counts["if"])
            ctx.count("reach.rmfv.rodrigues-branch", reach.counts["else"])
        else:
            ctx.count("reach.rmfv.antiparallel-branch.anchor-not-found")
            ctx.count("reach.rmfv.rodrigues-branch.anchor-not-found")
        for k, v in contracts.COUNTS.items():
            ctx.count("contract." + k, v)
        for k, v in contracts.VACUOUS.items():
            ctx.count("contract-vacuous." + k, v)
        for k, v in c11_tight.COUNTS.items():
            ctx.count("contract." + k, v)
        for k, v in c11_tight.VACUOUS.items():
            ctx.count("contract-vacuous." + k, v)
        if contracts.WORST:
            ctx.note("contract_worst_error", [{k: float(f"{v:.3g}") for k, v in sorted(contracts.WORST.items())}])
        if c11_tight.WORST:
            ctx.note("tight_contract_worst_error_over_bound",
                     [{k: float(f"{v:.3g}") for k, v in sorted(c11_tight.WORST.items())}])
        hand = contracts._SENSE["hand"]
        if hand:
            ctx.count("rmfa.hand.right" if hand > 0 else "rmfa.hand.left")


# =================================================================================================
# rotation_matrix_from_vectors

def rotvec_case(rng, j):
    """(regime, v1, v2, tol, meta) -- the regime names the class of input, it is part of the violation key"""
    import numpy as np
    kind = j % 16
    s1 = 10.0 ** rng.uniform(-6, 6) if rng.random() < 0.3 else rng.choice([1.0, 1.0, 2.5, 0.1])
    s2 = 10.0 ** rng.uniform(-6, 6) if rng.random() < 0.3 else rng.choice([1.0, 1.0, 0.5, 7.0])
    tol = None
    meta = {}
    if kind in (0, 1):
        return "random", gvec(rng) * s1, gvec(rng) * s2, rng.choice([None, None, 1e-6]), meta
    if kind == 3:
        e = np.eye(3)
        v1 = e[rng.randrange(3)] * rng.choice([1, -1]) * rng.choice([1, 2, 5])
        v2 = e[rng.randrange(3)] * rng.choice([1, -1]) * rng.choice([1, 3])
        regime = "axis-aligned"
        if rng.random() < 0.5:
            v1, v2 = [int(t) for t in v1], [int(t) for t in v2]
        return regime, v1, v2, rng.choice([None, 1e-6]), meta
    # a base direction: random, axis-aligned or in a coordinate plane
    b = rng.random()
    if b < 0.6:
        u = unit(gvec(rng))
    elif b < 0.8:
        u = np.eye(3)[rng.randrange(3)] * rng.choice([1.0, -1.0])
    else:
        u = gvec(rng)
        u[rng.randrange(3)] = 0.0
        u = unit(u)
    p = perp(rng, u)
    if kind == 4:
        k = rng.choice([1.0, 2.0, 0.5, 4.0])
        v1 = u * s1
        return "antiparallel-exact", v1, -k * v1, rng.choice([None, None, 1e-6]), meta
    if kind in (5, 6, 7, 8):
        d = DELTAS[rng.randrange(len(DELTAS))]
        meta["delta"] = d
        if d == 0.0:
            v1 = u * s1
            return "antiparallel-exact", v1, -v1 * rng.choice([1.0, 2.0]), rng.choice([None, 1e-6]), meta
        return "antiparallel-near", u * s1, (-u + d * p) * s2, rng.choice([None, None, 1e-6]), meta
    if kind in (9, 10, 11):
        d = 10.0 ** rng.uniform(-12.3, -2.7)
        meta["delta"] = d
        return "antiparallel-near", u * s1, (-u + d * p) * s2, rng.choice([None, None, 1e-6]), meta
    if kind in (12, 13):
        tol = rng.choice([None, 1e-6])
        d0 = math.sqrt(2 * (1e-8 if tol is None else tol))
        d = d0 * (1 + rng.uniform(-0.02, 0.02)) if rng.random() < 0.7 else d0 * (1 + rng.uniform(-1e-6, 1e-6))
        meta["delta"] = d
        return "branch-switch", u * s1, (-u + d * p) * s2, tol, meta
    if kind in (2, 14):
        # the parallel neighbourhood as densely as the antiparallel one: log-uniform 1e-16 .. 1e-2 and a grid (0 = parallel)
        d = 10.0 ** rng.uniform(-16.0, -2.0) if kind == 2 or rng.random() < 0.5 else PARALLEL_DELTAS[rng.randrange(len(PARALLEL_DELTAS))]
        meta["delta"] = d
        return "parallel-near", u * s1, (u + d * p) * s2, rng.choice([None, None, 1e-6]), meta
    # vectors straddling the antiparallel direction with one zero component (sign patterns)
    lst = [rng.choice([1.0, -1.0]), rng.choice([0.0, 1.0]), 0.0]
    rng.shuffle(lst)
    v1 = np.array(lst)
    return "axis-aligned", v1, (-v1 if rng.random() < 0.5 else v1[::-1].copy()), None, meta


def rotvec_errors(v1, v2, r):
    import numpy as np
    r = np.asarray(r, dtype=float)
    if r.shape != (3, 3) or not np.all(np.isfinite(r)):
        return None
    u1, u2 = unit(v1), unit(v2)
    return {
        "not-orthogonal": float(np.max(np.abs(r @ r.T - np.eye(3)))),
        "determinant-not-plus-one": abs(float(np.linalg.det(r)) - 1.0),
        "v1-not-taken-to-v2": float(np.max(np.abs(u1 @ r - u2))),
    }


def chunk_rotvec(spec, ctx):
    import numpy as np
    import molli as ml
    from vmon import contracts

    from vmon.models import c11_tight

    f = ml.math.rotation_matrix_from_vectors
    raw = getattr(f, "__vmon_original__", f)
    worst, worst_q = {}, {}
    for j in range(spec["n"]):
        case = [spec["chunk"], j]
        if not ctx.want(case):
            continue
        rng = ctx.rng("rotvec", *case)
        regime, v1, v2, tol, meta = rotvec_case(rng, j)
        npseed = rng.randrange(2 ** 32)
        kw = {} if tol is None else {"tol": tol}
        c = float(unit(v1) @ unit(v2))
        ctx.case(case, dkey=("rotvec", regime, jl(np.round(unit(v1), 9)), jl(np.round(unit(v2), 12)), tol),
                 nontrivial=abs(c) < 1.0 - 1e-15 or regime == "antiparallel-exact",
                 sample=smp(ctx, {"op": "rotation_matrix_from_vectors", "regime": regime, "v1": jl(v1), "v2": jl(v2),
                         "tol": tol, **meta}) if j % 16 == 12 else None)
        ctx.count(f"rmfv.regime.{regime}")
        witness = {"v1": jl(v1), "v2": jl(v2), "tol": tol, "cos": c, "numpy_global_seed": npseed, **meta}
        reported = False
        np.random.seed(npseed)
        if j % 3 == 0 and isinstance(v1, np.ndarray) and isinstance(v2, np.ndarray):
            # vectors that are views of a live float64 table (rows of a coordinate array): must come back unchanged
            table = np.array([np.asarray(v1, dtype=np.float64), np.asarray(v2, dtype=np.float64)])
            v1, v2 = table[0], table[1]
        before = [np.array(v, copy=True) if isinstance(v, np.ndarray) else None for v in (v1, v2)]
        try:
            r = f(v1, v2, **kw)
            for nm, v, b in (("v1", v1, before[0]), ("v2", v2, before[1])):
                if b is not None:
                    ctx.count("oracle.rmfv.argument-unchanged")
                    if not np.array_equal(v, b):
                        ctx.violation(f"rotation_matrix_from_vectors:modifies-its-argument:{nm}", case=case, by="harness", **witness)
            v1 = before[0] if before[0] is not None else v1
            v2 = before[1] if before[1] is not None else v2
        except contracts.ContractViolation as e:
            np.random.seed(npseed)
            try:
                r = raw(v1, v2, **kw)
            except Exception:  # noqa: BLE001
                r = None
            errs = rotvec_errors(v1, v2, r) if r is not None else None
            ctx.violation(f"{e.key}:{regime}", case=case, by="contract", errors=errs,
                          result=jl(r) if r is not None else None, **witness)
            reported = True
        except Exception as e:  # noqa: BLE001
            ctx.violation(f"rotation_matrix_from_vectors:raises:{type(e).__name__}:{regime}", case=case,
                          err=repr(e)[:300], **witness)
            continue
        errs = rotvec_errors(v1, v2, r)
        ctx.count("oracle.rmfv")
        if errs is None:
            if not reported:
                ctx.violation(f"rotation_matrix_from_vectors:result-not-finite-3x3:{regime}", case=case, by="harness",
                              result=repr(r)[:200], **witness)
            continue
        # bound: 64 eps (1 + 1/(1 + cos)), at most 1e-6 (what the documented form reaches next to its branch switch)
        bound = c11_tight.rmfv_bound(unit(v1), unit(v2))
        if bound < 1e-9:
            ctx.count("oracle.rmfv.bound-below-1e-9")
        if bound < 1e-12:
            ctx.count("oracle.rmfv.bound-below-1e-12")
        for k, e in errs.items():
            worst[(regime, k)] = max(worst.get((regime, k), 0.0), e)
            worst_q[(regime, k)] = max(worst_q.get((regime, k), 0.0), e / bound)
            if not (e <= bound) and not reported:
                ctx.violation(f"rotation_matrix_from_vectors:{k}:{regime}", case=case, by="harness", errors=errs,
                              bound=bound, result=jl(r), **witness)
                reported = True
    ctx.note("rmfv_worst_error_by_regime", [{f"{a}/{b}": float(f"{v:.3g}") for (a, b), v in sorted(worst.items())}])
    ctx.note("rmfv_worst_error_over_bound_by_regime",
             [{f"{a}/{b}": float(f"{v:.3g}") for (a, b), v in sorted(worst_q.items())}])


# =================================================================================================
# rotation_matrix_from_axis

ANGLES = [0.0, math.pi, -math.pi, math.pi / 2, -math.pi / 2, TWO_PI, 1e-8, 1e-12, math.pi - 1e-9, math.pi + 1e-9]


def chunk_rotaxis(spec, ctx):
    import numpy as np
    import molli as ml
    from vmon import contracts

    from vmon.models import c11_tight

    f = ml.math.rotation_matrix_from_axis
    raw = getattr(f, "__vmon_original__", f)
    hands = {1: 0, -1: 0}
    first_witness = {}
    for j in range(spec["n"]):
        case = [spec["chunk"], j]
        if not ctx.want(case):
            continue
        rng = ctx.rng("rotaxis", *case)
        k = j % 8
        if k in (0, 1, 2, 3):
            axis = gvec(rng) * (10.0 ** rng.uniform(-6, 6) if rng.random() < 0.3 else 1.0)
            aclass = "random"
        elif k in (4, 5):
            axis = np.eye(3)[rng.randrange(3)] * rng.choice([1, -1]) * rng.choice([1, 2, 10])
            aclass = "axis-aligned"
            if rng.random() < 0.5:
                axis = [int(t) for t in axis]
        elif k == 6:
            axis = np.eye(3)[rng.randrange(3)] * rng.choice([1.0, -1.0]) + gvec(rng) * rng.choice([1e-3, 1e-8, 1e-14])
            aclass = "nearly-axis-aligned"
        else:
            axis = gvec(rng)
            axis[rng.randrange(3)] = 0.0
            aclass = "in-coordinate-plane"
        m = (j // 8) % 5
        if m == 0:
            angle = ANGLES[rng.randrange(len(ANGLES))]
        elif m == 1:
            angle = rng.uniform(-math.pi, math.pi)
        elif m == 2:
            angle = rng.uniform(-TWO_PI, TWO_PI)
        elif m == 3:
            angle = rng.uniform(-100, 100)
        else:
            # the neighbourhoods of 0 and of +-pi, log-uniform (a shortcut "angle ~ 0 => identity" lives here)
            tiny = rng.choice([1.0, -1.0]) * 10.0 ** rng.uniform(-16.0, -1.0)
            angle = tiny if rng.random() < 0.6 else rng.choice([math.pi, -math.pi]) + tiny
            ctx.count("rmfa.angle-near-zero-or-pi")
        if angle == 0.0:
            ctx.count("rmfa.angle-zero")
        if abs(abs(angle) - math.pi) < 1e-8:
            ctx.count("rmfa.angle-pi")
        ctx.case(case, dkey=("rotaxis", jl(np.round(unit(axis), 9)), round(angle, 12)),
                 nontrivial=abs(math.sin(angle / 2)) > 1e-9,
                 sample=smp(ctx, {"op": "rotation_matrix_from_axis", "axis": jl(axis), "angle": angle}))
        witness = {"axis": jl(axis), "angle": angle, "axis_class": aclass}
        reported = False
        # the axis is often a view of live data (a row of a coordinate table): building a matrix must not change it
        if j % 3 == 0 and not isinstance(axis, list):
            table = np.array([gvec(rng), np.asarray(axis, dtype=np.float64), gvec(rng)])
            axis = table[1]
        axis_before = np.array(axis, copy=True) if isinstance(axis, np.ndarray) else None
        try:
            r = f(axis, angle)
            if axis_before is not None:
                ctx.count("oracle.rmfa.argument-unchanged")
                if not np.array_equal(axis, axis_before):
                    ctx.violation("rotation_matrix_from_axis:modifies-its-argument", case=case, by="harness",
                                  before=jl(axis_before), after=jl(axis), **witness)
                    axis = axis_before
        except contracts.ContractViolation as e:
            try:
                r = raw(axis, angle)
            except Exception:  # noqa: BLE001
                r = None
            ctx.violation(e.key, case=case, by="contract", result=jl(r) if r is not None else None, **witness)
            reported = True
        except Exception as e:  # noqa: BLE001
            ctx.violation(f"rotation_matrix_from_axis:raises:{type(e).__name__}", case=case, err=repr(e)[:300], **witness)
            continue
        ctx.count("oracle.rmfa")
        r = np.asarray(r, dtype=float)
        if r.shape != (3, 3) or not np.all(np.isfinite(r)):
            if not reported:
                ctx.violation("rotation_matrix_from_axis:result-not-finite-3x3", case=case, by="harness", **witness)
            continue
        u = unit(axis)
        v = perp(rng, u)
        w = r @ v
        cosv, sinv = float(v @ w), float(u @ np.cross(v, w))
        errs = {
            "not-orthogonal": float(np.max(np.abs(r @ r.T - np.eye(3)))),
            "determinant-not-plus-one": abs(float(np.linalg.det(r)) - 1.0),
            "axis-not-fixed": max(float(np.max(np.abs(r @ u - u))), float(np.max(np.abs(u @ r - u)))),
            "angle-wrong": max(abs(cosv - math.cos(angle)), abs(abs(sinv) - abs(math.sin(angle)))),
        }
        for name, e in errs.items():
            if not (e <= c11_tight.RMFA_BOUND) and not reported:     # 256 eps
                ctx.violation(f"rotation_matrix_from_axis:{name}", case=case, by="harness", errors=errs,
                              bound=c11_tight.RMFA_BOUND, result=jl(r), probe_vector=jl(v), **witness)
                reported = True
        if abs(math.sin(angle)) > 1e-6 and abs(sinv) > 1e-7:
            hand = 1 if (sinv > 0) == (math.sin(angle) > 0) else -1
            hands[hand] += 1
            first_witness.setdefault(hand, witness)
            ctx.count("oracle.rmfa.sense")
    if hands[1] and hands[-1]:
        ctx.violation("rotation_matrix_from_axis:sense-not-consistent", case=None, by="harness",
                      right_handed=hands[1], left_handed=hands[-1], example_right=first_witness.get(1),
                      example_left=first_witness.get(-1))


# =================================================================================================
# molecules: translate / transform / Substructure edits

def bundled_molecules(max_atoms=120):
    """every molecule of every bundled .mol2 file that loads, smallest files first"""
    from pathlib import Path

    import molli as ml
    out = []
    d = Path(ml.files.__file__).parent
    for p in sorted(d.glob("*.mol2")):
        if p.stat().st_size > 400_000:
            continue
        try:
            ms = ml.Molecule.load_all_mol2(str(p))
        except Exception:  # noqa: BLE001  (loaders are judged by C08/C10)
            continue
        for k, m in enumerate(ms[:3]):
            if 2 <= m.n_atoms <= max_atoms:
                out.append((f"{p.name}#{k}", m))
    return out


def generated_molecule(rng, which=None, decorate=False):
    """tree / ring-closed tree / random graph in general position; decorate: dummy atoms / attachment points as leaves
    (every second molecule) and further components -- a second small tree, isolated atoms (every third)"""
    from vmon import gen
    which = which or rng.choice(["tree", "tree", "ring", "graph", "small"])
    if which == "tree":
        m = gen.tree3d(rng, rng.randrange(5, 26))
    elif which == "ring":
        m = gen.tree3d(rng, rng.randrange(6, 22), ring=True)
    elif which == "small":
        m = gen.molecule(rng, n_atoms=rng.choice([0, 1, 2, 3]), rich=False, special=0.0, name="small")
    else:
        m = gen.molecule(rng, n_atoms=rng.randrange(4, 30), rich=False, special=0.0, name="graph")
    if decorate and which != "small":
        from vmon.models import c11_workload as w
        tags = ""
        if rng.random() < 0.5 and w.placeholders(rng, m, n=rng.choice([1, 1, 2, 3])):
            tags += "+ph"
        if rng.random() < 0.35 and w.spectators(rng, m):
            tags += "+sp"
        which += tags
    return which, m


def placeholder_rows(mol):
    return [i for i, a in enumerate(mol.atoms) if a.is_dummy or a.is_attachment_point]


def some_vector(rng, as_type=True):
    import numpy as np
    mag = rng.choice([0.0, 1e-3, 1.0, 1.0, 10.0, 100.0, 1e4])
    v = gvec(rng) * mag
    t = rng.randrange(5) if as_type else 0
    if t == 1:
        return v.tolist(), v
    if t == 2:
        return tuple(v.tolist()), v
    if t == 3:
        iv = np.array([rng.randrange(-5, 6) for _ in range(3)])
        return iv, iv.astype(float)
    if t == 4:
        iv = [rng.randrange(-5, 6) for _ in range(3)]
        return iv, np.array(iv, dtype=float)
    return v, v


def some_rotation(rng):
    """a proper rotation and how it was made: QR, or the constructors under test (their own contracts decide about
    them in the rotvec/rotaxis chunks; here a result that is not a proper rotation is replaced by a QR one so that
    the operation under test is judged on its own)"""
    import numpy as np
    import molli as ml
    qr = random_rotation(rng)
    t = rng.randrange(4)
    try:
        if t == 0:
            return "qr", qr
        if t == 1:
            how, r = "from_vectors", ml.math.rotation_matrix_from_vectors(gvec(rng), gvec(rng))
        elif t == 2:
            how, r = "from_axis", ml.math.rotation_matrix_from_axis(gvec(rng), rng.uniform(-math.pi, math.pi))
        else:
            u = unit(gvec(rng))
            how, r = "from_vectors-antiparallel", ml.math.rotation_matrix_from_vectors(u, -u + 1e-9 * perp(rng, u))
        r = np.asarray(r, dtype=float)
        # (1e-11: a constructor result that is within its own 1e-6 contract but only ~1e-9 orthogonal -- vectors that
        # happen to be almost opposite -- would make the *operation's* distance oracle fire for no fault of the operation)
        if r.shape == (3, 3) and np.max(np.abs(r @ r.T - np.eye(3))) < 1e-11 and abs(np.linalg.det(r) - 1) < 1e-11:
            return how, r
    except Exception:  # noqa: BLE001
        pass
    return "qr", qr


def chunk_geom(spec, ctx):
    import numpy as np

    orc = Oracle(ctx)
    bundled = bundled_molecules()
    for j in range(spec["n"]):
        mrng = ctx.rng("geom-mol", spec["chunk"], j)
        if j % 3 == 0 and bundled:
            name, mol = bundled[(spec["chunk"] * 7 + j // 3) % len(bundled)]
            src = name
        else:
            src, mol = generated_molecule(mrng, decorate=True)
        n = mol.n_atoms
        quads, _ = centre_quads(mol)
        base = np.array(mol.coords, dtype=float, copy=True)
        if not np.all(np.isfinite(base)):
            continue
        ph = placeholder_rows(mol)
        if ph:
            ctx.count("geom.molecule-with-placeholders")
        for op in ("translate", "transform", "sub-translate", "sub-transform", "sub-assign", "sub-iadd",
                   "translate-transform-sequence", "centroid", "nested-translate", "nested-transform", "nested-assign",
                   "nested-iadd"):
            case = [spec["chunk"], j, op]
            if not ctx.want(case):
                continue
            rng = ctx.rng("geom", *case)
            np.random.seed(rng.randrange(2 ** 32))
            mol.coords = base
            x0 = np.array(mol.coords, copy=True)
            desc = {"op": op, "molecule": src, "n_atoms": n}
            if op == "translate":
                arg, v = some_vector(rng)
                ctx.case(case, dkey=("translate", src, n, jl(np.round(v, 6))), nontrivial=n >= 4 and bool(np.any(v)),
                         sample=None)
                ok, _ = run_op(ctx, "translate", case, lambda: mol.translate(arg))
                if not ok:
                    continue
                x1 = np.array(mol.coords, copy=True)
                ctx.count("oracle.translate")
                orc.effect("translate", case, x0 + v, x1, what="displacement", vector=jl(v), molecule=src)
                orc.rigid("translate", case, x0, x1, vector=jl(v), molecule=src)
                orc.handed("translate", case, x0, x1, quads, molecule=src)
            elif op == "transform":
                how, r = some_rotation(rng)
                arg = r.tolist() if rng.random() < 0.2 else r
                ctx.case(case, dkey=("transform", src, n, jl(np.round(r, 6))), nontrivial=n >= 4,
                         sample=smp(ctx, {**desc, "rotation_from": how}) if n >= 8 else None)
                ok, _ = run_op(ctx, "transform", case, lambda: mol.transform(arg))
                if not ok:
                    continue
                x1 = np.array(mol.coords, copy=True)
                ctx.count("oracle.transform")
                orc.effect("transform", case, x0 @ r, x1, what="row-vector-image", rotation=jl(r), molecule=src)
                orc.rigid("transform", case, x0, x1, rotation=jl(r), rotation_from=how, molecule=src)
                orc.handed("transform", case, x0, x1, quads, rotation=jl(r), rotation_from=how, molecule=src)
            elif op == "translate-transform-sequence":
                # conjugated rotation about an atom, as rotate_dihedral / the CDXML code do it
                if n < 1:
                    continue
                o = x0[rng.randrange(n)].copy()
                how, r = some_rotation(rng)
                ctx.case(case, dkey=("sequence", src, n, jl(np.round(r, 6))), nontrivial=n >= 4)

                def seq():
                    mol.translate(-o)
                    mol.transform(r)
                    mol.translate(o)
                ok, _ = run_op(ctx, "translate-transform-sequence", case, seq)
                if not ok:
                    continue
                x1 = np.array(mol.coords, copy=True)
                ctx.count("oracle.transform")
                orc.effect("translate-transform-sequence", case, (x0 - o) @ r + o, x1, what="image", molecule=src)
                orc.rigid("translate-transform-sequence", case, x0, x1, molecule=src)
                orc.handed("translate-transform-sequence", case, x0, x1, quads, molecule=src)
            elif op == "centroid":
                # documented: "Centroid of the molecule" (the plain mean of the coordinates, placeholders are atoms too);
                # of a Substructure: the mean of its rows
                if n < 1:
                    continue
                sel = rng.sample(range(n), rng.randrange(1, n + 1))
                if ph and rng.random() < 0.7 and ph[0] not in sel:
                    sel[rng.randrange(len(sel))] = ph[0]
                ctx.case(case, dkey=("centroid", src, n, tuple(sel)), nontrivial=n >= 4)
                ok, got = run_op(ctx, "centroid", case,
                                 lambda: (np.array(mol.centroid(), dtype=float), np.array(mol.substructure(sel).centroid(), dtype=float)))
                if not ok:
                    continue
                ctx.count("oracle.centroid")
                if ph:
                    ctx.count("oracle.centroid.with-placeholders")
                orc.effect("centroid", case, x0.mean(axis=0), got[0], what="value", molecule=src, n_placeholders=len(ph))
                orc.effect("substructure-centroid", case, x0[sel].mean(axis=0), got[1], what="value", molecule=src,
                           selected=sel if len(sel) <= 12 else {"n": len(sel)}, n_placeholders=len(ph))
                if not np.array_equal(np.array(mol.coords), x0):
                    ctx.violation("centroid:coordinates-changed", case=case, molecule=src)
            elif op.startswith("nested-"):
                # a Substructure of a Substructure (two or three levels): the edit must arrive in the root's rows
                if n < 3:
                    continue
                depth = rng.choice([2, 2, 3])
                rows, view, built = list(range(n)), mol, []
                for lvl in range(depth):
                    m_ = len(rows)
                    k = m_ if lvl == 0 and rng.random() < 0.3 else rng.randrange(1 if lvl else 2, m_ + 1)
                    pick = rng.sample(range(m_), k)   # positions inside the current view, unsorted
                    by = rng.choice(["indices", "atoms"])
                    view = view.substructure(pick if by == "indices" else [view.atoms[t] for t in pick])
                    rows = [rows[t] for t in pick]
                    built.append(by)
                sel = rows
                rest = [i for i in range(n) if i not in set(sel)]
                desc.update(selected=sel if len(sel) <= 12 else {"n": len(sel)}, levels=depth, selected_by=built)
                kind = op[7:]
                opname = f"nested-substructure:{kind}"
                ctx.count("oracle.nested-substructure-view")
                ok, got = run_op(ctx, opname + ":coords-getter", case, lambda: np.array(view.coords, copy=True))
                if not ok:
                    continue
                orc.effect(opname, case, x0[sel], got, what="coords-view", tol=0.0, **desc)
                if kind == "translate":
                    arg, v = some_vector(rng)
                    if not np.any(v):
                        v = np.array([0.5, -1.0, 2.0])
                        arg = v
                    expect = x0[sel] + v
                    fn = lambda: view.translate(arg)  # noqa: E731
                elif kind == "transform":
                    how, r = some_rotation(rng)
                    expect = x0[sel] @ r
                    fn = lambda: view.transform(r)  # noqa: E731
                elif kind == "assign":
                    new = np.array([gvec(rng) * 3 for _ in sel])
                    expect = new

                    def fn():
                        view.coords = new
                else:
                    inc = np.array([gvec(rng) for _ in sel]) if rng.random() < 0.5 else gvec(rng)
                    expect = x0[sel] + inc

                    def fn():
                        view.coords += inc
                ctx.case(case, dkey=(opname, src, n, tuple(sel), jl(np.round(expect[:2], 6))),
                         nontrivial=len(sel) >= 1 and len(rest) >= 1 and n >= 4, sample=None)
                ok, _ = run_op(ctx, opname, case, fn)
                if not ok:
                    continue
                x1 = np.array(mol.coords, copy=True)
                ctx.count("oracle.nested-substructure-rows")
                orc.rows_untouched(opname, case, x0, x1, rest, **desc)
                if np.array_equal(x1[sel], x0[sel]) and float(np.max(np.abs(expect - x0[sel]))) > 1e-6:
                    ctx.violation(f"{opname}:edit-lost", case=case, note="no row of the root structure changed", **desc)
                else:
                    orc.effect(opname, case, expect, x1[sel], what="selected-rows", **desc)
                    if kind in ("translate", "transform"):
                        orc.rigid(opname, case, x0, x1, rows=sel, what="distances-inside-selection", **desc)
            else:
                if n < 2:
                    continue
                k = rng.choice([1, 2, max(1, n // 2), n - 1, n]) if n > 2 else rng.choice([1, 2])
                sel = rng.sample(range(n), k)  # unsorted on purpose
                rest = [i for i in range(n) if i not in set(sel)]
                how_sel = rng.choice(["indices", "atoms", "generator"])
                if how_sel == "indices":
                    sub = mol.substructure(sel)
                elif how_sel == "atoms":
                    sub = mol.substructure([mol.atoms[i] for i in sel])
                else:
                    sub = mol.substructure(mol.atoms[i] for i in sel)
                desc.update(selected=sel if len(sel) <= 12 else {"n": len(sel)}, selected_by=how_sel)
                got = np.array(sub.coords, copy=True)
                ctx.count("oracle.substructure-view")
                orc.effect(f"substructure-{op[4:]}", case, x0[sel], got, what="coords-view", tol=0.0, **desc)
                if op == "sub-translate":
                    arg, v = some_vector(rng)
                    expect = x0[sel] + v
                    fn = lambda: sub.translate(arg)  # noqa: E731
                    proper = True
                elif op == "sub-transform":
                    how, r = some_rotation(rng)
                    expect = x0[sel] @ r
                    fn = lambda: sub.transform(r)  # noqa: E731
                    proper = True
                elif op == "sub-assign":
                    new = np.array([gvec(rng) * 3 for _ in sel])
                    expect = new

                    def fn():
                        sub.coords = new
                    proper = False
                else:
                    inc = np.array([gvec(rng) for _ in sel]) if rng.random() < 0.5 else gvec(rng)
                    expect = x0[sel] + inc

                    def fn():
                        sub.coords += inc
                    proper = False
                opname = f"substructure-{op[4:]}"
                ctx.case(case, dkey=(opname, src, n, tuple(sel), jl(np.round(expect[:2], 6))),
                         nontrivial=len(sel) >= 1 and len(rest) >= 1 and n >= 4,
                         sample=None)
                ok, _ = run_op(ctx, opname, case, fn)
                if not ok:
                    continue
                x1 = np.array(mol.coords, copy=True)
                ctx.count("oracle.substructure-rows")
                orc.rows_untouched(opname, case, x0, x1, rest, **desc)
                orc.effect(opname, case, expect, x1[sel], what="selected-rows", **desc)
                if proper:
                    orc.rigid(opname, case, x0, x1, rows=sel, what="distances-inside-selection", **desc)
                    inside = [q for q in quads if all(i in set(sel) for i in q)]
                    orc.handed(opname, case, x0, x1, inside, **desc)
        mol.coords = base


# =================================================================================================
# ensembles

def make_ensemble(rng):
    """(description, ensemble) -- conformers are noisy, rigidly moved copies of a base"""
    import numpy as np
    import molli as ml
    from vmon import gen

    t = rng.randrange(6)
    if t == 0:
        ens = ml.ConformerEnsemble.load_mol2(ml.files.pentane_confs_mol2)
        return "pentane_confs", ens
    if t == 1:
        n, nc = 3, 3  # n_conformers == n_atoms == 3: (nc,3) translation vs (3,) and (n,3)
    elif t == 2:
        n, nc = rng.randrange(4, 9), 1
    else:
        n, nc = rng.randrange(4, 22), rng.choice([2, 3, 5, 8])
    base = gen.tree3d(rng, n, ring=rng.random() < 0.3)
    if t in (2, 3, 5) and rng.random() < 0.8:
        from vmon.models import c11_workload as w
        w.placeholders(rng, base, n=rng.choice([1, 2]))    # attachment points / dummy atoms are atoms of the ensemble too
    n = base.n_atoms
    if t == 4:
        nc = n  # n_conformers == n_atoms
    x = np.array(base.coords)
    cs = []
    for _ in range(nc):
        q = random_rotation(rng)
        noise = np.array([gvec(rng) for _ in range(n)]) * rng.choice([0.0, 0.05, 0.3])
        cs.append((x + noise) @ q + gvec(rng) * rng.choice([0.0, 1.0, 10.0]))
    ens = ml.ConformerEnsemble(base, n_conformers=nc, coords=np.array(cs))
    return f"tree{n}x{nc}", ens


def chunk_ens(spec, ctx):
    import numpy as np

    orc = Oracle(ctx)
    ops = ["translate-1d", "translate-2d", "rotate", "rotate-stack", "center_at_atom", "center_at_core",
           "conformer-translate", "conformer-transform", "conformer-substructure-translate",
           "conformer-nested-substructure-translate"]
    for j in range(spec["n"]):
        erng = ctx.rng("ens-make", spec["chunk"], j // len(ops))
        op = ops[j % len(ops)]
        case = [spec["chunk"], j, op]
        if not ctx.want(case):
            continue
        src, ens = make_ensemble(erng)
        rng = ctx.rng("ens", *case)
        np.random.seed(rng.randrange(2 ** 32))
        nc, n = ens.n_conformers, ens.n_atoms
        quads, _ = centre_quads(ens)
        x0 = np.array(ens.coords, dtype=float, copy=True)
        desc = {"op": op, "ensemble": src, "n_conformers": nc, "n_atoms": n}
        name = "ens-" + op if not op.startswith(("center", "conformer")) else op

        def per_conformer(x1, proper=True, only=None):
            for k in range(nc):
                if only is not None and k != only:
                    continue
                orc.rigid(name, case, x0[k], x1[k], conformer=k, **desc)
                if proper:
                    orc.handed(name, case, x0[k], x1[k], quads, conformer=k, **desc)

        if op == "translate-1d":
            arg, v = some_vector(rng)
            ctx.case(case, dkey=(op, src, jl(np.round(v, 6)), jl(np.round(x0[0, 0], 6))), nontrivial=n >= 4 and bool(np.any(v)),
                     sample=None)
            ok, _ = run_op(ctx, name, case, lambda: ens.translate(arg))
            if not ok:
                continue
            x1 = np.array(ens.coords, copy=True)
            ctx.count("oracle.ens-translate-1d")
            orc.effect(name, case, x0 + v, x1, what="displacement", vector=jl(v), **desc)
            per_conformer(x1)
        elif op == "translate-2d":
            v = np.array([gvec(rng) * rng.choice([0.0, 1.0, 10.0, 100.0]) for _ in range(nc)])
            arg = v.tolist() if rng.random() < 0.3 else v
            ctx.case(case, dkey=(op, src, jl(np.round(v[0], 6)), jl(np.round(x0[0, 0], 6))), nontrivial=n >= 4 and nc >= 2,
                     sample=None)
            ok, _ = run_op(ctx, name, case, lambda: ens.translate(arg))
            if not ok:
                continue
            x1 = np.array(ens.coords, copy=True)
            ctx.count("oracle.ens-translate-2d")
            orc.effect(name, case, x0 + v[:, None, :], x1, what="per-conformer-displacement", vectors=jl(v), **desc)
            per_conformer(x1)
        elif op in ("rotate", "rotate-stack"):
            if op == "rotate":
                how, r = some_rotation(rng)
                expect = x0 @ r
                ctx.count("oracle.ens-rotate")
            else:
                r = np.array([some_rotation(rng)[1] for _ in range(nc)])
                expect = np.array([x0[k] @ r[k] for k in range(nc)])
                ctx.count("oracle.ens-rotate-stack")
            ctx.case(case, dkey=(op, src, jl(np.round(r.ravel()[:9], 6)), jl(np.round(x0[0, 0], 6))), nontrivial=n >= 4,
                     sample=None)
            ok, _ = run_op(ctx, name, case, lambda: ens.rotate(r))
            if not ok:
                continue
            x1 = np.array(ens.coords, copy=True)
            orc.effect(name, case, expect, x1, what="row-vector-image", **desc)
            per_conformer(x1)
        elif op == "center_at_atom":
            i = rng.randrange(n)
            ctx.case(case, dkey=(op, src, i, jl(np.round(x0[0, 0], 6))), nontrivial=n >= 4 and nc >= 2,
                     sample=None)
            ok, _ = run_op(ctx, name, case, lambda: ens.center_at_atom(ens.atoms[i]))
            if not ok:
                continue
            x1 = np.array(ens.coords, copy=True)
            ctx.count("oracle.center_at_atom")
            orc.effect(name, case, np.zeros((nc, 3)), x1[:, i], what="atom-at-origin", tol=1e-9 * scale_of(x0), atom=i, **desc)
            orc.effect(name, case, x0 - x0[:, i][:, None, :], x1, what="displacement", atom=i, **desc)
            per_conformer(x1)
        elif op == "center_at_core":
            k = rng.choice([1, 2, 3, max(1, n // 2), n])
            k = min(k, n)
            core = rng.sample(range(n), k)
            ph = placeholder_rows(ens)
            if ph and k < n and rng.random() < 0.7 and not set(ph) & set(core):
                core[rng.randrange(k)] = rng.choice(ph)
            if set(ph) & set(core) and k >= 2:
                ctx.count("oracle.center_at_core.placeholder-in-core")
            ctx.case(case, dkey=(op, src, tuple(core), jl(np.round(x0[0, 0], 6))), nontrivial=n >= 4 and nc >= 2,
                     sample=smp(ctx, {**desc, "core": core}) if nc >= 2 else None)
            ok, _ = run_op(ctx, name, case, lambda: ens.center_at_core(core))
            if not ok:
                continue
            x1 = np.array(ens.coords, copy=True)
            ctx.count("oracle.center_at_core")
            cen0 = x0[:, core].mean(axis=1)
            orc.effect(name, case, np.zeros((nc, 3)), x1[:, core].mean(axis=1), what="core-centroid-at-origin",
                       tol=1e-9 * scale_of(x0), core=core, **desc)
            orc.effect(name, case, x0 - cen0[:, None, :], x1, what="displacement", core=core, **desc)
            per_conformer(x1)
        else:
            c = rng.randrange(nc)
            others = [k for k in range(nc) if k != c]
            cf = ens[c]
            if op == "conformer-translate":
                arg, v = some_vector(rng)
                expect = x0[c] + v
                fn = lambda: cf.translate(arg)  # noqa: E731
                rows = list(range(n))
            elif op == "conformer-transform":
                how, r = some_rotation(rng)
                expect = x0[c] @ r
                fn = lambda: cf.transform(r)  # noqa: E731
                rows = list(range(n))
            elif op == "conformer-substructure-translate":
                rows = rng.sample(range(n), rng.randrange(1, n + 1))
                arg, v = some_vector(rng)
                expect = x0[c].copy()
                expect[rows] += v
                fn = lambda: cf.substructure(rows).translate(arg)  # noqa: E731
            else:
                # a Substructure of a Substructure of a conformer
                outer = rng.sample(range(n), rng.randrange(2, n + 1))
                pick = rng.sample(range(len(outer)), rng.randrange(1, len(outer) + 1))
                rows = [outer[t] for t in pick]
                arg, v = some_vector(rng)
                if not np.any(v):
                    v = np.array([1.0, 2.0, -0.5])
                    arg = v
                expect = x0[c].copy()
                expect[rows] += v
                fn = lambda: cf.substructure(outer).substructure(pick).translate(arg)  # noqa: E731
                name = "conformer-nested-substructure:translate"
            ctx.case(case, dkey=(op, src, c, jl(np.round(expect[0], 6))), nontrivial=n >= 4 and nc >= 2,
                     sample=None)
            ok, _ = run_op(ctx, name, case, fn)
            if not ok:
                continue
            x1 = np.array(ens.coords, copy=True)
            ctx.count("oracle.conformer-only")
            if op == "conformer-nested-substructure-translate":
                ctx.count("oracle.nested-substructure-rows")
                if np.array_equal(x1[c], x0[c]):
                    if others and not np.array_equal(x0[others], x1[others]):
                        ctx.violation(f"{name}:other-conformers-changed", case=case, conformer=c, **desc)
                    ctx.violation(f"{name}:edit-lost", case=case, conformer=c, rows=rows if len(rows) <= 12 else len(rows),
                                  note="no row of the ensemble changed", **desc)
                    continue
            if others and not np.array_equal(x0[others], x1[others]):
                ctx.violation(f"{name}:other-conformers-changed", case=case, conformer=c, **desc)
            rest = [i for i in range(n) if i not in set(rows)]
            if rest:
                orc.rows_untouched(name, case, x0[c], x1[c], rest, conformer=c, **desc)
            orc.effect(name, case, expect, x1[c], what="image", conformer=c, **desc)
            orc.rigid(name, case, x0[c], x1[c], rows=rows, conformer=c, **desc)
            inside = [q for q in quads if all(i in set(rows) for i in q)]
            orc.handed(name, case, x0[c], x1[c], inside, conformer=c, **desc)


# =================================================================================================
# rotate_dihedral

def acyclic_bonds(n, nbrs):
    """bonds (i, j) whose removal disconnects i from j, with the atom set on j's side (own search)"""
    out = []
    for i in range(n):
        for j in nbrs[i]:
            if i == j:
                continue
            side = {j}
            stack = [j]
            while stack:
                a = stack.pop()
                for b in nbrs[a]:
                    if a == j and b == i:
                        continue  # the bond itself
                    if b not in side:
                        side.add(b)
                        stack.append(b)
            if i not in side:
                out.append((i, j, sorted(side)))
    return out


def target_angles(rng, d0):
    return [0.0, math.pi, -math.pi, math.pi / 2, d0, d0 + math.pi, rng.uniform(-math.pi, math.pi), rng.uniform(-10, 10)]


def dihedral_tolerance(floor, sc, s1, s2):
    """tolerance of a torsion angle whose two bond angles have the sines s1, s2: the triple products behind the angle
    lose 1/(s1*s2) of their digits (measured on the unchanged code: <= 1.2 * eps * scale / (s1*s2) over 9e4 calls)"""
    return max(floor, 64.0 * 2.0 ** -52 * sc / (s1 * s2))


def chunk_dihedral(spec, ctx):
    import numpy as np
    import molli as ml
    from vmon.models import c11_workload as w

    orc = Oracle(ctx)
    mols = []  # (name, molecule, parent ensemble or None, conformer index, forced (k, i, j, l) or None)
    if spec["source"] == "bundled":
        allm = bundled_molecules()
        mols = [(nm, m, None, None, None) for k, (nm, m) in enumerate(allm) if k % spec["of"] == spec["part"]]
        if spec["part"] == 0:
            ens = ml.ConformerEnsemble.load_mol2(ml.files.pentane_confs_mol2)
            mols.append(("pentane_confs[3]", ens[3], ens, 3, None))
    else:
        for j in range(spec["n"]):
            rng = ctx.rng("dih-mol", spec["chunk"], j)
            if j % 4 == 2:
                # bond angle(s) within 1e-6 .. 5e-2 rad of 180 degrees at one or both ends of the bond (alkynes, nitriles)
                m, quad, _d = w.near_linear(rng)
                if rng.random() < 0.3:
                    w.placeholders(rng, m, n=1)
                if rng.random() < 0.3:
                    w.spectators(rng, m, n_components=1)
                mols.append((f"nearlinear{m.n_atoms}-{spec['chunk']}.{j}", m, None, None, quad))
                continue
            which, m = generated_molecule(rng, rng.choice(["tree", "tree", "ring"]), decorate=True)
            if j % 4 == 3:  # a conformer of an ensemble is a Molecule too
                x = np.array(m.coords)
                e = ml.ConformerEnsemble(m, n_conformers=3,
                                         coords=np.array([x + 1.0, x @ random_rotation(rng), x * 1.0]))
                mols.append((f"{which}{m.n_atoms}-conformer1-{spec['chunk']}.{j}", e[1], e, 1, None))
            else:
                mols.append((f"{which}{m.n_atoms}-{spec['chunk']}.{j}", m, None, None, None))
    conv = {1: 0, -1: 0}
    for name, mol, parent, cidx, forced in mols:
        n = mol.n_atoms
        quads, nbrs = centre_quads(mol)
        nbrs = [sorted(set(x)) for x in nbrs]
        base = np.array(mol.coords, dtype=float, copy=True)
        if not np.all(np.isfinite(base)):
            continue
        sc = scale_of(base)
        ph = set(placeholder_rows(mol))
        allb = acyclic_bonds(n, nbrs)
        # connected components (own search): atoms outside the component of the bond are spectators
        comp = list(range(n))
        for a in range(n):
            stack, seen = [a], {a}
            if comp[a] != a:
                continue
            while stack:
                b = stack.pop()
                comp[b] = a
                for c_ in nbrs[b]:
                    if c_ not in seen:
                        seen.add(c_)
                        stack.append(c_)
        n_comp = len(set(comp))
        bonds = [(i, j, side) for (i, j, side) in allb if len(nbrs[i]) >= 2 and len(nbrs[j]) >= 2]
        brng = ctx.rng("dih-bonds", name)
        brng.shuffle(bonds)
        work = []   # (i, j, side, k, l)
        if forced is not None:
            k, i, j, l = forced
            sides = {(a, b): sd for (a, b, sd) in allb}
            if (i, j) in sides and (j, i) in sides:
                work = [(i, j, sides[(i, j)], k, l), (j, i, sides[(j, i)], l, k)]
        for (i, j, side) in bonds[:spec["max_bonds"]] if forced is None else []:
            arng = ctx.rng("dih-atoms", name, i, j)
            fixed = [a for a in range(n) if a not in set(side)]
            # neighbours as end atoms (the usual call); sometimes a remote atom of either part (same component)
            k = arng.choice([a for a in nbrs[i] if a != j])
            l = arng.choice([a for a in nbrs[j] if a != i])
            if arng.random() < 0.2:
                k = arng.choice([a for a in fixed if a != i and comp[a] == comp[i]])
            if arng.random() < 0.2:
                l = arng.choice([a for a in side if a != j])
            work.append((i, j, side, k, l))
        for (i, j, side, k, l) in work:
            arng = ctx.rng("dih-targets", name, i, j, k, l)
            inside_moved = set(side)
            fixed = [a for a in range(n) if a not in inside_moved]
            s1, s2 = sin_angle(base, k, i, j), sin_angle(base, i, j, l)
            # the torsion is defined while neither bond angle is 0 / 180 degrees; its condition is 1/(s1*s2)
            if not (min(s1, s2) >= 5e-7 and s1 * s2 >= 1e-8):
                ctx.count("rotate_dihedral.skipped-collinear")
                continue
            near_lin = min(s1, s2) < 0.05
            tol_target = dihedral_tolerance(1e-8, sc, s1, s2)
            tol_formula = dihedral_tolerance(1e-9, sc, s1, s2)
            d0_own = torsion(base, k, i, j, l)
            mol.coords = base
            d0 = float(mol.dihedral(k, i, j, l))
            for ti, t in enumerate(target_angles(arng, d0)):
                case = [name, i, j, k, l, ti]
                npseed = arng.randrange(2 ** 32)
                how = arng.randrange(3)
                via = arng.randrange(6)
                if not ctx.want(case):
                    continue
                np.random.seed(npseed)
                mol.coords = base
                x0 = np.array(mol.coords, copy=True)
                p0 = np.array(parent.coords, copy=True) if parent is not None else None
                turn = wrap(t - d0)
                desc = {"molecule": name, "atoms": [k, i, j, l], "d0": d0, "target": t, "n_moved": len(side),
                        "n_fixed": len(fixed), "sin_bond_angles": [s1, s2], "n_components": n_comp,
                        "placeholders": sorted(ph)[:6]}
                ctx.case(case, dkey=("rotate_dihedral", name.split("-")[0], n, i, j, k, l, round(t, 9), round(d0, 9)),
                         nontrivial=abs(turn) > 1e-6 and len(side) >= 2,
                         sample=smp(ctx, {"op": "rotate_dihedral", **desc}) if ti == 6 else None)
                # the torsion reported by molli against the harness formula (either sign convention, consistently)
                ctx.count("oracle.dihedral-formula")
                if near_lin:
                    ctx.count("oracle.dihedral-formula.near-linear")
                if abs(wrap(d0 - d0_own)) <= tol_formula:
                    conv[1] += 1
                elif abs(wrap(d0 + d0_own)) <= tol_formula:
                    conv[-1] += 1
                else:
                    ctx.violation("dihedral:not-the-torsion-angle", case=case, when="before rotate_dihedral",
                                  molli=d0, harness=d0_own, tolerance=tol_formula, coords=jl(base[[k, i, j, l]]), **desc)
                # the caller: the molecule / conformer itself, or (1 in 6) a Substructure that holds all its atoms in
                # another order (rotate_dihedral is a method of Structure: every subclass inherits it)
                caller, suffix = mol, ""
                if via == 0:
                    order = list(range(n))
                    arng.shuffle(order)
                    caller, suffix = mol.substructure(order), ":via-substructure"
                    how = 1      # positions mean other atoms in the view: name the atoms themselves
                    ctx.count("oracle.rotate_dihedral.via-substructure")
                if how == 0:
                    atoms = (k, i, j, l)
                elif how == 1:
                    atoms = tuple(mol.atoms[a] for a in (k, i, j, l))
                else:
                    atoms = [k, i, j, l]
                ok, _ = run_op(ctx, "rotate_dihedral" + suffix, case, lambda: caller.rotate_dihedral(atoms, t))
                if not ok:
                    continue
                x1 = np.array(mol.coords, copy=True)
                # 1. the requested dihedral is at the target (molli's dihedral() and the harness formula)
                d1 = float(mol.dihedral(k, i, j, l))
                t1, t2 = sin_angle(x1, k, i, j), sin_angle(x1, i, j, l)
                defined = t1 >= 0.5 * s1 and t2 >= 0.5 * s2  # else: the rigidity oracles speak
                d1_own = torsion(x1, k, i, j, l) if defined else float("nan")
                ctx.count("oracle.rotate_dihedral.target")
                if near_lin:
                    ctx.count("oracle.rotate_dihedral.near-linear")
                if ph & inside_moved:
                    ctx.count("oracle.rotate_dihedral.placeholder-in-moved-part")
                if n_comp > 1:
                    ctx.count("oracle.rotate_dihedral.with-spectators")
                if not abs(wrap(d1 - t)) <= tol_target:
                    if np.array_equal(x1, x0):
                        key = "rotate-dihedral-no-effect"
                    elif abs(wrap(d1 - (2 * d0 - t))) <= max(1e-6, tol_target):
                        key = "rotate-dihedral-wrong-sense"
                    elif abs(wrap(d1 - d0)) <= tol_formula:
                        key = "rotate-dihedral-no-effect"
                    else:
                        key = "rotate-dihedral-target-missed"
                    ctx.violation(key + suffix, case=case, observed=d1, observed_harness_formula=d1_own if defined else None,
                                  tolerance=tol_target, mirror_image_2d0_minus_t=wrap(2 * d0 - t), **desc)
                if defined and not (abs(wrap(d1 - d1_own)) <= tol_formula or abs(wrap(d1 + d1_own)) <= tol_formula):
                    ctx.violation("dihedral:not-the-torsion-angle", case=case, when="after rotate_dihedral",
                                  molli=d1, harness=d1_own, tolerance=tol_formula, **desc)
                # 2. fixed part bit-identical: exactly (a subset of) the part behind atoms[2] moved
                ctx.count("oracle.rotate_dihedral.fixed-bit-identical")
                orc.rows_untouched("rotate_dihedral" + suffix, case, x0, x1, fixed, **desc)
                if p0 is not None:
                    p1 = np.array(parent.coords)
                    oth = [q for q in range(len(p0)) if q != cidx]
                    ctx.count("oracle.conformer-only")
                    if not np.array_equal(p0[oth], p1[oth]):
                        ctx.violation("rotate_dihedral:other-conformers-changed", case=case, **desc)
                # 3. both parts internally rigid; the pivot atoms[1] keeps its distances to the moved part
                ctx.count("oracle.rotate_dihedral.rigid")
                orc.rigid("rotate_dihedral" + suffix, case, x0, x1, rows=side, what="distances-inside-moved-part", **desc)
                orc.rigid("rotate_dihedral" + suffix, case, x0, x1, rows=fixed, what="distances-inside-fixed-part", **desc)
                orc.rigid("rotate_dihedral" + suffix, case, x0, x1, rows=[i] + side, what="distances-pivot-to-moved-part", **desc)
                inside = [q for q in quads if all(a in inside_moved or a == i for a in q)]
                orc.handed("rotate_dihedral" + suffix, case, x0, x1, inside, **desc)
        mol.coords = base
    if conv[1] and conv[-1]:
        ctx.violation("dihedral:sign-convention-not-consistent", case=None, same=conv[1], opposite=conv[-1])
    ctx.count("dihedral.convention.iupac", conv[1])
    ctx.count("dihedral.convention.mirror", conv[-1])


# =================================================================================================
# align_to_ref_coords

def chunk_align(spec, ctx):
    import numpy as np
    import molli as ml
    from vmon import gen
    from vmon.models import c11_workload as w

    orc = Oracle(ctx)

    def kabsch(a, b):
        ctx.count("kabsch.calls")
        a = np.asarray(a, dtype=float)
        b = np.asarray(b, dtype=float)
        r, rmsd, _s, _d = kabsch_rotation(a, b)
        return r, rmsd

    for j in range(spec["n"]):
        kind = "mol" if j % 2 == 0 else "ens"
        case = [spec["chunk"], j, kind]
        if not ctx.want(case):
            continue
        rng = ctx.rng("align", *case)
        np.random.seed(rng.randrange(2 ** 32))
        n = rng.randrange(6, 22)
        base = gen.tree3d(rng, n, ring=rng.random() < 0.3)
        if rng.random() < 0.4:
            w.placeholders(rng, base, n=rng.choice([1, 2]))    # fragments with attachment points / dummy atoms
        n = base.n_atoms
        if n < 5:
            continue
        xb = np.array(base.coords)
        quads, _ = centre_quads(base)
        k = rng.randrange(4, min(n, 9) + 1) if rng.random() < 0.85 else 3
        core = rng.sample(range(n), k)
        ph = placeholder_rows(base)
        if ph and rng.random() < 0.7 and not set(ph) & set(core):
            core[rng.randrange(k)] = rng.choice(ph)
        ph_in_core = bool(set(ph) & set(core))
        # identical core: the reference is an exact rigid image of the input's core (noise on the other atoms only)
        exact = rng.random() < 0.4
        # reference: the core of the base (+ noise), centred at the origin, as a Substructure of its own molecule
        refx = xb[core] + np.array([gvec(rng) for _ in core]) * (0.0 if exact else rng.choice([0.0, 0.0, 0.02, 0.2]))
        refx = refx - refx.mean(axis=0)
        refmol = ml.Molecule([ml.Atom(base.atoms[i].element) for i in core] + [ml.Atom("He")], name="ref",
                             coords=np.vstack([refx, [[50.0, 50.0, 50.0]]]))
        ref = refmol.substructure(range(k))
        # mappings: the true one (position varies) among permuted / foreign ones
        mtype = rng.randrange(4)
        maps = [list(core)]
        if mtype == 1:
            for _ in range(rng.randrange(1, 4)):
                p = list(core)
                rng.shuffle(p)
                maps.append(p)
        elif mtype == 2:
            for _ in range(rng.randrange(1, 3)):
                maps.append(rng.sample(range(n), k))
        elif mtype == 3:
            p = list(core)
            rng.shuffle(p)
            maps += [p, rng.sample(range(n), k)]
        pos = rng.randrange(len(maps))
        maps[0], maps[pos] = maps[pos], maps[0]
        vec_t = rng.randrange(3)
        vec = None if vec_t == 0 else (gvec(rng) * 5 if vec_t == 1 else (gvec(rng) * 5).tolist())
        vecv = np.zeros(3) if vec is None else np.asarray(vec, dtype=float)
        nc = 1 if kind == "mol" else rng.choice([1, 2, 3, 5])
        sig = rng.choice([0.0, 0.01, 0.1, 0.4])
        poses = []
        for _ in range(nc):
            q = random_rotation(rng)
            noise = np.array([gvec(rng) for _ in range(n)]) * sig
            if exact:
                noise[core] = 0.0
            poses.append((xb + noise) @ q + gvec(rng) * rng.choice([0.0, 3.0, 30.0]))
        poses = np.array(poses)
        # every mapping names the same set of atoms: the centring on "the core" does not depend on which one is used,
        # and the rotation-only Kabsch about the common centroid is the optimal superposition for each mapping
        same_set = all(sorted(mp) == sorted(core) for mp in maps)
        # the same poses after one more rigid motion each
        moved = np.array([p @ random_rotation(rng) + gvec(rng) * rng.choice([1.0, 20.0]) for p in poses])
        desc = {"op": f"align_to_ref_coords[{kind}]", "n_atoms": n, "core": core, "n_mappings": len(maps),
                "true_mapping_at": pos, "vec": None if vec is None else jl(vecv), "n_conformers": nc, "noise": sig,
                "identical_core": exact, "placeholder_in_core": ph_in_core, "mappings_over_one_atom_set": same_set}
        ctx.case(case, dkey=(kind, n, tuple(core), jl(np.round(poses[0, 0], 6)), len(maps)),
                 nontrivial=k >= 4, sample=smp(ctx, desc))

        def run(x):
            if kind == "mol":
                m = ml.Molecule(base, coords=x[0])
                res = m.align_to_ref_coords(kabsch, [list(mp) for mp in maps], ref, vec)
                return [float(res)], np.array(m.coords, copy=True)[None, :, :]
            e = ml.ConformerEnsemble(base, n_conformers=nc, coords=x)
            res = e.align_to_ref_coords(kabsch, [list(mp) for mp in maps], ref, vec)
            return [float(r) for r in res], np.array(e.coords, copy=True)

        tag = f"align-{kind}"
        ok, out = run_op(ctx, tag, case, lambda: run(poses))
        if not ok:
            continue
        rmsds, xa = out
        if len(rmsds) != nc:
            ctx.violation(f"{tag}:number-of-rmsds", case=case, returned=len(rmsds), **desc)
            continue
        sc = scale_of(poses, xa, vecv)
        ctx.count(f"oracle.{tag}.achieved", nc)
        best_gap = []
        for c in range(nc):
            orc.rigid(tag, case, poses[c], xa[c], conformer=c, **{k_: v for k_, v in desc.items() if k_ != "op"})
            orc.handed(tag, case, poses[c], xa[c], quads, conformer=c)
            ach = sorted(rmsd_of(xa[c][mp] - vecv, refx) for mp in maps)
            best_gap.append(ach[1] - ach[0] if len(ach) > 1 else 1.0)
            if not abs(ach[0] - rmsds[c]) <= 1e-8 * sc:
                ctx.violation(f"{tag}:returned-rmsd-not-achieved", case=case, conformer=c, returned=rmsds[c],
                              achieved_best_mapping=ach[0], achieved_all_mappings=ach[:4], **desc)
            if same_set:
                # documented effect: the core is centred ("reference should be centered at the origin", center_at_core),
                # the lowest rmsd over the given mappings is picked, `vec` is added afterwards
                ctx.count(f"oracle.{tag}.optimal")
                if ph_in_core:
                    ctx.count("oracle.align.placeholder-in-core")
                best = min(kabsch_rotation(poses[c][mp] - poses[c][mp].mean(axis=0), refx)[1] for mp in maps)
                if not abs(rmsds[c] - best) <= 1e-8 * sc:
                    ctx.violation(f"{tag}:rmsd-not-the-optimum-over-the-given-mappings", case=case, conformer=c,
                                  returned=rmsds[c], optimum=best, **desc)
                cen = xa[c][core].mean(axis=0) - vecv
                if not float(np.max(np.abs(cen))) <= 1e-8 * sc:
                    ctx.violation(f"{tag}:core-centroid-not-on-reference-centroid", case=case, conformer=c,
                                  core_centroid_minus_vec=jl(cen), **desc)
                if exact:
                    ctx.count(f"oracle.{tag}.identical-core")
                    on_ref = rmsd_of(xa[c][core] - vecv, refx)
                    if not (rmsds[c] <= 1e-8 * sc and on_ref <= 1e-8 * sc):
                        ctx.violation(f"{tag}:identical-core-not-on-reference", case=case, conformer=c, returned=rmsds[c],
                                      rmsd_core_to_reference=on_ref, **desc)
        ok, out = run_op(ctx, tag, case, lambda: run(moved))
        if not ok:
            continue
        rmsds_b, xb2 = out
        ctx.count(f"oracle.{tag}.pose", nc)
        for c in range(nc):
            if not abs(rmsds_b[c] - rmsds[c]) <= 1e-8 * sc:
                ctx.violation(f"{tag}:rmsd-depends-on-initial-pose", case=case, conformer=c, rmsd=rmsds[c],
                              rmsd_after_rigid_premotion=rmsds_b[c], **desc)
                continue
            # final pose: only where the optimum is unique and well conditioned
            mp = min(maps, key=lambda m_: rmsd_of(xa[c][m_] - vecv, refx))
            _r, _rm, s, d = kabsch_rotation(xa[c][mp] - vecv, refx)
            cond = s[1] + d * s[2]
            if best_gap[c] > 1e-3 and cond > 1e-2 * max(1.0, s[0]) and k >= 4:
                ctx.count(f"oracle.{tag}.final-pose")
                err = float(np.max(np.abs(xa[c] - xb2[c])))
                if not err <= 1e-6 * sc:
                    ctx.violation(f"{tag}:final-pose-depends-on-initial-pose", case=case, conformer=c,
                                  max_abs_difference=err, **desc)


# =================================================================================================
# realistic callers of the rotation constructors (contracts on)

def chunk_realistic(spec, ctx):
    from pathlib import Path

    import molli as ml
    from vmon import contracts

    case = [0, "cdxml"]
    if not ctx.want(case):
        return
    d = Path(ml.files.__file__).parent
    nmol = 0
    for p in sorted(d.glob("*.cdxml")):
        try:
            f = ml.CDXMLFile(str(p))
            keys = list(f.keys())
        except Exception:  # noqa: BLE001  (the parser is judged by C13)
            continue
        for k in keys:
            try:
                f[k]
                nmol += 1
            except contracts.ContractViolation as e:
                ctx.violation(f"{e.key}:during:cdxml-parse", case=case, by="contract", file=p.name, key=k,
                              message=str(e)[-400:])
            except Exception:  # noqa: BLE001
                ctx.count("realistic.cdxml-other-exception")
    ctx.count("realistic.cdxml-molecules", nmol)
    ctx.case(case, dkey=("cdxml", nmol), nontrivial=nmol > 0,
             sample={"op": "CDXML parsing with contracts on", "molecules": nmol})
    # implicit hydrogens (rotation_matrix_from_vectors of the tetrahedron template) and joins
    try:
        m = ml.Molecule.load_mol2(str(d / "hadd_test.mol2"))
        m.add_implicit_hydrogens()
        ctx.count("realistic.add_implicit_hydrogens")
    except contracts.ContractViolation as e:
        ctx.violation(f"{e.key}:during:add_implicit_hydrogens", case=case, by="contract", message=str(e)[-400:])
    except Exception:  # noqa: BLE001
        ctx.count("realistic.hadd-other-exception")


def chunk_testsuite(spec, ctx):
    """the repository's own tests as one more workload for the contracts (their verdicts are not C11's business)"""
    import json
    import os
    import subprocess
    import sys
    from pathlib import Path

    import molli as ml

    case = [0, "testsuite"]
    if not ctx.want(case):
        return
    repo = Path(ml.__file__).resolve().parent.parent
    tests = repo / "molli_test"
    if not tests.is_dir():
        return
    out = ctx.tmp / "suite.json"
    wd = ctx.tmp / "suite"
    wd.mkdir(exist_ok=True)
    env = dict(os.environ, VMON_CONTRACTS_OUT=str(out))
    try:
        subprocess.run([sys.executable, "-m", "pytest", "-q", "-p", "no:cacheprovider", "-p",
                        "vmon.models.c11_pytest_contracts", str(tests)], cwd=str(wd), env=env, timeout=420,
                       stdout=subprocess.DEVNULL, stderr=subprocess.DEVNULL)
    except subprocess.TimeoutExpired:
        ctx.count("testsuite.timeout")
        return
    if not out.exists():
        ctx.count("testsuite.no-report")
        return
    rep = json.loads(out.read_text())
    ctx.count("testsuite.tests-run", rep.get("tests", 0))
    n = sum(rep.get("counts", {}).values())
    ctx.count("testsuite.contract-evaluations", n)
    for k, v in rep.get("counts", {}).items():
        ctx.count("contract." + k, v)
    ctx.case(case, dkey=("testsuite", rep.get("tests", 0)), nontrivial=n > 0,
             sample=smp(ctx, {"op": "repository test-suite with contracts on", "tests": rep.get("tests", 0),
                              "contract_evaluations": n}))
    for key, msg, test in rep.get("raised", [])[:20]:
        ctx.violation(f"{key}:during:repository-test-suite", case=case, by="contract", test=test, message=msg)



# =================================================================================================
# long-lived substructure views across edits of the parent ("a substructure edit moves exactly the selected atoms")

def chunk_staleview(spec, ctx):
    import numpy as np
    import molli as ml
    from molli.chem import Atom

    mols = bundled_molecules(max_atoms=60)
    for j in range(spec["n"]):
        case = [spec["chunk"], j]
        if not ctx.want(case):
            continue
        rng = ctx.rng("staleview", spec["chunk"], j)
        if j % 2 == 0 and mols:
            name, m0 = mols[rng.randrange(len(mols))]
            m = ml.Molecule(m0)
        else:
            name, m = generated_molecule(rng, rng.choice(["tree", "ring", "graph"]), decorate=True)
        n = m.n_atoms
        if n < 8:
            continue
        # the order of the members inside the view is part of the case: ascending, descending, random, and the two orders
        # in which both END members stand low (high) in the parent while inner members stand beyond them
        sel = rng.sample(range(n), rng.randrange(3, max(4, n // 2)))
        order = rng.choice(["ascending", "descending", "random", "random", "ends-low", "ends-low", "ends-high"])
        if order == "ascending":
            sel.sort()
        elif order == "descending":
            sel.sort(reverse=True)
        elif order in ("ends-low", "ends-high"):
            ss = sorted(sel, reverse=order == "ends-high")
            inner = ss[2:]
            rng.shuffle(inner)
            sel = [ss[0]] + inner + [ss[1]]
        how = rng.choice(["substructure", "substructure", "substructure", "heavy"])
        if how == "heavy":
            view, order = m.heavy, "heavy"
        else:
            view = m.substructure([m.atoms[i] for i in sel] if rng.random() < 0.5 else list(sel))
        members = list(view.atoms)
        if len(members) < 2:
            continue
        _ = np.array(view.coords)           # touch the view once before the parent changes
        desc0 = {"molecule": name, "view": how, "member_order": order, "n_selected": len(members)}
        edits = []
        ctx.case(case, dkey=(name, tuple(sel), order, how), nontrivial=True, sample=desc0)
        for rnd in range(2):                # the same view is used again after further edits of its parent
            for _e in range(rng.randrange(1, 3)):
                pos = {id(a): i for i, a in enumerate(m.atoms)}
                mpos = [pos[id(a)] for a in members]
                outsiders = [a for a in m.atoms if not any(a is x for x in members)]
                r = rng.random()
                if r < 0.7 and outsiders:
                    # which rows shift: all members (victim before the first), some (between), none (after the last);
                    # "between-ends": below an inner member but above both end members of the view
                    lo_end, hi_end = min(mpos[0], mpos[-1]), max(mpos[0], mpos[-1])
                    classes = {
                        "before-all": [a for a in outsiders if pos[id(a)] < min(mpos)],
                        "between": [a for a in outsiders if min(mpos) < pos[id(a)] < max(mpos)],
                        "beyond-both-ends": [a for a in outsiders if pos[id(a)] > hi_end and pos[id(a)] < max(mpos)],
                        "below-both-ends": [a for a in outsiders if pos[id(a)] < lo_end],
                        "after-all": [a for a in outsiders if pos[id(a)] > max(mpos)],
                    }
                    names = [c for c in ("between", "between", "beyond-both-ends", "beyond-both-ends", "before-all",
                                         "below-both-ends", "after-all") if classes[c]]
                    cls = rng.choice(names)
                    victim = rng.choice(classes[cls])
                    shifted = sum(1 for q in mpos if q > pos[id(victim)])
                    edits.append(("del_atom", cls, pos[id(victim)]))
                    ctx.count("stale-view.del." + cls)
                    if 0 < shifted < len(mpos):
                        ctx.count("stale-view.del.shifts-some-members")
                    if mpos[0] < pos[id(victim)] and mpos[-1] < pos[id(victim)] and shifted:
                        ctx.count("stale-view.del.shifts-inner-members-only")
                    m.del_atom(victim)
                elif r < 0.9:
                    m.add_atom(Atom("H"), [rng.uniform(-9, 9) for _k in range(3)])
                    edits.append(("add_atom",))
                else:
                    m.translate([0.5, -0.25, 0.125])
                    edits.append(("translate-parent",))
            before = {id(a): np.array(m.coords[i]) for i, a in enumerate(m.atoms)}
            v = np.array([rng.uniform(-3, 3) for _k in range(3)])
            op = rng.choice(["translate", "transform", "coords-setter", "coords-getter"])
            desc = {"op": f"stale-view:{op}", **desc0, "round": rnd, "parent_edits": [list(e) for e in edits]}
            R = random_rotation(rng)
            try:
                if op == "translate":
                    view.translate(v)
                elif op == "transform":
                    view.transform(R)
                elif op == "coords-getter":
                    got = np.array(view.coords)
                else:
                    view.coords = np.array(view.coords) + v
            except Exception as e:  # noqa: BLE001
                ctx.violation(f"stale-view:{op}:raises:{type(e).__name__}", case=case, err=repr(e)[:200], **desc)
                break
            ctx.count("oracle.stale-view")
            if order not in ("ascending", "heavy"):
                ctx.count("oracle.stale-view.unsorted")
            if op == "coords-getter":
                want = np.array([before[id(a)] for a in members])
                if got.shape != want.shape or not np.array_equal(got, want):
                    ctx.violation("stale-view:coords-getter:rows-of-other-atoms-after-parent-edit", case=case, **desc)
                if any(not np.array_equal(m.coords[i], before[id(a)]) for i, a in enumerate(m.atoms)):
                    ctx.violation("stale-view:coords-getter:parent-changed", case=case, **desc)
                continue
            bad_moved, bad_member = None, None
            for i, a in enumerate(m.atoms):
                now = m.coords[i]
                was = before[id(a)]
                if any(a is x for x in members):
                    want = was @ R if op == "transform" else was + v
                    if not np.allclose(now, want, rtol=0, atol=1e-9 * (1 + np.abs(want).max())):
                        bad_member = i
                elif not np.array_equal(now, was):
                    bad_moved = i
            if bad_moved is not None:
                ctx.violation(f"stale-view:{op}:unselected-atom-moved-after-parent-edit", case=case, atom=bad_moved, **desc)
            if bad_member is not None:
                ctx.violation(f"stale-view:{op}:selected-atom-not-moved-as-requested-after-parent-edit", case=case, atom=bad_member, **desc)


KINDS = {"staleview": chunk_staleview, "testsuite": chunk_testsuite, "rotvec": chunk_rotvec, "rotaxis": chunk_rotaxis, "geom": chunk_geom, "ens": chunk_ens,
         "dihedral": chunk_dihedral, "align": chunk_align, "realistic": chunk_realistic}


# =================================================================================================
# parent side: the sense of rotation_matrix_from_axis must be the same in every child of the run

def post(run, results):
    r, l = run.counters.get("rmfa.hand.right", 0), run.counters.get("rmfa.hand.left", 0)
    if r and l:
        run.violations.append({"key": "C11:rotation_matrix_from_axis:sense-not-consistent",
                               "spec": {"kind": "rotaxis", "chunk": 0, "n": 2500}, "case": None,
                               "detail": {"children_right_handed": r, "children_left_handed": l}})
