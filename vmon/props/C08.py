"""
C08 -- xyz round trip and unit handling: coordinates mean what the file says.

Monitor shape: round-trip oracle + differential oracle against an independent unit table.
"""
from __future__ import annotations

ID = "C08"
LEVEL = "exploration"
RULE = ("seeded random geometries (0..60 atoms, all 119 elements incl. Unknown, dummy atoms, coordinates from 1e-7 to 1e12, "
        "negative, -0.0; 1..8 frames) written with dumps_xyz/dump_xyz and read back through loads_xyz / load_xyz (path, "
        "stream) / loads_all_xyz / load_all_xyz for CartesianGeometry, Structure, Molecule, ConformerEnsemble; units: every "
        "member and alias of DistanceUnit x every xyz and mol2 reader entry point that takes source_units, the file's "
        "coordinates re-expressed with an independent conversion table; bundled xyz files. non-trivial = >=2 atoms and "
        "(>=2 frames or a unit other than Angstrom or a coordinate outside [1e-3,1e3]); distinct by (kind, hash)")
ASSUMPTIONS = [
    "coordinates compare within 5.1e-7 + 3e-16*|x| (the 12.6f field; the second term is one ulp of the printed double)",
    "unit conversion compares within 1e-4 relative (molli's Bohr factor has six digits)",
    "the xyz comment line is not required to restore the name (the statement does not list it)",
    "independent table: 1 Bohr = 0.529177210903 A, 1 pm = 0.01 A, 1 nm = 10 A, 1 fm = 1e-5 A",
]
REQUIRED = {"roundtrip.CartesianGeometry": 50, "roundtrip.Structure": 50, "roundtrip.Molecule": 50,
            "roundtrip.ConformerEnsemble": 50, "units.xyz": 300, "units.mol2": 200, "units.members": 7, "bundled": 2, "multi.files": 40,
            "zero-atoms": 3, "roundtrip.fmt-option": 50, "roundtrip.Substructure": 30, "roundtrip.Conformer": 20,
            "roundtrip.ensemble-with-weights": 10}
CHUNK_TIMEOUT = 600
TECHNIQUE = "runtime monitoring: xyz write/read round-trip oracle + unit-conversion differential oracle (independent table)"
LEVEL_TEXT = ("Held on the generated geometries: every object is written and read back through every xyz entry point; every "
              "DistanceUnit member is exercised through every reader that accepts source_units, against coordinates the "
              "harness converted itself.")
LEVEL_NOTE = "Trusted: the harness' own unit table and xyz/mol2 text writer for the unit part; python float parsing."

ANGSTROM_PER = {"A": 1.0, "Angstrom": 1.0, "Bohr": 0.529177210903, "au": 0.529177210903, "fm": 1e-5, "pm": 0.01, "nm": 10.0}


def plan(tier, seed):
    n = 24 if tier == "quick" else 240
    per = 20 if tier == "quick" else 90
    specs = [{"kind": "rt", "chunk": i, "n": per, "cls": ["CartesianGeometry", "Structure", "Molecule", "ConformerEnsemble"][i % 4]}
             for i in range(n)]
    specs += [{"kind": "multi", "chunk": i, "n": 10 if tier == "quick" else 40} for i in range(8 if tier == "quick" else 32)]
    nu = 8 if tier == "quick" else 64
    specs += [{"kind": "units", "chunk": i, "n": 6 if tier == "quick" else 30} for i in range(nu)]
    specs.append({"kind": "bundled"})
    return specs


def run_chunk(spec, ctx):
    {"rt": run_rt, "units": run_units, "bundled": run_bundled, "multi": run_multi}[spec["kind"]](spec, ctx)


def rand_coords(rng, n):
    import numpy as np

    mode = rng.random()
    scale = 5.0
    if mode < 0.12:
        scale = 1e-6
    elif mode < 0.24:
        scale = 1e5
    elif mode < 0.30:
        scale = 1e11
    c = np.array([[rng.gauss(0, scale) for _ in range(3)] for _ in range(n)], dtype=float).reshape(n, 3)
    if n and rng.random() < 0.2:
        c[rng.randrange(n), rng.randrange(3)] = rng.choice([-0.0, 0.0, 1e-7, -1e-7, 1e12, -123456.654321])
    return c


NAME_WORDS = ["g", "name with spaces", "ünicode", "x" * 40, "12", "", "   ", "7", "Au 2", "bohr", "Bohr", "a.u.", "au", "pm", "nm 3",
              "angstrom", "units=pm", "#17", "# remark", "@<TRIPOS>MOLECULE", "*", "$end", "3", "C 0.0 0.0 0.0", "1.0 2.0 3.0",
              "H", "He 1 2 3", "-", "e=-12.5 hartree", "frame 3 of 7", "\ttab", "D", "line one\nline two", "junk\nC 9 9 9",
              "trailing newline\n"]


def gen_name(rng):
    r = rng.random()
    if r < 0.75:
        return rng.choice(NAME_WORDS)
    return " ".join(rng.choice(NAME_WORDS[:30]).strip() or "q" for _ in range(rng.randrange(2, 4)))


def fmt_tolerance(fmt, value):
    """half a unit of the last digit the format writes (fixed and exponent notation)"""
    import math

    prec = int(fmt.split(".")[1][:-1])
    if fmt.endswith("f"):
        return 0.51 * 10.0 ** -prec + 3e-16 * abs(value)
    if value == 0 or not math.isfinite(value):
        return 0.0
    return 0.51 * 10.0 ** (math.floor(math.log10(abs(value))) - prec) * 1.0000001


def make_geometry(rng, cls_name, n=None):
    import numpy as np
    import molli as ml
    from molli.chem import Atom, AtomType, Element

    cls = getattr(ml, cls_name)
    n = rng.choice([0, 1, 2, 3, 7, 20, 60]) if n is None else n
    atoms = []
    for i in range(n):
        r = rng.random()
        # the other per-atom fields are set as well: nothing but the element may reach the element column
        kw = {}
        if rng.random() < 0.5:
            kw["label"] = rng.choice(["CA", "CB", "OG1", "H12", "Cl2", "N", "x", "D", "T", "*", "7", ""])
        if rng.random() < 0.3:
            kw["isotope"] = rng.choice([1, 2, 3, 13, 15, 18])
        if rng.random() < 0.3:
            kw["formal_charge"] = rng.choice([-2, -1, 1, 2])
        if rng.random() < 0.2:
            kw["attrib"] = {"k": i}
        if r < 0.08:
            atoms.append(Atom(Element.Unknown, atype=AtomType.Dummy, **kw))
        elif r < 0.16:
            atoms.append(Atom(rng.choice(list(Element)), atype=AtomType.Dummy, **kw))     # a dummy-typed atom that has an element
        else:
            atoms.append(Atom(rng.choice(list(Element)), **kw))
    c = rand_coords(rng, n) if n else None
    if n and rng.random() < 0.1:
        # positions that are not known (yet): NaN rows, as append_atom and ConformerEnsemble(mol, n_conformers=k) leave them
        for i in rng.sample(range(n), rng.randrange(1, n + 1)):
            c[i] = np.nan
    g = cls(atoms, name=gen_name(rng), coords=c)
    if cls_name in ("Structure", "Molecule") and n >= 2:
        for _ in range(rng.randrange(0, n)):
            i, j = rng.sample(range(n), 2)
            if g.lookup_bond(i, j) is None:
                g.connect(i, j)
    return g


def coords_equal(a, b):
    import numpy as np

    a, b = np.asarray(a, float), np.asarray(b, float)
    if a.shape != b.shape:
        return False, "shape"
    with np.errstate(invalid="ignore"):
        ok = (np.isnan(a) & np.isnan(b)) | (np.abs(a - b) <= 5.1e-7 + 3e-16 * np.abs(a))
    if ok.all():
        return True, None
    i = tuple(np.argwhere(~ok)[0])
    return False, {"index": [int(x) for x in i], "want": float(a[i]), "got": float(b[i])}


def compare_geom(ctx, case, tag, src_elements, src_coords, got):
    els = [int(a.element) for a in got.atoms]
    if len(els) != len(src_elements):
        ctx.violation(f"{tag}:atom-count-differs", case=case, want=len(src_elements), got=len(els))
        return False
    if els != src_elements:
        i = next(i for i, (a, b) in enumerate(zip(els, src_elements)) if a != b)
        ctx.violation(f"{tag}:element-differs", case=case, index=i, want=src_elements[i], got=els[i])
        return False
    ok, why = coords_equal(src_coords, got.coords)
    if not ok:
        ctx.violation(f"{tag}:coordinates-differ-beyond-written-precision" if why != "shape" else f"{tag}:coords-shape-differs",
                      case=case, detail=why)
        return False
    return True


def run_rt(spec, ctx):
    import io
    import numpy as np
    import molli as ml
    from vmon.snap import snap, snap_hash, brief

    cname = spec["cls"]
    for j in range(spec["n"]):
        case = (spec["chunk"], j)
        if not ctx.want(case):
            continue
        rng = ctx.rng(*case)
        ctx.count(f"roundtrip.{cname}")
        if cname == "ConformerEnsemble":
            base = make_geometry(rng, "Molecule", n=rng.choice([1, 2, 5, 13]) if j % 7 else 0)
            nc = rng.randrange(1, 9)
            x = ml.ConformerEnsemble(base, n_conformers=nc)
            x.coords = np.array([rand_coords(rng, base.n_atoms) for _ in range(nc)]).reshape(nc, base.n_atoms, 3)
            if rng.random() < 0.6:
                # every conformer is a frame of the file, whatever its weight or charges
                x.weights = np.array([rng.choice([0.0, 1.0, 0.25, -1.0, 1e-12]) for _ in range(nc)])
                x.atomic_charges = np.array([[rng.uniform(-1, 1) for _ in range(base.n_atoms)] for _ in range(nc)]).reshape(nc, base.n_atoms)
                ctx.count("roundtrip.ensemble-with-weights")
            frames = [np.array(x.coords[i]) for i in range(nc)]
        else:
            x = make_geometry(rng, cname, n=0 if j % 11 == 0 else None)
            frames = [np.array(x.coords)]
        if x.n_atoms == 0:
            ctx.count("zero-atoms")
        els = [int(a.element) for a in x.atoms]
        big = bool(len(frames) and frames[0].size and (np.nanmax(np.abs(frames[0])) > 1e3 or np.nanmax(np.abs(frames[0])) < 1e-3))
        ctx.case(case, dkey=(cname, snap_hash(snap(x))), nontrivial=x.n_atoms >= 2 and (len(frames) >= 2 or big), sample=brief(x))
        tag = cname
        try:
            text = x.dumps_xyz()
            buf = io.StringIO()
            x.dump_xyz(buf)
            if buf.getvalue() != text:
                ctx.violation(f"{tag}:dump-to-stream-differs-from-dumps", case=case)
        except Exception as e:  # noqa
            ctx.violation(f"{tag}:write-raises:{type(e).__name__}", case=case, err=repr(e)[:200], obj=brief(x))
            continue
        cls = getattr(ml, cname)
        p = ctx.tmp / f"g{j}.xyz"
        p.write_text(text)
        routes = [("loads_xyz", lambda: cls.loads_xyz(text)), ("load_xyz-path", lambda: cls.load_xyz(p)),
                  ("load_xyz-str-path", lambda: cls.load_xyz(str(p))),
                  ("load_xyz-stream", lambda: cls.load_xyz(io.StringIO(text)))]
        if cname != "ConformerEnsemble":
            routes += [("loads_all_xyz", lambda: cls.loads_all_xyz(text)), ("load_all_xyz-path", lambda: cls.load_all_xyz(p))]
        for rname, fn in routes:
            try:
                y = fn()
            except Exception as e:  # noqa
                ctx.violation(f"{tag}:{rname}:own-text-rejected:{type(e).__name__}:{'zero-atoms' if x.n_atoms == 0 else 'atoms'}",
                              case=case, err=repr(e)[:200], n_atoms=x.n_atoms, frames=len(frames))
                continue
            if cname == "ConformerEnsemble":
                if y.n_conformers != len(frames):
                    ctx.violation(f"{tag}:{rname}:frame-count-differs", case=case, want=len(frames), got=y.n_conformers)
                    continue
                for i, fr in enumerate(frames):
                    if not compare_geom(ctx, case, f"{tag}:{rname}:frame", els, fr, y[i]):
                        break
            elif "all" in rname:
                if not isinstance(y, list) or len(y) != 1:
                    ctx.violation(f"{tag}:{rname}:frame-count-differs", case=case, got=len(y) if hasattr(y, "__len__") else repr(type(y)))
                    continue
                compare_geom(ctx, case, f"{tag}:{rname}", els, frames[0], y[0])
            else:
                compare_geom(ctx, case, f"{tag}:{rname}", els, frames[0], y)
        # the writer's own precision option: what comes back agrees to the precision that was WRITTEN
        if cname != "ConformerEnsemble" and x.n_atoms:
            F = rng.choice(["18.12f", "10.3f", "14.8f", "20.12e", "16.6e", "12.1f"])
            ctx.count("roundtrip.fmt-option")
            try:
                buf = io.StringIO()
                x.dump_xyz(buf, fmt=F)
                y = cls.loads_xyz(buf.getvalue())
            except Exception as e:  # noqa
                ctx.violation(f"{tag}:fmt-option:own-text-rejected-or-write-raises:{type(e).__name__}", case=case, fmt=F, err=repr(e)[:200])
            else:
                a, b = np.asarray(frames[0], float), np.asarray(y.coords, float)
                if a.shape != b.shape or [int(q.element) for q in y.atoms] != els:
                    ctx.violation(f"{tag}:fmt-option:atoms-differ", case=case, fmt=F)
                else:
                    tol = np.vectorize(lambda v: fmt_tolerance(F, v))(a) if a.size else a
                    with np.errstate(invalid="ignore"):
                        okm = (np.isnan(a) & np.isnan(b)) | (np.abs(a - b) <= tol) | (a == b)
                    if not okm.all():
                        i = tuple(np.argwhere(~okm)[0])
                        ctx.violation(f"{tag}:fmt-option:coordinates-differ-beyond-written-precision", case=case, fmt=F,
                                      want=float(a[i]), got=float(b[i]))
        # every geometry-like object can be written: a Substructure (mol.heavy, mol.substructure(...)), a single Conformer
        if cname in ("Structure", "Molecule") and x.n_atoms >= 1:
            idx = rng.sample(range(x.n_atoms), rng.randrange(1, x.n_atoms + 1))
            ctx.count("roundtrip.Substructure")
            try:
                sub = ml.Substructure(x, idx)
                y = ml.Structure.loads_xyz(sub.dumps_xyz())
            except Exception as e:  # noqa
                ctx.violation(f"Substructure:write-or-read-back-raises:{type(e).__name__}", case=case, err=repr(e)[:200])
            else:
                compare_geom(ctx, case, "Substructure:loads_xyz", [els[i] for i in idx], frames[0][idx], y)
        if cname == "ConformerEnsemble" and x.n_atoms >= 1:
            i = rng.randrange(len(frames))
            ctx.count("roundtrip.Conformer")
            try:
                y = ml.Molecule.loads_xyz(x[i].dumps_xyz())
            except Exception as e:  # noqa
                ctx.violation(f"Conformer:write-or-read-back-raises:{type(e).__name__}", case=case, err=repr(e)[:200])
            else:
                compare_geom(ctx, case, "Conformer:loads_xyz", els, frames[i], y)
        # multi-frame text through the *_all readers of the single-geometry classes
        if cname == "ConformerEnsemble" and len(frames) >= 2:
            for kls in (ml.CartesianGeometry, ml.Structure, ml.Molecule):
                try:
                    ys = kls.loads_all_xyz(text)
                except Exception as e:  # noqa
                    ctx.violation(f"{kls.__name__}:loads_all_xyz:own-multiframe-text-rejected:{type(e).__name__}", case=case)
                    continue
                if len(ys) != len(frames):
                    ctx.violation(f"{kls.__name__}:loads_all_xyz:frame-count-differs", case=case, want=len(frames), got=len(ys))
                    continue
                for i, fr in enumerate(frames):
                    if not compare_geom(ctx, case, f"{kls.__name__}:loads_all_xyz:frame", els, fr, ys[i]):
                        break


def run_multi(spec, ctx):
    """one xyz text holding several DIFFERENT geometries (equal and unequal atom counts, different elements)"""
    import io
    import molli as ml

    for j in range(spec["n"]):
        case = ("multi", spec["chunk"], j)
        if not ctx.want(case):
            continue
        rng = ctx.rng(*case)
        k = rng.randrange(2, 6)
        same_size = rng.random() < 0.7
        n0 = rng.choice([1, 2, 3, 5, 9])
        geoms = [make_geometry(rng, "CartesianGeometry", n=n0 if same_size else rng.choice([1, 2, 3, 5, 9])) for _ in range(k)]
        text = "".join(g.dumps_xyz() for g in geoms)
        p = ctx.tmp / f"multi{j}.xyz"
        p.write_text(text)
        ctx.count("multi.files")
        ctx.case(case, dkey=text, nontrivial=True, sample={"frames": k, "atoms": [g.n_atoms for g in geoms], "same_size": same_size})
        for kls in (ml.CartesianGeometry, ml.Structure, ml.Molecule):
            for rname, fn in (("loads_all_xyz", lambda: kls.loads_all_xyz(text)), ("load_all_xyz-path", lambda: kls.load_all_xyz(p)),
                              ("load_all_xyz-stream", lambda: kls.load_all_xyz(io.StringIO(text))),
                              ("yield_from_xyz", lambda: list(kls.yield_from_xyz(io.StringIO(text))))):
                try:
                    ys = fn()
                except Exception as e:  # noqa
                    ctx.violation(f"{kls.__name__}:{rname}:own-multi-geometry-text-rejected:{type(e).__name__}", case=case, err=repr(e)[:200])
                    continue
                if len(ys) != k:
                    ctx.violation(f"{kls.__name__}:{rname}:frame-count-differs", case=case, want=k, got=len(ys))
                    continue
                for g, y in zip(geoms, ys):
                    if not compare_geom(ctx, case, f"{kls.__name__}:{rname}:frame", [int(a.element) for a in g.atoms], g.coords, y):
                        break
            # the single-geometry readers return the FIRST geometry
            y0 = kls.loads_xyz(text)
            compare_geom(ctx, case, f"{kls.__name__}:loads_xyz:first-frame", [int(a.element) for a in geoms[0].atoms], geoms[0].coords, y0)


# ------------------------------------------------------------------------------------------------
# units

def xyz_text(symbols, frames):
    out = []
    for fr in frames:
        out.append(f"{len(symbols)}\nframe\n")
        for s, (x, y, z) in zip(symbols, fr):
            out.append(f"{s:<4} {x:.10f} {y:.10f} {z:.10f}\n")
    return "".join(out)


def mol2_text(symbols, frames, bonds):
    out = []
    for fr in frames:
        out.append(f"@<TRIPOS>MOLECULE\nunits\n{len(symbols)} {len(bonds)} 0 0 0\nSMALL\nUSER_CHARGES\n\n@<TRIPOS>ATOM\n")
        for i, (s, (x, y, z)) in enumerate(zip(symbols, fr)):
            out.append(f"{i + 1} {s}{i + 1} {x:.10f} {y:.10f} {z:.10f} {s} 1 UNL1 0.100\n")
        out.append("@<TRIPOS>BOND\n")
        for k, (i, j) in enumerate(bonds):
            out.append(f"{k + 1} {i + 1} {j + 1} 1\n")
    return "".join(out)


def run_units(spec, ctx):
    import io
    import numpy as np
    import molli as ml
    from molli.chem import DistanceUnit

    members = list(DistanceUnit.__members__)      # names incl. aliases
    for u in members:
        if u not in ANGSTROM_PER:
            ctx.violation("units:unknown-distance-unit-member", case=("member", u), member=u)
    if spec["chunk"] == 0:
        ctx.count("units.members", len(members))
    syms = ["C", "N", "O", "H", "S", "Fe", "Cl"]
    for j in range(spec["n"]):
        rng = ctx.rng(spec["chunk"], j)
        n = rng.choice([2, 3, 6, 12])
        symbols = [rng.choice(syms) for _ in range(n)]
        nfr = rng.choice([1, 1, 3])
        g = [np.array([[rng.uniform(-8, 8) for _ in range(3)] for _ in range(n)]) for _ in range(nfr)]   # in Angstrom
        bonds = [(i, i + 1) for i in range(n - 1)]
        for u in members:
            if u not in ANGSTROM_PER:
                continue
            case = (spec["chunk"], j, u)
            if not ctx.want(case):
                continue
            in_u = [fr / ANGSTROM_PER[u] for fr in g]          # the same geometry expressed in unit u
            tx, tm = xyz_text(symbols, in_u), mol2_text(symbols, in_u, bonds)
            px, pm = ctx.tmp / f"u{j}.xyz", ctx.tmp / f"u{j}.mol2"
            px.write_text(tx)
            pm.write_text(tm)
            ctx.case(case, dkey=(u, n, nfr, j, spec["chunk"]), nontrivial=ANGSTROM_PER[u] != 1.0,
                     sample={"unit": u, "n_atoms": n, "frames": nfr})
            readers = []
            for kls in (ml.CartesianGeometry, ml.Structure, ml.Molecule):
                readers += [("xyz", f"{kls.__name__}.loads_xyz", lambda k=kls: [k.loads_xyz(tx, source_units=u)]),
                            ("xyz", f"{kls.__name__}.load_xyz", lambda k=kls: [k.load_xyz(px, source_units=u)]),
                            ("xyz", f"{kls.__name__}.loads_all_xyz", lambda k=kls: k.loads_all_xyz(tx, source_units=u)),
                            ("xyz", f"{kls.__name__}.load_all_xyz", lambda k=kls: k.load_all_xyz(io.StringIO(tx), source_units=u))]
            for kls in (ml.Structure, ml.Molecule):
                readers += [("mol2", f"{kls.__name__}.loads_mol2", lambda k=kls: [k.loads_mol2(tm, source_units=u)]),
                            ("mol2", f"{kls.__name__}.load_mol2", lambda k=kls: [k.load_mol2(pm, source_units=u)]),
                            ("mol2", f"{kls.__name__}.loads_all_mol2", lambda k=kls: k.loads_all_mol2(tm, source_units=u)),
                            ("mol2", f"{kls.__name__}.load_all_mol2", lambda k=kls: k.load_all_mol2(io.StringIO(tm), source_units=u))]
            # the generator forms and the deprecated (still public) text entry point take the unit as well
            for kls in (ml.CartesianGeometry, ml.Structure, ml.Molecule):
                if hasattr(kls, "yield_from_xyz"):
                    readers.append(("xyz", f"{kls.__name__}.yield_from_xyz(all)",
                                    lambda k=kls: list(k.yield_from_xyz(io.StringIO(tx), source_units=u))))
            for kls in (ml.Structure, ml.Molecule):
                if hasattr(kls, "yield_from_mol2"):
                    readers.append(("mol2", f"{kls.__name__}.yield_from_mol2(all)",
                                    lambda k=kls: list(k.yield_from_mol2(io.StringIO(tm), source_units=u))))
            ens_readers = [("xyz", "ConformerEnsemble.load_xyz", lambda: ml.ConformerEnsemble.load_xyz(px, source_units=u)),
                           ("xyz", "ConformerEnsemble.loads_xyz", lambda: ml.ConformerEnsemble.loads_xyz(tx, source_units=u)),
                           ("mol2", "ConformerEnsemble.load_mol2", lambda: ml.ConformerEnsemble.load_mol2(pm, source_units=u)),
                           ("mol2", "ConformerEnsemble.loads_mol2", lambda: ml.ConformerEnsemble.loads_mol2(tm, source_units=u))]
            if hasattr(ml.ConformerEnsemble, "from_mol2"):
                def _from_mol2():
                    import warnings
                    with warnings.catch_warnings():
                        warnings.simplefilter("ignore")
                        return ml.ConformerEnsemble.from_mol2(tm, source_units=u)
                ens_readers.append(("mol2", "ConformerEnsemble.from_mol2", _from_mol2))
            for fmt, rname, fn in readers:
                ctx.count(f"units.{fmt}")
                try:
                    ys = fn()
                except Exception as e:  # noqa
                    ctx.violation(f"units:{fmt}:{rname}:raises:{type(e).__name__}", case=case, unit=u, err=repr(e)[:200])
                    continue
                if len(ys) != (nfr if "all" in rname else 1):
                    ctx.violation(f"units:{fmt}:{rname}:frame-count-differs", case=case, unit=u, got=len(ys))
                    continue
                for fr, y in zip(g, ys):
                    judge_units(ctx, case, fmt, rname, u, fr, np.asarray(y.coords))
            for fmt, rname, fn in ens_readers:
                ctx.count(f"units.{fmt}")
                try:
                    e = fn()
                except Exception as ex:  # noqa
                    ctx.violation(f"units:{fmt}:{rname}:raises:{type(ex).__name__}", case=case, unit=u, err=repr(ex)[:200])
                    continue
                if e.n_conformers != nfr:
                    ctx.violation(f"units:{fmt}:{rname}:frame-count-differs", case=case)
                    continue
                for i, fr in enumerate(g):
                    judge_units(ctx, case, fmt, rname, u, fr, np.asarray(e.coords[i]))


def judge_units(ctx, case, fmt, rname, u, want, got):
    import numpy as np

    if got.shape != want.shape:
        ctx.violation(f"units:{fmt}:{rname}:shape-differs", case=case, unit=u)
        return
    err = np.abs(got - want)
    if (err <= 1e-4 * np.abs(want) + 1e-6).all():
        return
    # name the mechanism: which factor relates what was loaded to the truth?
    with np.errstate(divide="ignore", invalid="ignore"):
        ratio = float(np.nanmedian(got[np.abs(want) > 1e-3] / want[np.abs(want) > 1e-3]))
    f = 1.0 / ANGSTROM_PER[u]
    if abs(ratio - f * f) <= 1e-3 * f * f:
        how = "scaled-in-the-wrong-direction"
    elif abs(ratio - f) <= 1e-3 * f:
        how = "not-converted"
    else:
        how = "wrong-factor"
    ctx.violation(f"units:{fmt}:{how}:{rname.split('.')[0]}.{'loads' if 'loads' in rname else 'load'}", case=case, unit=u,
                  reader=rname, ratio_loaded_over_true=ratio, expected_ratio=1.0)


def run_bundled(spec, ctx):
    import molli as ml

    for f in ["dendrobine.xyz", "pentane_confs.xyz", "dummy.xyz"]:
        p = ml.files.ROOT / f
        case = ("bundled", f)
        if not p.exists() or not ctx.want(case):
            continue
        ctx.count("bundled")
        for kls in (ml.CartesianGeometry, ml.Structure, ml.Molecule):
            ys = kls.load_all_xyz(p)
            text = "".join(y.dumps_xyz() for y in ys)
            zs = kls.loads_all_xyz(text)
            ctx.case(case + (kls.__name__,), dkey=(f, kls.__name__), nontrivial=True, sample={"file": f, "frames": len(ys)})
            if len(zs) != len(ys):
                ctx.violation(f"bundled:{kls.__name__}:frame-count-differs", case=case)
                continue
            for y, z in zip(ys, zs):
                if not compare_geom(ctx, case, f"bundled:{kls.__name__}", [int(a.element) for a in y.atoms], y.coords, z):
                    break
        e = ml.ConformerEnsemble.load_xyz(p)
        e2 = ml.ConformerEnsemble.loads_xyz(e.dumps_xyz())
        if e2.n_conformers != e.n_conformers:
            ctx.violation("bundled:ConformerEnsemble:frame-count-differs", case=case)
        else:
            for i in range(e.n_conformers):
                if not compare_geom(ctx, case, "bundled:ConformerEnsemble", [int(a.element) for a in e.atoms], e.coords[i], e2[i]):
                    break
