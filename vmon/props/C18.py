"""
C18 -- jobmap computes each item once, reuses only valid results, resumes cleanly.

Monitor shape: executable reference model (vmon/models/jobmapmodel.py) stepped beside the real
`molli.pipeline.jobmap` / `jobmap_sge`, plus an execution log written by the scripted commands themselves.

One history = 1..4 real jobmap runs over a small library with a test driver declared exactly like molli's own
drivers (`@Job(return_files=...).prep` / `.post`, `Job.vectorize` + `.reduce`).  Two driver shapes:

  A  one named command per job; the command text spells out item, conformer and argument; two return files (one of
     them empty, in a sub-directory); the item travels in the command line.
  B  1-3 commands per job, named and unnamed ones, `sh ./run.sh <step>`: the command lines are the same for every
     argument and every content of the item - script, argument and item content travel in JobInput.files only;
     the job is declared with Job() / return_files=() (result parsed from the stdout of the main command) or with
     one or three return files; the failure may sit on the main command (with later commands that would succeed)
     or on an auxiliary one (before or after the main command); the post step raises on an unparsable result.

Every command appends one line to counters/<job> (outside the scratch tree) and then behaves according to its
attempt number.  After every run the harness compares, against the model,
    * executions per job in this run (lines added to its counter file): exactly the expected 0 or 1,
    * the destination library read back through a fresh handle: exactly the expected keys, each value being the
      processed output of that very item (job, arguments, item content, attempt recorded by the command itself),
    * destination-only keys and the other destination libraries: unchanged,
    * the call returned normally.
A history stops at its first violating run (afterwards the real state no longer follows the model).

Library keys differ from the names of the objects stored under them in most histories (two of them swapped); the
runs of a history are issued in-process or each from its own interpreter (own PYTHONHASHSEED); through `jobmap`
or through `jobmap_sge` with stand-ins for qsub (runs the submitted script at once) and qstat (knows no job) put
first on PATH; with strict_hash True / False; cache_dir absolute / relative / str / Path / default, scratch_dir
str / Path.
"""
from __future__ import annotations

import json
import os
import random
import shlex
import shutil
import subprocess
import sys
import traceback
from pathlib import Path

ID = "C18"
LEVEL = "exploration"
TECHNIQUE = ("runtime monitoring: reference model of jobmap (destination map + cache map) stepped beside real runs; "
             "exactly-once accounting from counter files written by the scripted commands")
RULE = ("seeded histories of 1-4 real jobmap runs over libraries of 2-5 items, MoleculeLibrary single jobs and "
        "ConformerLibrary vectorised jobs (1-3 conformers; directed histories with 11-13), nine profiles (resume "
        "after failures / destination-only keys / argument change with fresh destination / cache reuse with fresh "
        "destination / cache files deleted, corrupted, copied from another job, exit code, hash or files rewritten "
        "or removed / random mix incl. a killed runner / pure cache run into a fresh destination / item edited in "
        "the source between runs / many conformers), two driver shapes (A: one named command spelling out the "
        "item; B: 1-3 named/unnamed commands, constant command lines, everything in JobInput.files, 0/1/3 return "
        "files, post step that raises), per-job scripts keyed on the attempt number (ok, fail with and without "
        "return file, omit return file, auxiliary command fails, unparsable result, succeed on n-th attempt), "
        "keys != object names, runs in-process or one interpreter per run, jobmap or jobmap_sge (qsub/qstat "
        "stand-ins), strict_hash True/False, cache_dir/scratch_dir argument forms, n_workers 1-4, keyword and "
        "positional job arguments, source growing between runs; one history per child process with a watchdog; "
        "non-trivial = at least 2 runs and some later run has both a job to skip and a job to execute (or "
        "nothing to execute and items to deliver from the cache); distinct by the canonical JSON of the history")
ASSUMPTIONS = [
    "a run counts as succeeded iff all its commands exited 0 and every requested return file exists (the "
    "definition _molli_run applies to its own exit status); only such a run may be reused or processed",
    "two prepared inputs are 'the same input' iff same item (and conformer), same job arguments and same content "
    "of the item; driver A spells them into the command text, driver B ships them in JobInput.files only",
    "the test drivers' post steps, like molli's own drivers, only read the return file / the stdout of the main "
    "command and do not look at the exit code; they raise KeyError when the file is missing and ValueError / "
    "IndexError when the text is not a result record; an item whose post step raises is not stored, the others are",
    "an output with exit code 0 and all requested files is a 'success' for the cache even when the driver's post "
    "step cannot parse it: it is not executed again (same hash, success)",
    "cache files are located by searching below the cache home for '<key>.out' / '<key>.<i>.out' (no layout is "
    "hard-coded); they are only touched by the tamper steps, never used by the oracle",
    "strict_hash=False is only used in histories in which every cached output stems from the same input "
    "(no argument change, edit or tampering): 'hash not compared, everything else as before'",
    "jobmap_sge is driven with stand-ins for qsub (cat > file; sh file; echo id) and qstat (exit 1) found first "
    "on PATH; nothing else of the function is replaced",
    "a history is abandoned after its first violating run",
]
EXHAUSTIVE = False
WATCHDOG = 900          # per history, seconds; expiry => inconclusive (never a verdict)
CHUNK_TIMEOUT = WATCHDOG

PROFILES = ("resume", "destonly", "argchange", "reuse", "tamper", "random")
KINDS = ("single", "vector")
NONSTRICT_OK = ("resume", "destonly", "reuse", "purecache", "big")
CACHE_FORMS = ("abs-path", "abs-str", "rel-str", "rel-path", "default")
RETFILES = {"A": ("result.txt", "logs/warnings.log"), "none": None, "empty": (), "one": ("result.txt",),
            "three": ("result.txt", "b.log", "c.dat")}

# directed histories: (driver, kind, profile, fixed decorations)
DIRECTED = [
    ("A", "single", "purecache", {}),
    ("A", "vector", "purecache", {"proc": True}),
    ("B", "single", "purecache", {"retfiles": "one", "entry": "jobmap"}),
    ("B", "vector", "purecache", {"retfiles": "none", "proc": True, "entry": "jobmap"}),
    ("B", "single", "purecache", {"retfiles": "empty", "entry": "sge"}),
    ("B", "vector", "purecache", {"retfiles": "three", "entry": "sge"}),
    ("B", "single", "edit", {"retfiles": "three", "proc": True}),
    ("B", "single", "edit", {"retfiles": "none", "proc": False}),
    ("B", "vector", "edit", {"retfiles": "one", "entry": "jobmap"}),
    ("B", "vector", "edit", {"retfiles": "empty", "entry": "sge"}),
    ("B", "vector", "big", {"retfiles": "three", "proc": True, "entry": "jobmap"}),
    ("A", "vector", "big", {"proc": False, "entry": "jobmap"}),
    ("B", "vector", "big", {"retfiles": "one", "entry": "sge"}),
    ("A", "single", "resume", {"entry": "sge", "transition": 0}),
    ("A", "vector", "resume", {"entry": "sge", "transition": 3}),
    ("B", "single", "resume", {"entry": "sge", "retfiles": "one"}),
    ("A", "single", "resume", {"strict": False, "entry": "jobmap", "transition": 6}),
    ("B", "single", "reuse", {"strict": False, "retfiles": "one", "entry": "jobmap"}),
    ("B", "vector", "resume", {"strict": False, "retfiles": "three", "proc": True}),
]


def REQUIRED(tier):
    k = 1 if tier == "quick" else 8
    kd = 1 if tier == "quick" else 3        # counters fed by the directed histories (4 repetitions in thorough)
    return {
        "run.checked": 60 * k,
        "history.single.completed": 10 * k, "history.vector.completed": 10 * k,
        "job.skip.in-destination": 20 * k, "job.skip.valid-cache": 20 * k,
        "job.exec.no-cache": 40 * k, "job.exec.cache-other-input": 8 * k, "job.exec.cache-failed-exit": 8 * k,
        "job.exec.cache-missing-return-file": 4 * k, "job.exec.cache-unreadable": 3 * k,
        "item.gained-now": 30 * k, "item.gained-from-cache": 8 * k, "item.absent": 15 * k, "item.kept": 15 * k,
        "item.vector.gained-mixed": 2 * k,
        "dest.only-key-preserved": 6 * k, "dest.other-unchanged": 20 * k,
        "outcome.ok": 40 * k, "outcome.fail_file": 8 * k, "outcome.fail_nofile": 8 * k, "outcome.omit": 6 * k,
        "tamper.applied": 8 * k, "jobmap.returned": 60 * k,
        # --- added after the gap review
        # a run with nothing to execute and whole items to deliver from the cache
        "run.nothing-to-execute.gained-from-cache": 6 * kd,
        # second driver shape: multi-command jobs, unnamed commands, failure on / next to the main command
        "history.driver-B.completed": 15 * k, "cmd.multi-command-job-executed": 80 * k,
        "cmd.main-unnamed-executed": 30 * k, "cmd.main-failed.commands-behind-it": 8 * k,
        "outcome.aux_fail": 10 * k, "cmd.aux-failed.unnamed.before-main": 4 * k,
        # jobs without return files (Job() and return_files=()), one and three files
        "run.return-files.0": 6 * k, "run.return-files.0.empty-tuple": 6 * k, "run.return-files.3": 10 * k,
        "item.gained.no-return-files": 20 * k,
        # inputs that differ in JobInput.files only (item edited in the source between two runs)
        "job.exec.cache-other-input-files-only": 4 * kd,
        # a post step that raises for one item; the stored output stays a valid cache entry
        "outcome.unparsable": 10 * k, "item.absent-post-raises": 20 * k, "job.skip.valid-cache-unparsable": 8 * k,
        # keys that are not the names of the objects
        "run.keys-differ-from-names": 50 * k, "item.gained.key-differs-from-name": 80 * k,
        # ensembles with >= 11 conformers, resumed and delivered from the cache
        "item.vector.many-conformers.gained-mixed": 1 * kd, "item.vector.many-conformers.gained-from-cache": 1 * kd,
        # runs issued from interpreters of their own; reuse of what another process cached
        "run.own-interpreter": 40 * k, "job.skip.valid-cache.cached-by-another-process": 40 * k,
        # strict_hash=False, jobmap_sge, argument forms
        "run.strict-hash.off": 20 * k, "run.entry.sge": 25 * k,
        "outcome.omit.strict-hash-off": 5 * k, "outcome.fail_file.strict-hash-off": 5 * k,
        "run.cache-dir.abs-str": 15 * k, "run.cache-dir.rel-str": 15 * k, "run.cache-dir.rel-path": 15 * k,
        "run.cache-dir.default": 15 * k, "run.scratch-dir.str": 40 * k,
        # stored outputs without hash / exit code / files
        "tamper.nohash": 1 * k, "tamper.noexit": 1 * k, "tamper.nofiles": 1 * k,
    }


def _spread(specs, tag, options, pick=lambda s: True):
    """seed-independent, evenly spread assignment of one decoration over the histories that do not fix it"""
    todo = [s for s in specs if tag not in s["deco"] and pick(s)]
    order = list(range(len(todo)))
    random.Random(f"c18/{tag}").shuffle(order)
    for r, i in enumerate(order):
        todo[i]["deco"][tag] = options[r % len(options)]


def plan(tier, seed):
    quick = tier == "quick"
    n = 48 if quick else 576
    specs = []
    for i in range(n):
        specs.append({"hist": i, "driver": "A", "kind": KINDS[i % 2], "profile": PROFILES[(i // 2) % len(PROFILES)],
                      "timeout": WATCHDOG, "deco": {}})
    # the resume histories walk through all nine (unsuccessful, unsuccessful) outcome transitions of one item
    extra = 0
    for sp in specs:
        if sp["profile"] == "resume":
            sp["transition"] = extra
            extra += 1
    for t in range(extra, 9):          # quick has 8 resume histories: add what is missing so that all 9 pairs occur
        specs.append({"hist": n + t, "driver": "A", "kind": KINDS[t % 2], "profile": "resume", "transition": t,
                      "timeout": WATCHDOG, "deco": {}})
    # the second driver shape
    nb = 24 if quick else 192
    for i in range(nb):
        specs.append({"hist": 10000 + i, "driver": "B", "kind": KINDS[i % 2],
                      "profile": PROFILES[(i // 2) % len(PROFILES)], "timeout": WATCHDOG, "deco": {}})
    # directed histories
    for rep in range(1 if quick else 4):
        for i, (drv, kind, prof, deco) in enumerate(DIRECTED):
            deco = dict(deco)
            sp = {"hist": 20000 + 100 * rep + i, "driver": drv, "kind": kind, "profile": prof, "timeout": WATCHDOG}
            if "transition" in deco:
                sp["transition"] = deco.pop("transition") + rep
            sp["deco"] = deco
            specs.append(sp)
    A = [s for s in specs if s["driver"] == "A"]
    B = [s for s in specs if s["driver"] == "B"]
    for s in A:
        s["deco"]["retfiles"] = "A"
    _spread(A, "proc", [False, True, False])
    _spread(B, "proc", [True, False])
    _spread(A, "entry", ["jobmap", "jobmap", "jobmap", "sge"])
    _spread(B, "entry", ["jobmap", "sge", "jobmap", "jobmap"])
    _spread(A, "strict", [True, True, False], lambda s: s["profile"] in NONSTRICT_OK)
    _spread(B, "strict", [True, False], lambda s: s["profile"] in NONSTRICT_OK)
    _spread(specs, "cacheform", list(CACHE_FORMS))
    _spread(A, "names", ["same", "differ", "same", "swap"])
    _spread(B, "names", ["differ", "swap", "differ", "same"])
    _spread(B, "retfiles", ["none", "empty", "one", "three"])
    _spread(specs, "tamper_op", ["nohash", "noexit", "nofiles", "rehash", "flip_exit", "copy"],
            lambda s: s["profile"] == "tamper")
    for s in specs:
        s["deco"].setdefault("strict", True)
    return specs


# ======================================================================================================
# history generation (stdlib only; also used by the model-only self test)
# ======================================================================================================
KEY_POOL = ["m1", "m10", "mol-2", "k_3", "Et3N", "x4", "b7a", "q"]
NAME_POOL = ["benzene", "tol-1", "c7", "Ph3P", "w_2", "n9", "a3b", "zz"]
ONLY_POOL = ["zz-only", "m1x", "old_9"]

P_RESUME = [["ok"], ["fail_nofile", "ok"], ["fail_file", "ok"], ["omit", "ok"], ["fail_file", "fail_nofile", "ok"],
            ["fail_file"], ["omit"], ["fail_nofile"], ["omit", "fail_file", "ok"], ["fail_file", "fail_file", "ok"]]
# every ordered pair of unsuccessful outcomes on consecutive attempts of one item (leftovers of attempt n must not
# leak into attempt n+1), then success
P_TRANSITIONS = [[a, b, "ok"] for a in ("fail_file", "fail_nofile", "omit") for b in ("fail_file", "fail_nofile", "omit")]
P_REEXEC = [["ok"], ["ok"], ["ok", "fail_file"], ["ok", "omit"], ["ok", "fail_nofile"], ["ok", "ok", "fail_file"],
            ["fail_file", "ok"], ["omit", "ok"], ["ok", "fail_file", "ok"]]
P_CRASH = [["ok", "crash"], ["crash", "ok"], ["ok", "crash", "ok"]]
P_UNPARSABLE = [["unparsable"], ["unparsable", "ok"], ["fail_file", "unparsable"], ["fail_nofile", "unparsable", "ok"]]
TAMPER_OPS = ["delete", "corrupt", "corrupt", "copy", "copy", "flip_exit", "rehash", "nohash", "noexit", "nofiles"]

MAX_EXEC = {"quick": 16, "thorough": 24}


def gen_history(rng, spec, tier="quick"):
    kind, profile, driver = spec["kind"], spec["profile"], spec.get("driver", "A")
    deco = spec.get("deco", {})
    transition = spec.get("transition")
    alt = driver == "B"

    if profile == "big":
        keys = rng.sample(KEY_POOL, 2)
        confs = {keys[0]: rng.randint(11, 13), keys[1]: 2}
    else:
        n_items = rng.randint(3, 5) if kind == "single" else rng.randint(3, 4)
        if alt:
            n_items = min(n_items, 4)
        keys = rng.sample(KEY_POOL, n_items)
        confs = {}
        if kind == "vector":
            confs = {k: rng.choice([1, 2, 2, 3]) for k in keys}
            if all(c == 1 for c in confs.values()):
                confs[keys[0]] = 2
    n_items = len(keys)
    jobs = {k: ([f"{k}.{c}" for c in range(confs[k])] if kind == "vector" else [k]) for k in keys}
    all_jobs = [j for k in keys for j in jobs[k]]

    # ---- names of the stored objects
    how = deco.get("names", "same")
    names = {k: k for k in keys}
    if how in ("differ", "swap"):
        names = dict(zip(keys, rng.sample(NAME_POOL, n_items)))
    if how == "swap":
        a, b = rng.sample(keys, 2)
        names[a], names[b] = b, a

    # ---- what the commands do
    pool = {"resume": P_RESUME, "destonly": P_RESUME, "argchange": P_REEXEC, "reuse": P_RESUME,
            "tamper": P_REEXEC, "random": P_RESUME + P_REEXEC + P_CRASH, "purecache": [["ok"]],
            "edit": P_REEXEC, "big": [["ok"]]}[profile]
    plans = {j: list(rng.choice(pool)) for j in all_jobs}
    pinned = set()          # jobs whose plan is a guaranteed ingredient of the profile

    def pin(j, p):
        plans[j] = list(p)
        pinned.add(j)

    if profile == "argchange" and rng.random() < 0.6:
        pin(all_jobs[1], ["ok", "crash"])      # extension: the runner dies during the re-execution
    if profile in ("resume", "reuse", "destonly"):
        # guarantee a first-attempt failure, a plain success and (vector) a half-failed item
        pin(all_jobs[0], ["ok"])
        pin(all_jobs[-1], rng.choice([["fail_nofile", "ok"], ["fail_file", "ok"], ["omit", "ok"]]))
        if not deco.get("strict", True):
            pin(all_jobs[-1], ["omit", "ok"])       # exit 0 without the file: the other half of 'valid'
        if profile == "resume" and len(all_jobs) >= 3:
            pin(all_jobs[1], P_TRANSITIONS[transition % len(P_TRANSITIONS)] if transition is not None
                else rng.choice(P_TRANSITIONS))
        if kind == "vector":
            multi = [k for k in keys if confs[k] > 1]
            k = rng.choice(multi)
            pin(jobs[k][0], ["ok"])
            pin(jobs[k][1], rng.choice([["fail_file", "ok"], ["fail_nofile", "ok"], ["omit", "ok"]]))
    if profile == "big":
        big = jobs[keys[0]]
        pin(big[10], rng.choice([["fail_file", "ok"], ["fail_nofile", "ok"], ["omit", "ok"]]))
        pin(big[rng.randint(1, 9)], rng.choice([["fail_file", "ok"], ["ok"]]))
    # the post step raises for one item (its commands succeeded): every other item is stored as usual
    if profile in ("reuse", "random", "purecache", "edit") or (alt and profile in ("resume", "destonly")):
        free = [j for j in all_jobs[1:] if j not in pinned]
        if free and (alt or profile == "purecache" or rng.random() < 0.5):
            pin(rng.choice(free), rng.choice(P_UNPARSABLE if profile != "purecache" else P_UNPARSABLE[:2]))

    # ---- driver shape B: commands per job
    shapes = {}
    retfiles = deco.get("retfiles", "A" if not alt else "one")
    nofiles = retfiles in ("none", "empty")
    if alt:
        for j in all_jobs:
            k = rng.choice([1, 2, 2, 3, 3])
            main = rng.randrange(k)
            aux = rng.choice([s for s in range(k) if s != main]) if k > 1 else None
            named = [rng.random() < 0.5 for _ in range(k)]
            if nofiles:
                named[main] = True          # the result is read from the stdout of the main command
            shapes[j] = {"k": k, "main": main, "aux": aux, "named": named}
        for j in all_jobs:
            sh_ = shapes[j]
            p = plans[j]
            for i, m in enumerate(p):
                if m == "fail_nofile" and sh_["aux"] is not None and rng.random() < 0.7:
                    p[i] = "aux_fail"
                elif m == "omit" and nofiles:      # nothing to omit: the result is printed
                    p[i] = rng.choice(["fail_file", "fail_nofile", "unparsable"])
        # directed: a failing main command with a command behind it, a failing unnamed auxiliary command in front of
        # a named main command (and the other way round)
        free = [j for j in all_jobs[1:] if j not in pinned] or ([all_jobs[-1]] if deco.get("strict", True) else [])
        if profile in ("resume", "reuse", "destonly", "random", "argchange", "tamper") and free:
            j = free[-1]
            if shapes[j]["k"] == 1:
                shapes[j] = {"k": 2, "main": 1, "aux": 0, "named": [False, True]}
            if rng.random() < 0.5:
                shapes[j].update(main=0, aux=shapes[j]["k"] - 1)
                shapes[j]["named"][0] = True
                plans[j] = list(rng.choice([["fail_file", "ok"], ["aux_fail", "ok"]]))
            else:
                shapes[j].update(main=shapes[j]["k"] - 1, aux=0)
                shapes[j]["named"] = [False] + shapes[j]["named"][1:-1] + [True]
                plans[j] = list(rng.choice([["aux_fail", "ok"], ["aux_fail", "fail_file", "ok"]]))

    # sources: normally one; sometimes the source grows before a later run
    sources = [list(keys)]
    grow_at = None
    prepop = {}
    runs = []

    def run(arg, dest, tamper=(), source=0, edit=()):
        return {"arg": arg, "dest": dest, "n_workers": rng.randint(1, 4), "tamper": [list(t) for t in tamper],
                "source": source, "positional": rng.random() < 0.3, "edit": list(edit) if alt else [],
                "scratchform": rng.choice(["path", "str"]), "hashseed": rng.randint(1, 4000)}

    def some(seq, lo, hi):
        seq = list(seq)
        n = min(len(seq), rng.randint(lo, hi))
        return rng.sample(seq, n)

    def tamper_op(j):
        op = rng.choice(TAMPER_OPS)
        if op == "copy":
            return ("copy", rng.choice([o for o in all_jobs if o != j]), j)
        if op == "corrupt":
            return ("corrupt", j, rng.choice(["empty", "garbage", "truncate", "text"]))
        return (op, j)

    if profile == "resume":
        if rng.random() < 0.4:
            prepop[0] = {"src": some(keys[1:], 1, 1), "only": []}
        for _ in range(rng.randint(3, 4)):
            runs.append(run("a", 0))
        if rng.random() < 0.3 and n_items >= 4:
            sources = [keys[:-1], list(keys)]
            grow_at = rng.randint(1, len(runs) - 1)
    elif profile == "destonly":
        prepop[0] = {"src": some(keys[1:], 0, 1), "only": some(ONLY_POOL, 1, 2)}
        for _ in range(rng.randint(1, 3)):
            runs.append(run("a", 0))
    elif profile == "argchange":
        runs.append(run("a", 0))
        runs.append(run("b", 1))
        tail = rng.choice([[], [("a", 2)], [("b", 2)], [("b", 0), ("a", 2)], [("b", 2), ("b", 2)]])
        for a, d in tail:
            runs.append(run(a, d))
        if rng.random() < 0.3:
            prepop[1] = {"src": some(keys, 1, 1), "only": some(ONLY_POOL, 0, 1)}
    elif profile == "reuse":
        runs.append(run("a", 0))
        runs.append(run("a", 1))
        for d in rng.choice([[], [1], [2], [1, 2]]):
            runs.append(run("a", d))
    elif profile == "tamper":
        runs.append(run("a", 0))
        r = 1
        for _ in range(rng.randint(1, 2)):
            ops = []
            victims = some(all_jobs, 1, 3)
            for j in victims:
                op = tamper_op(j)
                if r == 1 and not ops:
                    # every tamper history has an unreadable cache file in front of a fresh destination
                    op = ("corrupt", j, rng.choice(["empty", "garbage", "truncate", "text"]))
                ops.append(op)
            if r == 1 and deco.get("tamper_op"):
                # ... and one rewritten / removed field in the stored output of a run that had succeeded
                good = [j for j in all_jobs if plans[j][0] == "ok" and j not in victims] or \
                       [j for j in all_jobs if plans[j][0] == "ok" and j != victims[0]]
                if good:
                    j = rng.choice(good)
                    ops = [o for o in ops if o[-1] != j and o[1] != j]
                    op = deco["tamper_op"]
                    ops.append(("copy", rng.choice([o for o in all_jobs if o != j]), j) if op == "copy" else (op, j))
            runs.append(run("a", r, tamper=ops))
            r += 1
    elif profile == "purecache":
        # everything succeeds in run 1; the later runs have nothing to execute but whole destinations to fill
        if rng.random() < 0.5:
            prepop[1] = {"src": [], "only": some(ONLY_POOL, 1, 1)}
        runs.append(run("a", 0))
        runs.append(run("a", 1))
        if rng.random() < 0.6:
            runs.append(run("a", 2))
    elif profile == "edit":
        # same key, same name, same command line: only the content of the item (JobInput.files) changes
        runs.append(run("a", 0))
        runs.append(run("a", 1, edit=some(keys, 2, 3)))
        tail = rng.choice([[(0, 0)], [(2, 1)], [(2, 1), (1, 0)], [(2, 2)]])
        for d, ne in tail:
            runs.append(run("a", d, edit=some(keys, ne, ne) if ne else ()))
    elif profile == "big":
        runs.append(run("a", 0))
        runs.append(run("a", 0))
        runs.append(run("a", 1))
    else:  # random
        for d in range(3):
            if rng.random() < 0.35:
                prepop[d] = {"src": some(keys, 0, 2), "only": some(ONLY_POOL, 0, 2)}
        for _ in range(rng.randint(1, 4)):
            ops = []
            if runs and rng.random() < 0.35:
                ops.append(tamper_op(rng.choice(all_jobs)))
            ed = some(keys, 1, 1) if alt and runs and rng.random() < 0.25 else ()
            runs.append(run(rng.choice("aab"), rng.randrange(3), tamper=ops, edit=ed))
        if rng.random() < 0.25 and n_items >= 4 and len(runs) >= 2:
            sources = [keys[:-1], list(keys)]
            grow_at = rng.randint(1, len(runs) - 1)
    if grow_at is not None:
        for i, r in enumerate(runs):
            r["source"] = 0 if i < grow_at else 1

    H = {"kind": kind, "profile": profile, "driver": driver, "keys": keys, "confs": confs, "names": names,
         "plans": plans, "shapes": shapes, "retfiles": retfiles,
         "proc": bool(deco.get("proc", False)), "entry": deco.get("entry", "jobmap"),
         "strict": bool(deco.get("strict", True)) or profile not in NONSTRICT_OK,
         "cacheform": deco.get("cacheform", "abs-path"),
         "prepop": {str(d): v for d, v in prepop.items()}, "sources": sources, "runs": runs}

    # bound the cost: drop trailing runs while the model predicts too many executions
    limit = MAX_EXEC.get(tier, 22) - (4 if alt and profile != "edit" else 0)
    while profile != "big" and len(H["runs"]) > 1 and sum(x.n_exec() for x in simulate_history(H)) > limit:
        H["runs"].pop()
    return H


def jobs_of(H, key):
    if H["kind"] == "vector":
        return [f"{key}.{c}" for c in range(H["confs"][key])]
    return [key]


def key_of(H, job):
    return job.rsplit(".", 1)[0] if H["kind"] == "vector" else job


def cjob(H, job):
    """the name under which the scripted command of `job` counts its executions: the driver only sees the object
    (its name, the conformer index), never the key it is stored under"""
    if H["kind"] == "vector":
        k, c = job.rsplit(".", 1)
        return f"{H['names'][k]}.{c}"
    return H["names"][job]


def source_map(H, idx):
    return {k: jobs_of(H, k) for k in H["sources"][idx]}


def pre_value(key):
    return {"pre": key}


def model_for(H):
    from vmon.models import jobmapmodel as jm

    aux_after = {j: (s["aux"] is not None and s["aux"] > s["main"]) for j, s in H["shapes"].items()}
    m = jm.JobMapModel(H["plans"], needs_files=H["retfiles"] not in ("none", "empty"), aux_after_main=aux_after)
    for d, pp in H["prepop"].items():
        for k in pp["src"] + pp["only"]:
            m.prepopulate(int(d), k, pre_value(k))
    for d in range(3):
        m.dest(d)
    return m


def simulate_history(H):
    from vmon.models import jobmapmodel as jm

    m = model_for(H)
    out = []
    for r in H["runs"]:
        for k in r.get("edit", ()):
            m.edit(k)
        for t in r["tamper"]:
            jm.apply_tamper(m, t)
        x = m.step(source_map(H, r["source"]), r["dest"], r["arg"], strict=H["strict"])
        m.commit(x)
        out.append(x)
    return out


def pure_cache_run(x):
    return x.n_exec() == 0 and any(v == "gained-from-cache" for v in x.item.values())


def nontrivial(expects):
    return len(expects) >= 2 and any((x.n_exec() > 0 and x.n_skip() > 0) or pure_cache_run(x) for x in expects[1:])


def brief(H, expects):
    return {"kind": H["kind"], "profile": H["profile"], "driver": H["driver"], "items": len(H["keys"]),
            "conformers": H["confs"] or None, "names": None if all(k == v for k, v in H["names"].items()) else H["names"],
            "return_files": RETFILES[H["retfiles"]], "separate_processes": H["proc"], "entry": H["entry"],
            "strict_hash": H["strict"], "cache_dir_form": H["cacheform"],
            "prepop": H["prepop"] or None,
            "runs": [{"arg": r["arg"], "dest": r["dest"], "w": r["n_workers"], "tamper": r["tamper"] or None,
                      "edit": r.get("edit") or None,
                      "expect_exec": x.n_exec(), "expect_skip": x.n_skip()} for r, x in zip(H["runs"], expects)],
            "plans": {j: "/".join(p) for j, p in list(H["plans"].items())[:6]},
            "commands": {j: {"n": s["k"], "main": s["main"], "aux": s["aux"], "named": s["named"]}
                         for j, s in list(H["shapes"].items())[:6]} or None}


# ======================================================================================================
# the scripted commands
# ======================================================================================================
def make_script(cdir, job, arg, plan):
    """driver shape A: one command; item, argument and plan are spelled into the command text"""
    cases = " ".join(f"{i + 1}) m={m};;" for i, m in enumerate(plan[:-1])) + f" *) m={plan[-1]};;"
    tagline = f"job={job} arg={arg} attempt=$n"
    return (
        f'f={cdir}/{job}; touch "$f"; n=$(($(wc -l < "$f")+1)); echo "$n {arg}" >> "$f"; '
        f'case $n in {cases} esac; echo "{tagline} mode=$m"; '
        f'case $m in '
        # a second requested file, logs/warnings.log, sits in a sub-directory the command makes and is legitimately
        # EMPTY after a clean run
        f'ok) echo "{tagline} status=ok" > result.txt; mkdir -p logs; : > logs/warnings.log; exit 0;; '
        f'fail_file) echo "{tagline} status=partial" > result.txt; mkdir -p logs; : > logs/warnings.log; exit 3;; '
        f'fail_nofile) exit 4;; '
        f'omit) mkdir -p logs; : > logs/warnings.log; exit 0;; '
        f'unparsable) echo "%%garbled-record%%" > result.txt; mkdir -p logs; : > logs/warnings.log; exit 0;; '
        f'crash) kill -9 $PPID; exit 0;; '
        f'esac; exit 9'
    )


def make_script_b(cdir, job, plan, shape, retfiles):
    """driver shape B: the file run.sh, executed as `sh ./run.sh <step>` once per command of the job.  The first
    command counts the execution and decides the mode; argument (params.txt) and item content (input.txt) are
    read from the files shipped with the input, so the script is the same for every argument and content."""
    cases = " ".join(f"{i + 1}) m={m};;" for i, m in enumerate(plan[:-1])) + f" *) m={plan[-1]};;"
    M, A = shape["main"], shape["aux"]
    names = RETFILES[retfiles] or ()
    side = "".join({"b.log": " : > b.log;", "c.dat": " echo 1 > c.dat;"}.get(n, "") for n in names)
    wr = ' echo "$tag status=$1" > result.txt;' if "result.txt" in names else ""
    garble = ' echo "%%garbled-record%%" > result.txt;' if "result.txt" in names else ""
    lines = [
        's=$1',
        f'if [ "$s" = 0 ]; then f={cdir}/{job}; touch "$f"; n=$(($(wc -l < "$f")+1)); . ./params.txt; . ./input.txt; '
        f'echo "$n $arg $ver" >> "$f"; case $n in {cases} esac; echo "n=$n; m=$m" > state.sh; fi',
        '. ./state.sh; . ./params.txt; . ./input.txt',
        f'tag="job={job} arg=$arg ver=$ver attempt=$n"',
        'res() { echo "RESULT $tag status=$1";' + wr + side + ' }',
        'case "$m:$s" in',
        f'ok:{M}) res ok; exit 0;;',
        f'fail_file:{M}) res partial; exit 3;;',
        f'fail_nofile:{M}) exit 4;;',
        f'omit:{M}){side} exit 0;;',
        f'unparsable:{M}) echo "RESULT %%garbled-record%%";{garble}{side} exit 0;;',
        f'crash:{M}) kill -9 $PPID; exit 0;;',
        f'aux_fail:{M}) res ok; exit 0;;',
    ]
    if A is not None:
        lines.append(f'aux_fail:{A}) exit 5;;')
    lines += ['esac', 'exit 0', '']
    return "\n".join(lines)


def _qual(name):
    """the functions below are defined inside a factory; give them the qualified names a module-level driver class
    has (Job.name, and with it the default cache directory, is derived from it)"""
    def deco(f):
        f.__qualname__ = name
        return f
    return deco


def parse_record(txt):
    rec = dict(tok.split("=", 1) for tok in txt.split())      # ValueError on anything that is not a record
    if "status" not in rec or "job" not in rec:
        raise ValueError(f"not a result record: {txt[:60]!r}")
    return rec


def make_driver(cfg):
    """a driver declared the way molli's own drivers are (cf. molli/pipeline/xtb.py)"""
    import molli as ml
    from molli.pipeline import Job, JobInput
    from molli.pipeline.driver import DriverBase

    def job_name(M):
        c = int(round(float(M.coords[0][0])))      # conformers carry their index, molecules carry -1
        return M.name if c < 0 else f"{M.name}.{c}"

    def version(M):
        return int(round(float(M.coords[0][2])))   # the content of the item: bumped when the item is edited

    def reduce_ens(self, outputs, ens, *args, **kwargs):
        recs = [m.attrib["c18"] for m in outputs]
        new = ml.ConformerEnsemble(ens)
        new.attrib = {"c18": {"obj": ens.name, "objs": [r["obj"] for r in recs],
                              "post_args": [r["post_arg"] for r in recs], "outs": [r["out"] for r in recs]}}
        return new

    if cfg.get("driver", "A") == "A":
        class C18Driver(DriverBase):
            default_executable = "sh"

            @Job(return_files=RETFILES["A"]).prep
            @_qual("C18Driver.work_m")
            def work_m(self, M, tag="a"):
                job = job_name(M)
                script = make_script(cfg["cdir"], job, tag, cfg["plans"][job])
                return JobInput(
                    M.name,
                    commands=[(f"{self.executable} -c {shlex.quote(script)}", "work")],
                    files={"item.txt": f"{job}\n".encode()},
                    return_files=self.return_files,
                )

            @work_m.post
            @_qual("C18Driver.work_m")
            def work_m(self, out, M, tag="a", **kwargs):
                rec = parse_record(out.files["result.txt"].decode())
                res = ml.Molecule(M)
                res.attrib = {"c18": {"obj": job_name(M), "post_arg": tag, "out": rec}}
                return res

            work_ens = Job.vectorize(work_m)
            work_ens = work_ens.reduce(_qual("C18Driver.work_ens")(reduce_ens))

        return C18Driver()

    rf = cfg["retfiles"]
    decl = Job() if rf == "none" else Job(return_files=RETFILES[rf])

    class C18AltDriver(DriverBase):
        default_executable = "sh"

        @decl.prep
        @_qual("C18AltDriver.work_m")
        def work_m(self, M, tag="a"):
            job = job_name(M)
            shape = cfg["shapes"][job]
            script = make_script_b(cfg["cdir"], job, cfg["plans"][job], shape, rf)
            return JobInput(
                M.name,
                # the command lines do not depend on argument or item content (as for xtb / crest / orca)
                commands=[(f"{self.executable} ./run.sh {s}", f"s{s}" if shape["named"][s] else None)
                          for s in range(shape["k"])],
                files={"run.sh": script.encode(), "params.txt": f"arg={tag}\n".encode(),
                       "input.txt": f"ver={version(M)}\n".encode()},
                return_files=self.return_files,
            )

        @work_m.post
        @_qual("C18AltDriver.work_m")
        def work_m(self, out, M, tag="a", **kwargs):
            job = job_name(M)
            if rf in ("none", "empty"):      # like XTBDriver.energy_m: the result is parsed from stdout
                txt = out.stdouts[f"s{cfg['shapes'][job]['main']}"]
                line = [ln for ln in txt.splitlines() if ln.startswith("RESULT ")][-1]
                rec = parse_record(line[len("RESULT "):])
            else:
                rec = parse_record(out.files["result.txt"].decode())
            res = ml.Molecule(M)
            res.attrib = {"c18": {"obj": job, "post_arg": tag, "out": rec}}
            return res

        work_ens = Job.vectorize(work_m)
        work_ens = work_ens.reduce(_qual("C18AltDriver.work_ens")(reduce_ens))

    return C18AltDriver()


QSUB = "#!/bin/sh\n# stand-in: run the submitted script at once, print a job id\ncat > job.$$.sh\nsh job.$$.sh > /dev/null 2>&1\necho $$\nexit 0\n"
QSTAT = "#!/bin/sh\n# stand-in: no job is known (every job has finished)\nexit 1\n"


def exc_info(e):
    a0 = e.args[0] if e.args else None
    if isinstance(a0, bytes):
        a0 = a0.decode(errors="replace")
    return {"type": type(e).__name__, "msg": str(e)[:300],
            "arg0": a0 if isinstance(a0, (str, int)) or a0 is None else repr(a0)[:120],
            "frames": [[fr.filename, fr.name, fr.lineno, (fr.line or "")[:120]]
                       for fr in traceback.extract_tb(e.__traceback__)]}


def call_run(cfg):
    """one real jobmap / jobmap_sge call described by plain data (run in-process or by vmon.models.c18_procrun in an
    interpreter of its own); returns None when the call returned, else a description of the exception"""
    import molli as ml
    from molli.pipeline import jobmap, jobmap_sge

    drv = make_driver(cfg["driver"])
    vector = cfg["vector"]
    job = drv.work_ens if vector else drv.work_m
    Lib = ml.ConformerLibrary if vector else ml.MoleculeLibrary
    cwd0, path0 = os.getcwd(), os.environ.get("PATH", "")
    os.chdir(cfg["cwd"])          # the relative forms of cache_dir are resolved against it
    try:
        if cfg["entry"] == "sge":
            os.environ["PATH"] = cfg["bin"] + os.pathsep + path0
        source = Lib(cfg["src"], readonly=True)
        dest = Lib(cfg["dst"], readonly=False)
        kw = {}
        form = cfg["cacheform"]
        absolute = os.path.join(cfg["cwd"], cfg["cache_rel"])
        if form == "abs-path":
            kw["cache_dir"] = Path(absolute)
        elif form == "abs-str":
            kw["cache_dir"] = absolute
        elif form == "rel-str":
            kw["cache_dir"] = cfg["cache_rel"]
        elif form == "rel-path":
            kw["cache_dir"] = Path(cfg["cache_rel"])
        # "default": cache_dir is not given
        kw["scratch_dir"] = cfg["scratch"] if cfg["scratchform"] == "str" else Path(cfg["scratch"])
        if cfg["positional"]:
            kw["args"] = (cfg["arg"],)
        else:
            kw["kwargs"] = {"tag": cfg["arg"]}
        if not cfg["strict"]:
            kw["strict_hash"] = False
        try:
            if cfg["entry"] == "sge":
                jobmap_sge(job, source, dest, update=0.05, **kw)
            else:
                jobmap(job, source, dest, n_workers=cfg["n_workers"], **kw)
        except Exception as e:  # "the call returns normally"
            return exc_info(e)
        return None
    finally:
        os.environ["PATH"] = path0
        os.chdir(cwd0)


# ======================================================================================================
# running one history against the real jobmap
# ======================================================================================================
class Abort(Exception):
    pass


def run_chunk(spec, ctx):
    case = [spec["hist"]]
    if not ctx.want(case):
        return
    rng = ctx.rng("history", spec["hist"])
    H = gen_history(rng, spec, ctx.tier)
    expects = simulate_history(H)
    ctx.case(case, dkey=json.dumps(H, sort_keys=True), nontrivial=nontrivial(expects), sample=brief(H, expects))
    ctx.count(f"history.{H['kind']}.started")
    ctx.count(f"profile.{H['profile']}")
    try:
        run_history(H, ctx, case)
    except Abort:
        ctx.count("history.abandoned-after-violation")
    else:
        ctx.count(f"history.{H['kind']}.completed")
        ctx.count(f"history.driver-{H['driver']}.completed")


def run_history(H, ctx, case):
    import numpy as np
    import molli as ml
    from molli.pipeline import JobOutput
    from vmon.models import jobmapmodel as jm

    vector = H["kind"] == "vector"
    alt = H["driver"] == "B"
    names = H["names"]
    renamed = any(k != v for k, v in names.items())
    Lib = ml.ConformerLibrary if vector else ml.MoleculeLibrary
    ext = ".clib" if vector else ".mlib"
    root = Path(ctx.tmp).absolute() / "h"
    shutil.rmtree(root, ignore_errors=True)
    cdir, scratch, chome, bindir = root / "counters", root / "scratch", root / "cachehome", root / "bin"
    for p in (cdir, scratch, chome, bindir):
        p.mkdir(parents=True)
    (bindir / "qsub").write_text(QSUB)
    (bindir / "qstat").write_text(QSTAT)
    for p in bindir.iterdir():
        p.chmod(0o755)
    drvcfg = {"driver": H["driver"], "cdir": str(cdir), "retfiles": H["retfiles"],
              "plans": {cjob(H, j): p for j, p in H["plans"].items()},
              "shapes": {cjob(H, j): s for j, s in H["shapes"].items()}}
    from_cjob = {cjob(H, j): j for j in H["plans"]}
    from_name = {v: k for k, v in names.items()}
    n_return = len(RETFILES[H["retfiles"]] or ())

    model = model_for(H)

    # ---- objects
    def make_obj(key, pre=False):
        i = (H["keys"] + ONLY_POOL).index(key)
        m = ml.Molecule(n_atoms=2 + i % 2, name=names.get(key, key))
        xyz = np.zeros((m.n_atoms, 3))
        xyz[:, 1] = np.arange(m.n_atoms) + 0.25 * i
        xyz[0, 0] = -1.0
        xyz[0, 2] = float(model.version.get(key, 0))      # the content of the item (edited between runs)
        m.coords = xyz
        if not vector:
            if pre:
                m.attrib = {"c18": pre_value(key)}
            return m
        nc = H["confs"].get(key, 2)
        e = ml.ConformerEnsemble(m, n_conformers=nc)
        cs = np.zeros((nc, m.n_atoms, 3))
        for c in range(nc):
            cs[c] = xyz
            cs[c, 0, 0] = float(c)
        e.coords = cs
        if pre:
            e.attrib = {"c18": pre_value(key)}
        return e

    src_path = root / f"source{ext}"
    src = Lib(src_path, overwrite=True, readonly=False)
    with src.writing():
        for k in H["sources"][0]:
            src[k] = make_obj(k)
    src_have = list(H["sources"][0])
    dst_paths = {d: root / f"dest{d}{ext}" for d in range(3)}
    for d, p in dst_paths.items():
        lib = Lib(p, overwrite=True, readonly=False)
        pp = H["prepop"].get(str(d))
        if pp:
            with lib.writing():
                for k in pp["src"] + pp["only"]:
                    lib[k] = make_obj(k, pre=True)
    del src, lib

    # ---- observation helpers
    def counts():
        out = {}
        for j in H["plans"]:
            p = cdir / cjob(H, j)
            out[j] = len(p.read_text().splitlines()) if p.exists() else 0
        return out

    def norm_rec(key, rec, name):
        want_name = names.get(key, key)
        if not isinstance(rec, dict):
            return {"unrecognised": repr(rec)[:80]}
        if "pre" in rec:
            return {"pre": rec["pre"]} if name == want_name else {"pre": rec["pre"], "name": name}

        def out1(o):
            try:
                return {"job": from_cjob.get(o.get("job"), f"?{o.get('job')}"), "arg": o.get("arg"),
                        "ver": int(o.get("ver", 0)), "attempt": int(o.get("attempt")), "status": o.get("status")}
            except Exception:
                return {"unrecognised": repr(o)[:80]}
        if vector:
            v = {"obj": from_name.get(rec.get("obj"), f"?{rec.get('obj')}"),
                 "outs": [out1(o) for o in rec.get("outs", ())]}
            pa = set(rec.get("post_args", ()))
            v["post_arg"] = pa.pop() if len(pa) == 1 else sorted(pa)
            objs = [from_cjob.get(o, f"?{o}") for o in rec.get("objs", ())]
            if objs != [o["job"] for o in v["outs"] if "job" in o]:
                v["objs"] = objs           # conformer i was processed with the output of another job
        else:
            v = {"obj": from_cjob.get(rec.get("obj"), f"?{rec.get('obj')}"), "post_arg": rec.get("post_arg"),
                 "outs": [out1(rec.get("out", {}))]}
        if name != want_name:
            v["name"] = name
        return v

    def read_dest(d):
        lib = Lib(dst_paths[d], readonly=True)
        out = {}
        with lib.reading(timeout=60):
            for k in sorted(lib.keys()):
                try:
                    v = lib[k]
                    rec = norm_rec(k, v.attrib.get("c18"), v.name)
                    if vector and "outs" in rec and v.n_conformers != len(rec["outs"]):
                        rec["n_conformers"] = v.n_conformers
                    out[k] = rec
                except Exception as e:  # noqa
                    out[k] = {"unreadable": f"{type(e).__name__}: {e}"[:120]}
        return out

    # ---- cache files (located by search below the cache home; only the tamper steps use them)
    def cache_files(j):
        return [p for p in chome.rglob(f"{j}.out") if p.is_file()]

    def cache_home():
        for j in H["plans"]:
            f = cache_files(j)
            if f:
                return f[0].parent
        return None

    def tamper(t, ridx):
        op, j = t[0], t[1]
        files = cache_files(j)
        have_model = j in model.cache
        if bool(files) != have_model:
            ctx.count("tamper.skipped.model-and-files-disagree")
            return
        if op == "delete":
            if not files:
                ctx.count("tamper.skipped.nothing-to-do")
                return
            for p in files:
                p.unlink()
        elif op == "corrupt":
            variant = t[2]
            targets = files
            if not targets:
                home = cache_home()
                if home is None:
                    ctx.count("tamper.skipped.no-cache-files")
                    return
                targets = [home / f"{j}.out"]
            for p in targets:
                old = p.read_bytes() if p.exists() else b""
                if variant == "truncate" and len(old) > 8:
                    p.write_bytes(old[: len(old) // 2])
                elif variant == "garbage":
                    p.write_bytes(bytes((37 * i + 11) % 256 for i in range(64)))
                elif variant == "text":
                    p.write_bytes(b"this is not a job output\n")
                else:
                    p.write_bytes(b"")
        elif op == "copy":
            sfiles = cache_files(j)
            if not sfiles:
                ctx.count("tamper.skipped.nothing-to-do")
                return
            dst_job = t[2]
            (sfiles[0].parent / f"{dst_job}.out").write_bytes(sfiles[0].read_bytes())
            for p in cache_files(dst_job)[1:]:
                p.write_bytes(sfiles[0].read_bytes())
        elif op in ("flip_exit", "rehash", "nohash", "noexit", "nofiles"):
            e = model.cache.get(j)
            if e is None or not e.readable:
                ctx.count("tamper.skipped.nothing-to-do")
                return
            for p in files:
                o = JobOutput.load(p)
                if op == "flip_exit":
                    o.exitcode = 2
                elif op == "rehash":
                    o.input_hash = b"c18-not-the-hash-of-any-input"
                elif op == "nohash":       # e.g. written by another tool / an older version
                    o.input_hash = None
                elif op == "noexit":
                    o.exitcode = None
                else:
                    o.files = None
                o.dump(p)
        if not jm.apply_tamper(model, tuple(t)):
            raise RuntimeError(f"tamper {t} applied to the files but not to the model")
        ctx.count("tamper.applied")
        ctx.count(f"tamper.{op}")

    def real_run(r, ridx):
        cfg = {"driver": drvcfg, "vector": vector, "cwd": str(chome), "cache_rel": "cache",
               "cacheform": H["cacheform"], "scratch": str(scratch), "scratchform": r.get("scratchform", "path"),
               "src": str(src_path), "dst": str(dst_paths[r["dest"]]), "arg": r["arg"],
               "positional": r["positional"], "n_workers": r["n_workers"], "strict": H["strict"],
               "entry": H["entry"], "bin": str(bindir)}
        if not H["proc"]:
            return call_run(cfg)
        # an interpreter of its own for every run (own string-hash seed): nothing but the files is shared between
        # the run that fills the cache and the run that reuses it
        cf, of = root / f"run{ridx}.json", root / f"run{ridx}.out.json"
        cf.write_text(json.dumps(cfg))
        env = {**os.environ, "PYTHONHASHSEED": str(r.get("hashseed", 1 + ridx))}
        p = subprocess.run([sys.executable, "-m", "vmon.models.c18_procrun", str(cf), str(of)], env=env,
                           cwd=str(root), capture_output=True, text=True, timeout=4 * WATCHDOG)   # the chunk watchdog decides
        if not of.exists():
            raise RuntimeError(f"run {ridx} in its own interpreter left no report: rc={p.returncode} "
                               f"stderr={(p.stderr or '')[-600:]}")
        return json.loads(of.read_text())["exc"]

    # ---- the runs
    for ridx, r in enumerate(H["runs"]):
        rcase = case
        # source growth
        want_src = H["sources"][r["source"]]
        new = [k for k in want_src if k not in src_have]
        if new:
            s = Lib(src_path, readonly=False)
            with s.writing():
                for k in new:
                    s[k] = make_obj(k)
            src_have.extend(new)
            ctx.count("source.grown")
            del s
        # items edited in the source: same key, same name, other content (the library file is written anew)
        edited = [k for k in r.get("edit", ()) if k in src_have]
        if edited:
            for k in edited:
                model.edit(k)
            s = Lib(src_path, overwrite=True, readonly=False)
            with s.writing():
                for k in src_have:
                    s[k] = make_obj(k)
            ctx.count("source.item-edited", len(edited))
            del s
        for t in r["tamper"]:
            tamper(t, ridx)

        x = model.step(source_map(H, r["source"]), r["dest"], r["arg"], strict=H["strict"])
        before = counts()
        others_before = {d: read_dest(d) for d in dst_paths if d != r["dest"]}
        where = {"run": ridx, "arg": r["arg"], "dest": r["dest"], "n_workers": r["n_workers"],
                 "kind": H["kind"], "profile": H["profile"], "driver": H["driver"], "entry": H["entry"],
                 "strict_hash": H["strict"], "separate_process": H["proc"], "cache_dir_form": H["cacheform"],
                 "scratch_dir_form": r.get("scratchform"), "return_files": RETFILES[H["retfiles"]],
                 "keys_differ_from_names": renamed, "edited": edited or None}

        bad = False
        ei = real_run(r, ridx)
        if ei is not None:
            bad = True
            key = classify_exception(ei, x, model, vector)
            ctx.violation(key, case=rcase, where=where, error=f"{ei['type']}: {ei['msg']}"[:300],
                          traceback=[f"{fr[1]}:{fr[2]} {fr[3]}"[:140] for fr in ei["frames"][-3:]],
                          dest_only_keys=x.dest_only,
                          cache={j: model.cache[j].describe() for j in sorted(model.cache)[:6]},
                          history=brief(H, simulate_history(H)))
        else:
            ctx.count("jobmap.returned")
        if bad:
            raise Abort()

        # -- executions
        after = counts()
        touched = set()
        for j in sorted(x.executions):
            exp = x.executions[j]
            got = after[j] - before[j]
            if got == exp:
                ctx.count(f"job.{'exec' if exp else 'skip'}.{x.why[j]}")
                if H["proc"] and x.why[j] == "valid-cache":
                    ctx.count("job.skip.valid-cache.cached-by-another-process")
                if exp:
                    ctx.count(f"outcome.{x.mode[j]}")
                    if not H["strict"] and x.mode[j] in ("omit", "fail_file"):
                        ctx.count(f"outcome.{x.mode[j]}.strict-hash-off")
                    sh_ = H["shapes"].get(j)
                    if sh_ and sh_["k"] > 1:
                        ctx.count("cmd.multi-command-job-executed")
                        md = x.mode[j]
                        if md == "aux_fail":
                            ctx.count("cmd.aux-failed." + ("named" if sh_["named"][sh_["aux"]] else "unnamed")
                                      + (".after-main" if sh_["aux"] > sh_["main"] else ".before-main"))
                        elif md in ("fail_file", "fail_nofile") and sh_["main"] < sh_["k"] - 1:
                            ctx.count("cmd.main-failed.commands-behind-it")
                    if sh_ and not sh_["named"][sh_["main"]]:
                        ctx.count("cmd.main-unnamed-executed")
                continue
            bad = True
            touched.add(j)
            e = model.cache.get(j)
            ctx.violation(exec_key(exp, got, x.why[j]), case=rcase, where=where, job=j, expected_executions=exp,
                          observed_executions=got, reason_expected=x.why[j],
                          cache_entry=e.describe() if e else None, plan=H["plans"][j],
                          commands=H["shapes"].get(j), attempts_before=before[j])
        for j in H["plans"]:
            if j not in x.executions and after[j] != before[j]:
                bad = True
                ctx.violation("executed-job-of-item-outside-source", case=rcase, where=where, job=j,
                              observed_executions=after[j] - before[j])

        # -- destination
        obs = read_dest(r["dest"])
        src_now = source_map(H, r["source"])
        for k in sorted(set(obs) | set(x.dest_after)):
            if any(j in touched for j in src_now.get(k, ())):
                continue      # consequence of an execution mismatch already reported
            exp_v, got_v = x.dest_after.get(k), obs.get(k)
            if exp_v == got_v:
                st = x.item.get(k)
                if st is not None:
                    ctx.count(f"item.{st}")
                    if vector and st == "gained-mixed":
                        ctx.count("item.vector.gained-mixed")
                    if st.startswith("gained"):
                        if vector and H["confs"][k] >= 11:
                            ctx.count("item.vector.many-conformers." + st)
                        if n_return == 0:
                            ctx.count("item.gained.no-return-files")
                        if renamed:
                            ctx.count("item.gained.key-differs-from-name")
                elif k in x.dest_only:
                    ctx.count("dest.only-key-preserved")
                continue
            bad = True
            ctx.violation(dest_key(k, exp_v, got_v, x, src_now, model), case=rcase, where=where, item=k,
                          expected=exp_v, observed=got_v, item_status=x.item.get(k),
                          jobs={j: {"why": x.why[j], "mode": x.mode.get(j)} for j in src_now.get(k, ())},
                          plans={j: H["plans"][j] for j in src_now.get(k, ())},
                          commands={j: H["shapes"][j] for j in src_now.get(k, ()) if j in H["shapes"]} or None)
        for k in x.item:
            if x.item[k] in ("absent", "absent-post-raises") and k not in obs:
                ctx.count(f"item.{x.item[k]}")
        for d, ob in others_before.items():
            now = read_dest(d)
            if now != ob:
                bad = True
                ctx.violation("other-destination-modified", case=rcase, where=where, destination=d,
                              before=ob, after=now)
            else:
                ctx.count("dest.other-unchanged")
        ctx.count("run.checked")
        if not bad:
            if pure_cache_run(x):
                ctx.count("run.nothing-to-execute.gained-from-cache")
            ctx.count(f"run.entry.{H['entry']}")
            ctx.count(f"run.driver-{H['driver']}")
            ctx.count(f"run.cache-dir.{H['cacheform']}")
            ctx.count(f"run.scratch-dir.{r.get('scratchform', 'path')}")
            ctx.count(f"run.return-files.{n_return}" + (".empty-tuple" if H["retfiles"] == "empty" else ""))
            ctx.count("run.strict-hash." + ("on" if H["strict"] else "off"))
            ctx.count("run." + ("own-interpreter" if H["proc"] else "in-process"))
            if renamed:
                ctx.count("run.keys-differ-from-names")
        ctx.count("cache.files-seen", sum(len(cache_files(j)) for j in H["plans"]))
        # passive evidence only (never decides): what the cache holds for the jobs that just ran
        for j, ne in x.new_entries.items():
            if ne is None:
                continue
            for p in cache_files(j)[:1]:
                try:
                    o = JobOutput.load(p)
                    seen = (o.exitcode == 0, n_return == 0 or "result.txt" in (o.files or {}))
                except Exception:
                    seen = None
                ctx.count("cache.entry." + ("as-modelled" if seen == (ne.exit_ok, ne.has_file)
                                            else "differs-from-model(informational)"))
        if bad:
            raise Abort()
        model.commit(x)


# ======================================================================================================
# naming the mechanism of a violation
# ======================================================================================================
def classify_exception(ei, x, model, vector):
    frames = ei["frames"]            # [filename, function, lineno, line], outermost first
    inner = "?"
    for fr in reversed(frames):
        if "/molli/" in fr[0]:
            inner = fr[1]
            break
    in_jobmap = any(fr[1] in ("jobmap", "jobmap_sge") and "/molli/" in fr[0] for fr in frames)
    if ei["type"] == "KeyError" and x.dest_only and in_jobmap and inner != "put":
        arg = ei.get("arg0")
        if arg in x.dest_only or any(k in str(arg) for k in x.dest_only):
            return "destination-only-key-keyerror"
    if ei["type"] == "AttributeError" and vector and "hash" in ei["msg"] and inner in ("jobmap", "jobmap_sge"):
        cached = [j for j, n in x.executions.items() if x.why[j] not in ("in-destination", "no-cache")]
        if cached:
            return "vectorised-rerun-attributeerror"
    if frames and "/vmon/props/C18" in frames[-1][0] and in_jobmap:
        # raised by the driver's own prep / post / reduce function and not contained by jobmap
        return f"jobmap-raises:{ei['type']}:driver-step-of-one-item:{frames[-1][1]}"
    if inner == "jobmap_sge":
        inner = "jobmap"
    return f"jobmap-raises:{ei['type']}:{inner}"


def exec_key(exp, got, why):
    if got > 1:
        return "executed-more-than-once" + ("" if exp else ":" + why)
    if exp == 1 and got == 0:
        return {
            "cache-missing-return-file": "missing-return-file-cached-as-success",
            "cache-other-input": "cache-of-other-input-reused",
            "cache-other-input-files-only": "cache-of-other-input-reused:inputs-differ-in-files-only",
            "cache-failed-exit": "failed-cache-entry-reused",
            "cache-unreadable": "unreadable-cache-entry-blocks-execution",
            "no-cache": "item-not-executed",
        }.get(why, f"not-executed:{why}")
    return {"in-destination": "reexecuted:item-in-destination",
            "valid-cache": "reexecuted:valid-cache"}.get(why, f"reexecuted:{why}")


def dest_key(k, exp_v, got_v, x, src_now, model):
    jobs = src_now.get(k, ())
    if k not in src_now:
        if exp_v is None:
            return "destination-unexpected-key"
        return "destination-only-key-lost" if got_v is None else "destination-only-key-changed"
    st = x.item.get(k)
    if st == "kept":
        return "destination-existing-key-lost" if got_v is None else "destination-existing-key-overwritten"
    if got_v is None:
        return {"gained-now": "succeeded-item-missing-from-destination",
                "gained-from-cache": "validly-cached-item-missing-from-destination",
                "gained-mixed": "partly-cached-item-missing-from-destination"}.get(st, f"destination-missing:{st}")
    if exp_v is None:  # the item failed in this run but is in the destination
        modes = [x.mode.get(j) for j in jobs]
        outs = got_v.get("outs", []) if isinstance(got_v, dict) else []
        if isinstance(got_v, dict) and (got_v.get("obj") != k or any(o.get("job") not in jobs for o in outs)):
            return "result-stored-under-another-items-key"
        if any(o.get("status") == "partial" for o in outs) and "fail_file" in modes:
            return "failed-run-processed"
        if "crash" in modes:
            for j in jobs:
                e = model.cache.get(j)
                if x.mode.get(j) == "crash" and e is not None and e.readable and e.input != x.input_id.get(j):
                    return "stale-output-of-other-input-processed"
            return "stale-output-processed-after-runner-death"
        if "aux_fail" in modes:
            return "item-with-failed-auxiliary-command-in-destination"
        if st == "absent-post-raises":
            return "item-whose-post-step-raised-in-destination"
        return "failed-item-in-destination"
    # both present, values differ: which field
    if not isinstance(got_v, dict) or "outs" not in got_v:
        return "result-value-unrecognised"
    if got_v.get("obj") != exp_v["obj"] or "name" in got_v:
        return "result-built-from-wrong-object"
    eo, go = exp_v["outs"], got_v["outs"]
    if len(eo) != len(go) or "n_conformers" in got_v:
        return "result-conformer-count-differs"
    if "objs" in got_v:
        return "result-conformer-output-misassigned"
    for a, b in zip(eo, go):
        if a.get("job") != b.get("job"):
            return "result-from-another-jobs-output"
    for a, b in zip(eo, go):
        if b.get("status") != "ok":
            return "failed-run-processed"
        if a.get("arg") != b.get("arg"):
            return "result-from-output-of-other-arguments"
        if a.get("ver") != b.get("ver"):
            return "result-from-output-of-other-item-content"
        if a.get("attempt") != b.get("attempt"):
            return "result-from-stale-attempt"
    if got_v.get("post_arg") != exp_v["post_arg"]:
        return "result-processed-with-other-arguments"
    return "result-value-differs"


LEVEL_TEXT = ("Held on the executions produced: every history is a sequence of real jobmap / jobmap_sge calls (real "
              "library files, real _molli_run subprocesses, real cache directory) whose every run is compared with an "
              "executable reference model - executions per job counted from files the commands write themselves, "
              "destination contents read back through a fresh handle. Reach is that of the history generator (nine "
              "directed profiles x single/vectorised x two driver shapes x in-process / one interpreter per run x "
              "jobmap / jobmap_sge x strict_hash on/off x argument forms); not a proof.")
LEVEL_NOTE = ("Trusted: the model in vmon/models/jobmapmodel.py, /bin/sh, the library round trip (C01) used to read "
              "the destination, JobOutput.load/dump used by the field-rewriting tamper steps. Success of a run is "
              "defined as exit 0 of every command and every requested return file present. jobmap_sge runs with "
              "stand-ins for qsub/qstat (no scheduler here): submission and polling of a real queue are not "
              "exercised. strict_hash=False is only judged where every cached output stems from the same input. "
              "Keys, names and paths contain no blanks (the runner command line is split with shlex).")
