"""
C18 -- jobmap computes each item once, reuses only valid results, resumes cleanly.

Monitor shape: executable reference model (vmon/models/jobmapmodel.py) stepped beside the real
`molli.pipeline.jobmap`, plus an execution log written by the scripted commands themselves.

One history = 1..4 real jobmap runs over a small library with a test driver declared exactly like molli's own
drivers (`@Job(return_files=...).prep` / `.post`, `Job.vectorize` + `.reduce`).  The command of every job is an
`sh -c` script that appends one line to counters/<job> (outside the scratch tree) and then behaves according to
its attempt number: succeed / write the return file and fail / fail without it / exit 0 without it / (extension)
kill the runner.  After every run the harness compares, against the model,
    * executions per job in this run (lines added to its counter file): exactly the expected 0 or 1,
    * the destination library read back through a fresh handle: exactly the expected keys, each value being the
      processed output of that very item (job, arguments, attempt recorded by the command itself),
    * destination-only keys and the other destination libraries: unchanged,
    * the call returned normally.
A history stops at its first violating run (afterwards the real state no longer follows the model).
"""
from __future__ import annotations

import json
import os
import shlex
import shutil
import traceback
from pathlib import Path

ID = "C18"
LEVEL = "exploration"
TECHNIQUE = ("runtime monitoring: reference model of jobmap (destination map + cache map) stepped beside real runs; "
             "exactly-once accounting from counter files written by the scripted commands")
RULE = ("seeded histories of 1-4 real jobmap runs over libraries of 3-5 items, MoleculeLibrary single jobs and "
        "ConformerLibrary vectorised jobs (1-3 conformers), six profiles (resume after failures / destination-only "
        "keys / argument change with fresh destination / cache reuse with fresh destination / cache files deleted, "
        "corrupted, copied from another job, exit code or hash rewritten / random mix incl. a killed runner), "
        "per-job scripts keyed on the attempt number (ok, fail with and without return file, omit return file, "
        "succeed on n-th attempt), n_workers 1-4, keyword and positional job arguments, source growing between runs; "
        "one history per child process with a watchdog; non-trivial = at least 2 runs and some later run has both "
        "a job to skip and a job to execute; distinct by the canonical JSON of the history")
ASSUMPTIONS = [
    "a run counts as succeeded iff its command exited 0 and the requested return file exists (the definition "
    "_molli_run applies to its own exit status); only such a run may be reused or processed",
    "two prepared inputs are 'the same input' iff same item (and conformer) and same job arguments; the scripted "
    "command text (which contains item, conformer and argument) is what makes their hashes differ",
    "the test driver's post step, like molli's own drivers, only reads the return file and does not look at the "
    "exit code; it raises KeyError when the file is missing",
    "cache files are located by searching the cache directory for '<job>.out' (no layout is hard-coded); they are "
    "only touched by the tamper steps, never used by the oracle",
    "a history is abandoned after its first violating run",
    "strict_hash is left at its default (True)",
]
EXHAUSTIVE = False
CHUNK_TIMEOUT = 480

PROFILES = ("resume", "destonly", "argchange", "reuse", "tamper", "random")
KINDS = ("single", "vector")


def REQUIRED(tier):
    k = 1 if tier == "quick" else 8
    return {
        "run.checked": 60 * k,
        "history.single.completed": 10 * k, "history.vector.completed": 10 * k,
        "job.skip.in-destination": 20 * k, "job.skip.valid-cache": 20 * k,
        "job.exec.no-cache": 40 * k, "job.exec.cache-other-input": 8 * k, "job.exec.cache-failed-exit": 8 * k,
        "job.exec.cache-missing-return-file": 4 * k, "job.exec.cache-unreadable": 3 * k,
        "item.gained-now": 30 * k, "item.gained-from-cache": 8 * k, "item.absent": 15 * k, "item.kept": 15 * k,
        "item.vector.gained-mixed": 2 * k,
        "dest.only-key-preserved": 6 * k, "dest.other-unchanged": 20 * k,
        "outcome.ok": 40 * k, "outcome.fail_file": 8 * k, "outcome.fail_nofile": 8 * k, "outcome.omit": 6 * k,
        "tamper.applied": 8 * k, "jobmap.returned": 60 * k,
    }


def plan(tier, seed):
    n = 48 if tier == "quick" else 576
    specs = []
    for i in range(n):
        specs.append({"hist": i, "kind": KINDS[i % 2], "profile": PROFILES[(i // 2) % len(PROFILES)],
                      "timeout": 480})
    # the resume histories walk through all nine (unsuccessful, unsuccessful) outcome transitions of one item
    extra = 0
    for sp in specs:
        if sp["profile"] == "resume":
            sp["transition"] = extra
            extra += 1
    for t in range(extra, 9):          # quick has 8 resume histories: add what is missing so that all 9 pairs occur
        specs.append({"hist": n + t, "kind": KINDS[t % 2], "profile": "resume", "transition": t, "timeout": 480})
    return specs


# ======================================================================================================
# history generation (stdlib only; also used by the model-only self test)
# ======================================================================================================
KEY_POOL = ["m1", "m10", "mol-2", "k_3", "Et3N", "x4", "b7a", "q"]
ONLY_POOL = ["zz-only", "m1x", "old_9"]

P_RESUME = [["ok"], ["fail_nofile", "ok"], ["fail_file", "ok"], ["omit", "ok"], ["fail_file", "fail_nofile", "ok"],
            ["fail_file"], ["omit"], ["fail_nofile"], ["omit", "fail_file", "ok"], ["fail_file", "fail_file", "ok"]]
# every ordered pair of unsuccessful outcomes on consecutive attempts of one item (leftovers of attempt n must not
# leak into attempt n+1), then success
P_TRANSITIONS = [[a, b, "ok"] for a in ("fail_file", "fail_nofile", "omit") for b in ("fail_file", "fail_nofile", "omit")]
P_REEXEC = [["ok"], ["ok"], ["ok", "fail_file"], ["ok", "omit"], ["ok", "fail_nofile"], ["ok", "ok", "fail_file"],
            ["fail_file", "ok"], ["omit", "ok"], ["ok", "fail_file", "ok"]]
P_CRASH = [["ok", "crash"], ["crash", "ok"], ["ok", "crash", "ok"]]

MAX_EXEC = {"quick": 16, "thorough": 24}


def gen_history(rng, kind, profile, tier="quick", transition=None):
    from vmon.models import jobmapmodel as jm

    n_items = rng.randint(3, 5) if kind == "single" else rng.randint(3, 4)
    keys = rng.sample(KEY_POOL, n_items)
    if kind == "vector":
        confs = {k: rng.choice([1, 2, 2, 3]) for k in keys}
        if all(c == 1 for c in confs.values()):
            confs[keys[0]] = 2
        jobs = {k: [f"{k}.{c}" for c in range(confs[k])] for k in keys}
    else:
        confs = {}
        jobs = {k: [k] for k in keys}
    all_jobs = [j for k in keys for j in jobs[k]]

    pool = {"resume": P_RESUME, "destonly": P_RESUME, "argchange": P_REEXEC, "reuse": P_RESUME,
            "tamper": P_REEXEC, "random": P_RESUME + P_REEXEC + P_CRASH}[profile]
    plans = {j: list(rng.choice(pool)) for j in all_jobs}
    if profile == "argchange" and rng.random() < 0.6:
        plans[all_jobs[1]] = ["ok", "crash"]      # extension: the runner dies during the re-execution
    if profile in ("resume", "reuse", "destonly"):
        # guarantee a first-attempt failure, a plain success and (vector) a half-failed item
        plans[all_jobs[0]] = ["ok"]
        plans[all_jobs[-1]] = list(rng.choice([["fail_nofile", "ok"], ["fail_file", "ok"], ["omit", "ok"]]))
        if profile == "resume" and len(all_jobs) >= 3:
            plans[all_jobs[1]] = list(P_TRANSITIONS[transition % len(P_TRANSITIONS)] if transition is not None
                                      else rng.choice(P_TRANSITIONS))
        if kind == "vector":
            multi = [k for k in keys if confs[k] > 1]
            k = rng.choice(multi)
            plans[jobs[k][0]] = ["ok"]
            plans[jobs[k][1]] = list(rng.choice([["fail_file", "ok"], ["fail_nofile", "ok"], ["omit", "ok"]]))

    # sources: normally one; sometimes the source grows before a later run
    sources = [list(keys)]
    grow_at = None
    prepop = {}
    runs = []

    def run(arg, dest, tamper=(), source=0):
        return {"arg": arg, "dest": dest, "n_workers": rng.randint(1, 4), "tamper": [list(t) for t in tamper],
                "source": source, "positional": rng.random() < 0.3}

    def some(seq, lo, hi):
        seq = list(seq)
        n = min(len(seq), rng.randint(lo, hi))
        return rng.sample(seq, n)

    if profile == "resume":
        if rng.random() < 0.4:
            prepop[0] = {"src": some(keys[1:], 1, 1), "only": []}
        for _ in range(rng.randint(3, 4)):
            runs.append(run("a", 0))
        if rng.random() < 0.3 and n_items >= 4:
            sources = [keys[:-1], list(keys)]
            grow_at = rng.randint(1, len(runs) - 1)
    elif profile == "destonly":
        prepop[0] = {"src": some(keys[1:], 0, 1), "only": some(ONLY_POOL, 1, 2)}
        for _ in range(rng.randint(1, 3)):
            runs.append(run("a", 0))
    elif profile == "argchange":
        runs.append(run("a", 0))
        runs.append(run("b", 1))
        tail = rng.choice([[], [("a", 2)], [("b", 2)], [("b", 0), ("a", 2)], [("b", 2), ("b", 2)]])
        for a, d in tail:
            runs.append(run(a, d))
        if rng.random() < 0.3:
            prepop[1] = {"src": some(keys, 1, 1), "only": some(ONLY_POOL, 0, 1)}
    elif profile == "reuse":
        runs.append(run("a", 0))
        runs.append(run("a", 1))
        for d in rng.choice([[], [1], [2], [1, 2]]):
            runs.append(run("a", d))
    elif profile == "tamper":
        runs.append(run("a", 0))
        r = 1
        for _ in range(rng.randint(1, 2)):
            ops = []
            victims = some(all_jobs, 1, 3)
            for j in victims:
                op = rng.choice(["delete", "corrupt", "corrupt", "copy", "copy", "flip_exit", "rehash"])
                if r == 1 and not ops:
                    op = "corrupt"      # every tamper history has an unreadable cache file in front of a fresh destination
                if op == "copy":
                    others = [o for o in all_jobs if o != j]
                    ops.append(("copy", rng.choice(others), j))
                elif op == "corrupt":
                    ops.append(("corrupt", j, rng.choice(["empty", "garbage", "truncate", "text"])))
                else:
                    ops.append((op, j))
            runs.append(run("a", r, tamper=ops))
            r += 1
    else:  # random
        for d in range(3):
            if rng.random() < 0.35:
                prepop[d] = {"src": some(keys, 0, 2), "only": some(ONLY_POOL, 0, 2)}
        for _ in range(rng.randint(1, 4)):
            ops = []
            if runs and rng.random() < 0.35:
                j = rng.choice(all_jobs)
                op = rng.choice(["delete", "corrupt", "copy", "flip_exit", "rehash"])
                if op == "copy":
                    ops.append(("copy", rng.choice([o for o in all_jobs if o != j]), j))
                elif op == "corrupt":
                    ops.append(("corrupt", j, rng.choice(["empty", "garbage", "truncate", "text"])))
                else:
                    ops.append((op, j))
            runs.append(run(rng.choice("aab"), rng.randrange(3), tamper=ops))
        if rng.random() < 0.25 and n_items >= 4 and len(runs) >= 2:
            sources = [keys[:-1], list(keys)]
            grow_at = rng.randint(1, len(runs) - 1)
    if grow_at is not None:
        for i, r in enumerate(runs):
            r["source"] = 0 if i < grow_at else 1

    H = {"kind": kind, "profile": profile, "keys": keys, "confs": confs, "plans": plans,
         "prepop": {str(d): v for d, v in prepop.items()}, "sources": sources, "runs": runs}

    # bound the cost: drop trailing runs while the model predicts too many executions
    while len(H["runs"]) > 1 and sum(x.n_exec() for x in simulate_history(H)) > MAX_EXEC.get(tier, 22):
        H["runs"].pop()
    return H


def jobs_of(H, key):
    if H["kind"] == "vector":
        return [f"{key}.{c}" for c in range(H["confs"][key])]
    return [key]


def source_map(H, idx):
    return {k: jobs_of(H, k) for k in H["sources"][idx]}


def pre_value(key):
    return {"pre": key}


def model_for(H):
    from vmon.models import jobmapmodel as jm

    m = jm.JobMapModel(H["plans"])
    for d, pp in H["prepop"].items():
        for k in pp["src"] + pp["only"]:
            m.prepopulate(int(d), k, pre_value(k))
    for d in range(3):
        m.dest(d)
    return m


def simulate_history(H):
    from vmon.models import jobmapmodel as jm

    m = model_for(H)
    out = []
    for r in H["runs"]:
        for t in r["tamper"]:
            jm.apply_tamper(m, t)
        x = m.step(source_map(H, r["source"]), r["dest"], r["arg"])
        m.commit(x)
        out.append(x)
    return out


def nontrivial(expects):
    return len(expects) >= 2 and any(x.n_exec() > 0 and x.n_skip() > 0 for x in expects[1:])


def brief(H, expects):
    return {"kind": H["kind"], "profile": H["profile"], "items": len(H["keys"]),
            "conformers": H["confs"] or None,
            "prepop": H["prepop"] or None,
            "runs": [{"arg": r["arg"], "dest": r["dest"], "w": r["n_workers"], "tamper": r["tamper"] or None,
                      "expect_exec": x.n_exec(), "expect_skip": x.n_skip()} for r, x in zip(H["runs"], expects)],
            "plans": {j: "/".join(p) for j, p in list(H["plans"].items())[:6]}}


# ======================================================================================================
# the scripted command
# ======================================================================================================
def make_script(cdir, job, arg, plan):
    cases = " ".join(f"{i + 1}) m={m};;" for i, m in enumerate(plan[:-1])) + f" *) m={plan[-1]};;"
    tagline = f"job={job} arg={arg} attempt=$n"
    return (
        f'f={cdir}/{job}; touch "$f"; n=$(($(wc -l < "$f")+1)); echo "$n {arg}" >> "$f"; '
        f'case $n in {cases} esac; echo "{tagline} mode=$m"; '
        f'case $m in '
        # a second requested file, logs/warnings.log, sits in a sub-directory the command makes and is legitimately
        # EMPTY after a clean run
        f'ok) echo "{tagline} status=ok" > result.txt; mkdir -p logs; : > logs/warnings.log; exit 0;; '
        f'fail_file) echo "{tagline} status=partial" > result.txt; mkdir -p logs; : > logs/warnings.log; exit 3;; '
        f'fail_nofile) exit 4;; '
        f'omit) mkdir -p logs; : > logs/warnings.log; exit 0;; '
        f'crash) kill -9 $PPID; exit 0;; '
        f'esac; exit 9'
    )


def make_driver(cfg):
    """a driver declared the way molli's own drivers are (cf. molli/pipeline/xtb.py)"""
    import molli as ml
    from molli.pipeline import Job, JobInput
    from molli.pipeline.driver import DriverBase

    def job_name(M):
        c = int(round(float(M.coords[0][0])))      # conformers carry their index, molecules carry -1
        return M.name if c < 0 else f"{M.name}.{c}"

    class C18Driver(DriverBase):
        default_executable = "sh"

        @Job(return_files=("result.txt", "logs/warnings.log")).prep
        def work_m(self, M, tag="a"):
            job = job_name(M)
            script = make_script(cfg["cdir"], job, tag, cfg["plans"][job])
            return JobInput(
                M.name,
                commands=[(f"{self.executable} -c {shlex.quote(script)}", "work")],
                files={"item.txt": f"{job}\n".encode()},
                return_files=self.return_files,
            )

        @work_m.post
        def work_m(self, out, M, tag="a", **kwargs):
            txt = out.files["result.txt"].decode()
            rec = dict(tok.split("=", 1) for tok in txt.split())
            res = ml.Molecule(M)
            res.attrib = {"c18": {"obj": job_name(M), "post_arg": tag, "out": rec}}
            return res

        work_ens = Job.vectorize(work_m)

        @work_ens.reduce
        def work_ens(self, outputs, ens, *args, **kwargs):
            recs = [m.attrib["c18"] for m in outputs]
            new = ml.ConformerEnsemble(ens)
            new.attrib = {"c18": {"obj": ens.name, "objs": [r["obj"] for r in recs],
                                  "post_args": [r["post_arg"] for r in recs], "outs": [r["out"] for r in recs]}}
            return new

    return C18Driver()


# ======================================================================================================
# running one history against the real jobmap
# ======================================================================================================
class Abort(Exception):
    pass


def run_chunk(spec, ctx):
    case = [spec["hist"]]
    if not ctx.want(case):
        return
    rng = ctx.rng("history", spec["hist"])
    H = gen_history(rng, spec["kind"], spec["profile"], ctx.tier, transition=spec.get("transition"))
    expects = simulate_history(H)
    ctx.case(case, dkey=json.dumps(H, sort_keys=True), nontrivial=nontrivial(expects), sample=brief(H, expects))
    ctx.count(f"history.{H['kind']}.started")
    ctx.count(f"profile.{H['profile']}")
    try:
        run_history(H, ctx, case)
    except Abort:
        ctx.count("history.abandoned-after-violation")
    else:
        ctx.count(f"history.{H['kind']}.completed")


def run_history(H, ctx, case):
    import numpy as np
    import molli as ml
    from molli.pipeline import jobmap, JobOutput
    from vmon.models import jobmapmodel as jm

    vector = H["kind"] == "vector"
    Lib = ml.ConformerLibrary if vector else ml.MoleculeLibrary
    ext = ".clib" if vector else ".mlib"
    root = Path(ctx.tmp) / "h"
    shutil.rmtree(root, ignore_errors=True)
    cdir, scratch, cache = root / "counters", root / "scratch", root / "cache"
    for p in (cdir, scratch):
        p.mkdir(parents=True)
    drv = make_driver({"cdir": str(cdir), "plans": H["plans"]})
    job = drv.work_ens if vector else drv.work_m

    # ---- objects
    def make_obj(key, pre=False):
        i = (H["keys"] + ONLY_POOL).index(key)
        m = ml.Molecule(n_atoms=2 + i % 2, name=key)
        xyz = np.zeros((m.n_atoms, 3))
        xyz[:, 1] = np.arange(m.n_atoms) + 0.25 * i
        xyz[0, 0] = -1.0
        m.coords = xyz
        if not vector:
            if pre:
                m.attrib = {"c18": pre_value(key)}
            return m
        nc = H["confs"].get(key, 2)
        e = ml.ConformerEnsemble(m, n_conformers=nc)
        cs = np.zeros((nc, m.n_atoms, 3))
        for c in range(nc):
            cs[c] = xyz
            cs[c, 0, 0] = float(c)
        e.coords = cs
        if pre:
            e.attrib = {"c18": pre_value(key)}
        return e

    src_path = root / f"source{ext}"
    src = Lib(src_path, overwrite=True, readonly=False)
    with src.writing():
        for k in H["sources"][0]:
            src[k] = make_obj(k)
    src_have = list(H["sources"][0])
    dst_paths = {d: root / f"dest{d}{ext}" for d in range(3)}
    for d, p in dst_paths.items():
        lib = Lib(p, overwrite=True, readonly=False)
        pp = H["prepop"].get(str(d))
        if pp:
            with lib.writing():
                for k in pp["src"] + pp["only"]:
                    lib[k] = make_obj(k, pre=True)
    del src, lib

    model = model_for(H)

    # ---- observation helpers
    def counts():
        out = {}
        for j in H["plans"]:
            p = cdir / j
            out[j] = len(p.read_text().splitlines()) if p.exists() else 0
        return out

    def norm_rec(key, rec, name):
        if not isinstance(rec, dict):
            return {"unrecognised": repr(rec)[:80]}
        if "pre" in rec:
            return {"pre": rec["pre"]} if name == key else {"pre": rec["pre"], "name": name}

        def out1(o):
            try:
                return {"job": o.get("job"), "arg": o.get("arg"), "attempt": int(o.get("attempt")),
                        "status": o.get("status")}
            except Exception:
                return {"unrecognised": repr(o)[:80]}
        if vector:
            v = {"obj": rec.get("obj"), "outs": [out1(o) for o in rec.get("outs", ())]}
            pa = set(rec.get("post_args", ()))
            v["post_arg"] = pa.pop() if len(pa) == 1 else sorted(pa)
            objs = list(rec.get("objs", ()))
            if objs != [o["job"] for o in v["outs"] if "job" in o]:
                v["objs"] = objs           # conformer i was processed with the output of another job
        else:
            v = {"obj": rec.get("obj"), "post_arg": rec.get("post_arg"), "outs": [out1(rec.get("out", {}))]}
        if name != key:
            v["name"] = name
        return v

    def read_dest(d):
        lib = Lib(dst_paths[d], readonly=True)
        out = {}
        with lib.reading(timeout=60):
            for k in sorted(lib.keys()):
                try:
                    v = lib[k]
                    rec = norm_rec(k, v.attrib.get("c18"), v.name)
                    if vector and "outs" in rec and v.n_conformers != len(rec["outs"]):
                        rec["n_conformers"] = v.n_conformers
                    out[k] = rec
                except Exception as e:  # noqa
                    out[k] = {"unreadable": f"{type(e).__name__}: {e}"[:120]}
        return out

    # ---- cache files (located by search; only the tamper steps use them)
    def cache_files(j):
        return [p for p in cache.rglob(f"{j}.out") if p.is_file()] if cache.is_dir() else []

    def cache_home():
        for j in H["plans"]:
            f = cache_files(j)
            if f:
                return f[0].parent
        return None

    def tamper(t, ridx):
        op, j = t[0], t[1]
        files = cache_files(j)
        have_model = j in model.cache
        if bool(files) != have_model:
            ctx.count("tamper.skipped.model-and-files-disagree")
            return
        if op == "delete":
            if not files:
                ctx.count("tamper.skipped.nothing-to-do")
                return
            for p in files:
                p.unlink()
        elif op == "corrupt":
            variant = t[2]
            targets = files
            if not targets:
                home = cache_home()
                if home is None:
                    ctx.count("tamper.skipped.no-cache-files")
                    return
                targets = [home / f"{j}.out"]
            for p in targets:
                old = p.read_bytes() if p.exists() else b""
                if variant == "truncate" and len(old) > 8:
                    p.write_bytes(old[: len(old) // 2])
                elif variant == "garbage":
                    p.write_bytes(bytes((37 * i + 11) % 256 for i in range(64)))
                elif variant == "text":
                    p.write_bytes(b"this is not a job output\n")
                else:
                    p.write_bytes(b"")
        elif op == "copy":
            sfiles = cache_files(j)
            if not sfiles:
                ctx.count("tamper.skipped.nothing-to-do")
                return
            dst_job = t[2]
            (sfiles[0].parent / f"{dst_job}.out").write_bytes(sfiles[0].read_bytes())
            for p in cache_files(dst_job)[1:]:
                p.write_bytes(sfiles[0].read_bytes())
        elif op in ("flip_exit", "rehash"):
            e = model.cache.get(j)
            if e is None or not e.readable:
                ctx.count("tamper.skipped.nothing-to-do")
                return
            for p in files:
                o = JobOutput.load(p)
                if op == "flip_exit":
                    o.exitcode = 2
                else:
                    o.input_hash = b"c18-not-the-hash-of-any-input"
                o.dump(p)
        if not jm.apply_tamper(model, tuple(t)):
            raise RuntimeError(f"tamper {t} applied to the files but not to the model")
        ctx.count("tamper.applied")
        ctx.count(f"tamper.{op}")

    # ---- the runs
    for ridx, r in enumerate(H["runs"]):
        rcase = case
        # source growth
        want_src = H["sources"][r["source"]]
        new = [k for k in want_src if k not in src_have]
        if new:
            s = Lib(src_path, readonly=False)
            with s.writing():
                for k in new:
                    s[k] = make_obj(k)
            src_have.extend(new)
            ctx.count("source.grown")
            del s
        for t in r["tamper"]:
            tamper(t, ridx)

        x = model.step(source_map(H, r["source"]), r["dest"], r["arg"])
        before = counts()
        others_before = {d: read_dest(d) for d in dst_paths if d != r["dest"]}
        where = {"run": ridx, "arg": r["arg"], "dest": r["dest"], "n_workers": r["n_workers"],
                 "kind": H["kind"], "profile": H["profile"]}

        source = Lib(src_path, readonly=True)
        dest = Lib(dst_paths[r["dest"]], readonly=False)
        kw = dict(cache_dir=cache, scratch_dir=scratch, n_workers=r["n_workers"])
        if r["positional"]:
            kw["args"] = (r["arg"],)
        else:
            kw["kwargs"] = {"tag": r["arg"]}
        bad = False
        try:
            jobmap(job, source, dest, **kw)
        except Exception as e:  # "the call returns normally"
            bad = True
            key = classify_exception(e, x, model, vector)
            ctx.violation(key, case=rcase, where=where, error=f"{type(e).__name__}: {e}"[:300],
                          traceback=[f"{fr.name}:{fr.lineno} {fr.line}"[:140] for fr in
                                     traceback.extract_tb(e.__traceback__)[-3:]],
                          dest_only_keys=x.dest_only,
                          cache={j: model.cache[j].describe() for j in sorted(model.cache)[:6]},
                          history=brief(H, simulate_history(H)))
        else:
            ctx.count("jobmap.returned")
        del source, dest
        if bad:
            raise Abort()

        # -- executions
        after = counts()
        touched = set()
        for j in sorted(x.executions):
            exp = x.executions[j]
            got = after[j] - before[j]
            if got == exp:
                ctx.count(f"job.{'exec' if exp else 'skip'}.{x.why[j]}")
                if exp:
                    ctx.count(f"outcome.{x.mode[j]}")
                continue
            bad = True
            touched.add(j)
            e = model.cache.get(j)
            ctx.violation(exec_key(exp, got, x.why[j]), case=rcase, where=where, job=j, expected_executions=exp,
                          observed_executions=got, reason_expected=x.why[j],
                          cache_entry=e.describe() if e else None, plan=H["plans"][j],
                          attempts_before=before[j])
        for j in H["plans"]:
            if j not in x.executions and after[j] != before[j]:
                bad = True
                ctx.violation("executed-job-of-item-outside-source", case=rcase, where=where, job=j,
                              observed_executions=after[j] - before[j])

        # -- destination
        obs = read_dest(r["dest"])
        src_now = source_map(H, r["source"])
        for k in sorted(set(obs) | set(x.dest_after)):
            if any(j in touched for j in src_now.get(k, ())):
                continue      # consequence of an execution mismatch already reported
            exp_v, got_v = x.dest_after.get(k), obs.get(k)
            if exp_v == got_v:
                st = x.item.get(k)
                if st is not None:
                    ctx.count(f"item.{st}")
                    if vector and st == "gained-mixed":
                        ctx.count("item.vector.gained-mixed")
                elif k in x.dest_only:
                    ctx.count("dest.only-key-preserved")
                continue
            bad = True
            ctx.violation(dest_key(k, exp_v, got_v, x, src_now, model), case=rcase, where=where, item=k,
                          expected=exp_v, observed=got_v, item_status=x.item.get(k),
                          jobs={j: {"why": x.why[j], "mode": x.mode.get(j)} for j in src_now.get(k, ())},
                          plans={j: H["plans"][j] for j in src_now.get(k, ())})
        for k in x.item:
            if x.item[k] == "absent" and k not in obs:
                ctx.count("item.absent")
        for d, ob in others_before.items():
            now = read_dest(d)
            if now != ob:
                bad = True
                ctx.violation("other-destination-modified", case=rcase, where=where, destination=d,
                              before=ob, after=now)
            else:
                ctx.count("dest.other-unchanged")
        ctx.count("run.checked")
        ctx.count("cache.files-seen", sum(len(cache_files(j)) for j in H["plans"]))
        # passive evidence only (never decides): what the cache holds for the jobs that just ran
        for j, ne in x.new_entries.items():
            if ne is None:
                continue
            for p in cache_files(j)[:1]:
                try:
                    o = JobOutput.load(p)
                    seen = (o.exitcode == 0, "result.txt" in (o.files or {}))
                except Exception:
                    seen = None
                ctx.count("cache.entry." + ("as-modelled" if seen == (ne.exit_ok, ne.has_file)
                                            else "differs-from-model(informational)"))
        if bad:
            raise Abort()
        model.commit(x)


# ======================================================================================================
# naming the mechanism of a violation
# ======================================================================================================
def classify_exception(e, x, model, vector):
    tb = traceback.extract_tb(e.__traceback__)
    inner = "?"
    for fr in reversed(tb):
        if "/molli/" in fr.filename:
            inner = fr.name
            break
    in_jobmap = any(fr.name == "jobmap" and "/molli/" in fr.filename for fr in tb)
    if isinstance(e, KeyError) and x.dest_only and in_jobmap and inner != "put":
        arg = e.args[0] if e.args else None
        if isinstance(arg, bytes):
            arg = arg.decode(errors="replace")
        if arg in x.dest_only or any(k in str(arg) for k in x.dest_only):
            return "destination-only-key-keyerror"
    if isinstance(e, AttributeError) and vector and "hash" in str(e) and inner == "jobmap":
        cached = [j for j, n in x.executions.items() if x.why[j] not in ("in-destination", "no-cache")]
        if cached:
            return "vectorised-rerun-attributeerror"
    return f"jobmap-raises:{type(e).__name__}:{inner}"


def exec_key(exp, got, why):
    if got > 1:
        return "executed-more-than-once" + ("" if exp else ":" + why)
    if exp == 1 and got == 0:
        return {
            "cache-missing-return-file": "missing-return-file-cached-as-success",
            "cache-other-input": "cache-of-other-input-reused",
            "cache-failed-exit": "failed-cache-entry-reused",
            "cache-unreadable": "unreadable-cache-entry-blocks-execution",
            "no-cache": "item-not-executed",
        }.get(why, f"not-executed:{why}")
    return {"in-destination": "reexecuted:item-in-destination",
            "valid-cache": "reexecuted:valid-cache"}.get(why, f"reexecuted:{why}")


def dest_key(k, exp_v, got_v, x, src_now, model):
    jobs = src_now.get(k, ())
    if k not in src_now:
        if exp_v is None:
            return "destination-unexpected-key"
        return "destination-only-key-lost" if got_v is None else "destination-only-key-changed"
    st = x.item.get(k)
    if st == "kept":
        return "destination-existing-key-lost" if got_v is None else "destination-existing-key-overwritten"
    if got_v is None:
        return {"gained-now": "succeeded-item-missing-from-destination",
                "gained-from-cache": "validly-cached-item-missing-from-destination",
                "gained-mixed": "partly-cached-item-missing-from-destination"}.get(st, f"destination-missing:{st}")
    if exp_v is None:  # the item failed in this run but is in the destination
        modes = [x.mode.get(j) for j in jobs]
        outs = got_v.get("outs", []) if isinstance(got_v, dict) else []
        if isinstance(got_v, dict) and (got_v.get("obj") != k or any(o.get("job") not in jobs for o in outs)):
            return "result-stored-under-another-items-key"
        if any(o.get("status") == "partial" for o in outs) and "fail_file" in modes:
            return "failed-run-processed"
        if "crash" in modes:
            for j in jobs:
                e = model.cache.get(j)
                if x.mode.get(j) == "crash" and e is not None and e.readable and e.input != (j, x.arg):
                    return "stale-output-of-other-input-processed"
            return "stale-output-processed-after-runner-death"
        return "failed-item-in-destination"
    # both present, values differ: which field
    if not isinstance(got_v, dict) or "outs" not in got_v:
        return "result-value-unrecognised"
    if got_v.get("obj") != exp_v["obj"] or "name" in got_v:
        return "result-built-from-wrong-object"
    eo, go = exp_v["outs"], got_v["outs"]
    if len(eo) != len(go) or "n_conformers" in got_v:
        return "result-conformer-count-differs"
    if "objs" in got_v:
        return "result-conformer-output-misassigned"
    for a, b in zip(eo, go):
        if a.get("job") != b.get("job"):
            return "result-from-another-jobs-output"
    for a, b in zip(eo, go):
        if b.get("status") != "ok":
            return "failed-run-processed"
        if a.get("arg") != b.get("arg"):
            return "result-from-output-of-other-arguments"
        if a.get("attempt") != b.get("attempt"):
            return "result-from-stale-attempt"
    if got_v.get("post_arg") != exp_v["post_arg"]:
        return "result-processed-with-other-arguments"
    return "result-value-differs"


LEVEL_TEXT = ("Held on the executions produced: every history is a sequence of real jobmap calls (real library files, "
              "real _molli_run subprocesses, real cache directory) whose every run is compared with an executable "
              "reference model - executions per job counted from files the commands write themselves, destination "
              "contents read back through a fresh handle. Reach is that of the history generator (six directed "
              "profiles x single/vectorised); not a proof.")
LEVEL_NOTE = ("Trusted: the model in vmon/models/jobmapmodel.py, /bin/sh, the library round trip (C01) used to read "
              "the destination, JobOutput.load/dump used by two tamper steps. Success of a run is defined as exit 0 "
              "and return file present. strict_hash=False is not exercised; jobmap_sge needs qsub and is not run.")
