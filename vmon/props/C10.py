"""
C10 -- damaged or truncated mol2 / xyz input is rejected, never returned as a partial molecule.

Monitor shape: fault enumeration with a recovery oracle + runtime contracts + a termination monitor.

For every pristine text T (bundled files, a concatenation of bundled files, generated multi-molecule
files written by molli itself) and every damaged variant T' the real loaders are run and the outcome is
judged by an oracle that does not use the parsers under test:

* an exception is always an acceptable outcome;
* a returned list is acceptable only if every molecule k has exactly the atom / bond counts that the k-th
  header of T' literally declares and is either equal, field by field, to the molecule of T that the k-th
  record of T' was made from, or equal to what the (structurally complete) record of T' literally states --
  the latter only if T' as a whole is a well-formed file (every record complete);
* element symbols and mol2 bond types are read with the oracle's own frozen tables, never with the library;
* a slice of the damaged texts (and all texts with a byte no UTF-8 text contains) is written to a file and read
  through the loaders that open the file themselves (Molecule / Structure / CartesianGeometry load_*(path),
  molli.load / load_all, ConformerEnsemble.load_*);
* ``LineReader.__next__`` may be called at most 2*lines+16 times per parse (logical termination bound);
  a SIGALRM watchdog is only an inconclusive backstop;
* icontract contracts on ``read_mol2`` / ``read_xyz`` assert block counts == header counts for every
  yielded block (recorded, never altering the outcome).
"""
from __future__ import annotations

import json
import os

ID = "C10"
LEVEL = "fault_enumeration"
EXHAUSTIVE = False
CHUNK_TIMEOUT = 600
RULE = ("per pristine text (bundled pentane_confs/dummy .mol2/.xyz, isornitrate+benzene+dmf concatenated, seeded generated "
        "files of 3-4 mutually different molecules written by molli's dumps_mol2/dumps_xyz): EVERY truncation at a line "
        "boundary, EVERY byte offset inside the last record, EVERY single line deletion and duplication, plus seeded token "
        "corruptions (digit change in a count line, removed field, added field, non-numeric coordinate, digit change / cut "
        "inside a coordinate, a number of an index column -- atom id, bond id, bond endpoint, UNITY entry index / attribute "
        "count -- changed into another number incl. 0 / negative / too large / a neighbour's, garbled UNITY attribute "
        "value or name) and seeded single-byte damage with a byte that is not UTF-8 (files only); generated texts include "
        "records with UNITY_ATOM_ATTR / UNITY_BOND_ATTR blocks before and behind the BOND block and as the last block; "
        "no line swaps. non-trivial = the damage raises or changes the parse; distinct by "
        "(format, damage kind, role of the damaged line, outcome class)")
ASSUMPTIONS = [
    "an exception of any Exception subclass counts as rejection",
    "the k-th returned molecule is matched with the k-th '@<TRIPOS>MOLECULE' record (mol2) / the k-th count-driven record "
    "(xyz) of the damaged text; its header is the counts line of that record",
    "a record all of whose significant lines are those of a pristine record must parse to exactly the pristine molecule "
    "(snapshot equality, no tolerance)",
    "damage inside a token that leaves a structurally complete record is accepted with the value the damaged text "
    "literally states (Python int()/float() of the token; element symbol and bond type looked up in the frozen tables of "
    "vmon/models/damagedinput.py, element symbols case-insensitively; only the meaning of a mol2 atom type SUFFIX -- "
    "hybridisation / geometry -- is taken from Atom.set_mol2_type), and only if every record of the damaged text is "
    "complete (a loader that returns everything has read the whole text); for the loaders that return the first record "
    "only, the rest of the text is not considered",
    "the atom id and bond id columns carry no information the molecule keeps: a changed id must give the pristine "
    "molecule or an exception; bond endpoints and UNITY entry indices must lie in 1..count of their own record",
    "a ConformerEnsemble is judged conformer by conformer: record k complete, its coordinates / atomic charges those "
    "record k states, atoms and bonds those record 0 states (only for texts whose pristine ensemble this reading accepts)",
    "a file is judged by the text a reader sees that opens it the way the loaders do (default encoding, undecodable "
    "bytes kept as lone surrogates): a byte that is no text makes its token unreadable",
    "a returned molecule equal to the pristine molecule with the declared counts is accepted even if the damaged record "
    "has surplus or missing lines (the statement only forbids partial / wrong molecules)",
    "silently ignoring a damaged tail after complete molecules is not counted as a violation (every returned molecule is "
    "complete); it is counted in monitor 'outcome.list-shorter-than-complete-records'",
    "termination bound: LineReader.__next__ calls <= 2*lines+16 per parse; wall clock (20 s/parse) only => inconclusive",
]
TECHNIQUE = ("runtime monitoring: exhaustive truncation / deletion / duplication fault enumeration + seeded token corruption "
             "against the real loaders, literal-reading oracle, LineReader step bound, icontract block contracts")
LEVEL_TEXT = ("Held on the executions produced: for each text every line-boundary truncation, every byte truncation of the "
              "last record, every single-line deletion and duplication and a seeded set of token corruptions were parsed by "
              "the real loaders; each outcome was an exception or a list of molecules that an independent literal reading "
              "of the damaged text confirms complete and correct, within the LineReader step bound. Not a proof: texts and "
              "token corruptions are a finite seeded sample; single damages only.")
LEVEL_NOTE = ("Trusted: vmon/models/damagedinput.py (literal reading, frozen element / bond type tables, damage generator), "
              "vmon/snap.py, Atom.set_mol2_type for the suffix of an atom type only. Mechanisms in KNOWN_ON_UNCHANGED_TREE "
              "are evaluated and counted but not reported (tools/findings/C10-ext.json). A parser that does not use LineReader leaves the termination monitor at 0 => inconclusive.")


# Mechanisms by which the UNCHANGED library breaks the property (written up in tools/findings/C10-ext.json with a proposed
# fix).  They are evaluated and counted ("known-on-unchanged-tree:<key>") but not reported.  REMOVE the entries once the
# library is repaired: the check then reports them like everything else.
KNOWN_ON_UNCHANGED_TREE = set()      # (its three entries were repaired in the library: b2e727f)
if os.environ.get("VERIF_C10_REPORT_KNOWN"):       # to try a repaired library before the set above is removed
    KNOWN_ON_UNCHANGED_TREE = set()


def REQUIRED(tier):
    big = tier != "quick"
    f = 8 if big else 1
    g = 3 if big else 1
    return {
        "pristine.texts": 45 if big else 12,
        "parse.mol2": 4000 * f, "parse.xyz": 1500 * f,
        "damage.lt": 500 * (3 if big else 1), "damage.bt": 2000 * (4 if big else 1), "damage.del": 500 * (3 if big else 1),
        "damage.dup": 500 * (3 if big else 1), "damage.tok": 60000 if big else 1500,
        "outcome.exception": 3000 * f, "outcome.list": 300 * f,
        "oracle.molecule-checked": 500 * f, "oracle.accepted-unchanged-record": 300 * f,
        "oracle.accepted-literal-value": 20 * f, "oracle.accepted-equal-to-pristine": 5 * f,
        "monitor.next-calls.parses": 4000 * f, "contract.mol2-block": 1000 * f, "contract.xyz-block": 500 * f,
        "reach.put_back": 100, "reach.mol2.unity-attr-text": 100,
        "reach.xyz-rejected.count-line-unreadable": 50, "reach.xyz-rejected.comment-line-missing": 2,
        "reach.xyz-rejected.atom-lines-fewer-than-declared": 50, "reach.xyz-rejected.atom-line-field-count": 50,
        "reach.xyz-rejected.atom-line-coordinate-not-numeric": 20,
        "reach.mol2-rejected.atom-lines-fewer-than-declared": 100, "reach.mol2-rejected.bond-lines-fewer-than-declared": 100,
        "reach.mol2-rejected.atom-lines-more-than-declared": 50, "reach.mol2-rejected.bond-lines-more-than-declared": 50,
        "reach.mol2-rejected.header-lines-missing": 10, "reach.mol2-rejected.header-counts-unreadable": 20,
        "reach.mol2-rejected.atom-line-coordinate-not-numeric": 20,
        # ---- added after the gap review
        "pristine.texts.unity-block-behind-bond-block": 2 * g, "pristine.texts.unity-bond-attr": 2 * g,
        "reach.mol2.unity-bond-attr-text": 4000 * g,
        "damage.cut-leaves-unity-block-last.UNITY_ATOM_ATTR": 140 * g, "damage.cut-leaves-unity-block-last.UNITY_BOND_ATTR": 75 * g,
        "damage.cut-leaves-unity-block-last.behind-bond-block": 170 * g,
        "reach.mol2-rejected.unity_atom_attr-entry-lines-fewer-than-declared": 40 * g,
        "reach.mol2-rejected.unity_bond_attr-entry-lines-fewer-than-declared": 40 * g,
        "damage.column.atom-id": 190 * g, "damage.column.bond-id": 75 * g, "damage.column.bond-endpoint": 300 * g,
        "damage.column.unity-atom-index": 30 * g, "damage.column.unity-bond-index": 20 * g,
        "damage.column.unity-atom-attr-count": 10 * g, "damage.column.unity-bond-attr-count": 5 * g,
        "damage.column.unity-atom-value": 95 * g, "damage.column.unity-bond-value": 50 * g,
        "damage.below-one.bond-endpoint": 80 * g, "damage.below-one.unity-index": 12 * g,
        "reach.mol2-rejected.bond-endpoint-above-atom-count": 95 * g,
        "reach.mol2-rejected.unity_atom_attr-index-above-count": 7 * g, "reach.mol2-rejected.unity_bond_attr-index-above-count": 5 * g,
        "damage.byte": 500 * g, "parse.path": 3400 * g, "parse.path.byte": 1000 * g, "reach.path-error.UnicodeDecodeError": 1000 * g,
        "entry.Molecule.load_all_mol2(path)": 500 * g, "entry.Structure.load_all_mol2(Path)": 500 * g,
        "entry.Molecule.load_mol2(path)": 500 * g, "entry.molli.load_all(path)": 600 * g, "entry.molli.load(path)": 600 * g,
        "entry.Molecule.load_all_xyz(path)": 130 * g, "entry.CartesianGeometry.load_all_xyz(Path)": 140 * g,
        "entry.Structure.load_xyz(path)": 140 * g,
        "entry.ConformerEnsemble.load_mol2(path)": 85 * g, "entry.ConformerEnsemble.load_xyz(path)": 60 * g,
        "outcome.ensemble": 7 * g, "oracle.conformer-checked": 30 * g,
        "oracle.altered-record.rest-of-text-complete": 900 * g,
    }


BUNDLED = [("bundled", "mol2", "pentane_confs.mol2"), ("bundled", "xyz", "pentane_confs.xyz"),
           ("bundled", "mol2", "dummy.mol2"), ("bundled", "xyz", "dummy.xyz"),
           ("concat", "mol2", "isornitrate.mol2+benzene.mol2+dmf.mol2")]
# relative cost of one text (number of chunks it is split into)
PARTS = {"pentane_confs.mol2": 8, "pentane_confs.xyz": 3, "isornitrate.mol2+benzene.mol2+dmf.mol2": 4}


def plan(tier, seed):
    quick = tier == "quick"
    texts = [list(t) for t in BUNDLED]
    n_gen = 3 if quick else 17
    for i in range(n_gen):
        texts.append(["gen", "mol2", i])
        texts.append(["gen", "xyz", i])
    texts.append(["gen-short-header", "mol2", 0])
    texts.append(["gen-foreign-blocks", "mol2", 0])
    texts += [["gen-unity", "mol2", i] for i in range(4 if quick else 12)]
    if not quick:
        texts += [["gen-short-header", "mol2", i] for i in range(1, 4)]
        texts += [["gen-foreign-blocks", "mol2", i] for i in range(1, 4)]
        texts += [["concat", "mol2", "dmf.mol2+dummy.mol2+isornitrate.mol2+propyne.mol2"],
                  ["concat", "mol2", "benzene.mol2+isornitrate.mol2"]]
    n_tok = 520 if quick else 5200
    n_byte = 60 if quick else 400
    specs = []
    for t in texts:
        parts = PARTS.get(t[2], 1) if isinstance(t[2], str) else 1
        if not quick:
            parts *= 4
        for p in range(parts):
            specs.append({"text": t, "part": p, "parts": parts, "n_tok": n_tok, "n_byte": n_byte})
    return specs


# ------------------------------------------------------------------------------------------------
# texts

GEN_LABELS = ["C1", "x", "H12", "a-b", "N_3", "lbl", "Q9", "at7"]


def build_text(tid, ctx):
    import molli as ml
    from pathlib import Path
    from vmon import gen

    kind, fmt, which = tid
    fdir = Path(ml.files.__file__).parent
    if kind == "bundled":
        return (fdir / which).read_text()
    if kind == "concat":
        out = ""
        for name in which.split("+"):
            t = (fdir / name).read_text()
            out += t if t.endswith("\n") else t + "\n"
        return out
    rng = ctx.rng("text", kind, fmt, which)
    elements = [ml.Element[s] for s in ("C", "H", "N", "O", "S", "Cl", "Br", "Si", "P", "F", "Na", "Fe")]
    n_mol = rng.choice([3, 3, 4])
    sizes = rng.sample([1, 2, 3, 4, 5, 6, 7, 8, 9, 11, 13] if kind != "gen-unity" else [3, 4, 5, 6, 7, 8, 9, 11, 13], n_mol)
    if rng.random() < 0.5:
        sizes.sort(reverse=rng.random() < 0.5)
    mols = []
    seen_nb = set()
    for j, n in enumerate(sizes):
        for _ in range(50):
            m = gen.molecule(rng, n_atoms=n, rich=False, labels=GEN_LABELS, special=0.0, name=f"g{which}m{j}x{n}",
                             elements=elements, p_dense=0.05)
            if m.n_bonds not in seen_nb or n == 1:
                break
        seen_nb.add(m.n_bonds)
        mols.append(m)
    if fmt == "xyz":
        return "".join(m.dumps_xyz() for m in mols)
    text = "".join(m.dumps_mol2() for m in mols)
    if kind == "gen-foreign-blocks":
        # the same records as another program would write them: with TRIPOS blocks molli does not interpret
        # (SUBSTRUCTURE, COMMENT, CRYSIN) in front of the ATOM and / or the BOND section
        lines = []
        k = 0
        for ln in text.splitlines(keepends=True):
            if ln.startswith("@<TRIPOS>ATOM") and k % 3 != 2:
                lines += ["@<TRIPOS>SUBSTRUCTURE\n", "     1 UNL1        1 TEMP              0 ****  ****    0 ROOT\n"]
            if ln.startswith("@<TRIPOS>BOND"):
                if k % 3 != 0:
                    lines += ["@<TRIPOS>COMMENT\n", "written by a foreign program\n"]
                k += 1
            lines.append(ln)
        text = "".join(lines)
    if kind == "gen-unity":
        # the same records as a program that stores formal charges / per-atom and per-bond properties writes them:
        # UNITY_ATOM_ATTR and UNITY_BOND_ATTR blocks ("index n_attr" + n_attr "name value" lines per entry) in front of
        # the BOND block, behind it, in both orders.  The last record ends with such a block; the unknown block that
        # closes the text makes every truncation in or right behind that block a text whose LAST block is a UNITY block
        # (read_mol2 cannot read a pristine text that ends inside one).  No comment lines: the UNITY loops do not skip them.
        out = []
        for k, m in enumerate(mols):
            L = [ln for ln in m.dumps_mol2().splitlines(keepends=True) if not ln.startswith("#")]
            ib = next(i for i, ln in enumerate(L) if ln.startswith("@<TRIPOS>BOND"))
            ab = _unity_block(rng, "ATOM", m.n_atoms)
            bb = _unity_block(rng, "BOND", m.n_bonds)
            layout = (k + int(which)) % 4
            if layout == 0:
                L = L[:ib] + ab + L[ib:] + bb
            elif layout == 1:
                L = L + ab
            elif layout == 2:
                L = L + bb + ab
            else:
                L = L + ab + bb
            out += L
        out += ["@<TRIPOS>COMMENT\n", "end of the data\n"]
        text = "".join(out)
    if kind == "gen-short-header":
        # the same records with the two-field counts line "n_atoms n_bonds" (legal TRIPOS) and no comment lines
        lines = []
        for ln in text.splitlines(keepends=True):
            if ln.startswith("# Produced"):
                continue
            t = ln.split()
            if len(t) == 5 and t[2:] == ["0", "0", "0"] and t[0].isdigit() and t[1].isdigit():
                ln = f"{t[0]} {t[1]}\n"
            lines.append(ln)
        text = "".join(lines)
    return text


def _unity_block(rng, what, n):
    """lines of one UNITY_<what>_ATTR block with 1-3 entries for a record of n atoms / bonds ([] if n == 0)"""
    if n <= 0:
        return []
    lines = [f"@<TRIPOS>UNITY_{what}_ATTR\n"]
    for idx in sorted(rng.sample(range(1, n + 1), min(n, rng.randint(1, 3)))):
        if what == "ATOM":
            attrs = [("charge", str(rng.choice([-2, -1, 1, 1, 2, 0])))]
            if rng.random() < 0.5:
                attrs.append(rng.choice([("spin", "0.5"), ("note", "x7"), ("mass", "13.003")]))
            if rng.random() < 0.25:
                attrs.reverse()
        else:
            attrs = [("stereo", rng.choice("EZ")), ("wiberg", f"{rng.uniform(0.5, 3.0):.2f}")]
            if rng.random() < 0.4:
                attrs = attrs[rng.randrange(2):][:1]
        lines.append(f"{idx} {len(attrs)}\n")
        lines += [f"{k} {v}\n" for k, v in attrs]
    return lines


# ------------------------------------------------------------------------------------------------
# monitors installed on the real code

class _Budget(BaseException):
    """raised by the LineReader.__next__ monitor once the logical bound is exceeded"""


class _Watchdog(BaseException):
    """raised by the SIGALRM backstop"""


class BlockCountContract(Exception):
    pass


class Monitors:
    def __init__(self, ctx):
        self.ctx = ctx
        self.next_calls = 0
        self.bound = 10 ** 9
        self.put_backs = 0
        self.block_failures = []
        self.blocks = {"mol2": 0, "xyz": 0}
        self.watchdog_fired = False

    def install(self):
        import sys
        import signal
        import icontract
        import molli  # noqa
        from molli.parsing import _reader, mol2 as pm, xyz as px

        mon = self
        LR = _reader.LineReader
        orig_next = LR.__next__
        orig_put = LR.put_back

        def counted_next(self_):
            mon.next_calls += 1
            if mon.next_calls > mon.bound:
                raise _Budget(f"LineReader.__next__ called {mon.next_calls} times, bound {mon.bound}")
            return orig_next(self_)

        def counted_put_back(self_, line):
            mon.put_backs += 1
            return orig_put(self_, line)

        LR.__next__ = counted_next
        LR.put_back = counted_put_back

        # ---- contracts: every yielded block has as many atoms / bonds as its header declares
        def _n(x):
            return 0 if x is None else len(x)

        def mol2_block_counts_match_header(block) -> bool:
            h = block.header
            if h is None:
                return block.atoms is None and block.bonds is None
            return _n(block.atoms) == (h.n_atoms or 0) and _n(block.bonds) == (h.n_bonds or 0)

        def xyz_block_counts_match_header(block) -> bool:
            return _n(block.atoms) == block.n_atoms

        @icontract.require(mol2_block_counts_match_header, error=BlockCountContract)
        def observe_mol2_block(block):
            return block

        @icontract.require(xyz_block_counts_match_header, error=BlockCountContract)
        def observe_xyz_block(block):
            return block

        def wrap(orig, observe, fmt):
            def monitored_reader(*a, **kw):
                for block in orig(*a, **kw):
                    mon.blocks[fmt] += 1
                    try:
                        observe(block)
                    except BlockCountContract:
                        mon.block_failures.append(_block_brief(fmt, block))
                    yield block
            monitored_reader.__name__ = orig.__name__
            monitored_reader.__wrapped__ = orig
            return monitored_reader

        n_rebound = 0
        for orig, observe, fmt in ((pm.read_mol2, observe_mol2_block, "mol2"), (px.read_xyz, observe_xyz_block, "xyz")):
            w = wrap(orig, observe, fmt)
            for name, module in list(sys.modules.items()):
                if not name.startswith("molli") or module is None:
                    continue
                for attr, val in list(vars(module).items()):
                    if val is orig:
                        setattr(module, attr, w)
                        n_rebound += 1
        self.ctx.note("contract_rebound_references", n_rebound)

        def on_alarm(signum, frame):
            mon.watchdog_fired = True
            raise _Watchdog()

        signal.signal(signal.SIGALRM, on_alarm)

    def run(self, fn, text, n_lines, seconds=20.0):
        """-> ("list", [objs]) | ("exception", exc) | ("budget", msg) | ("watchdog", None)"""
        import signal
        import warnings

        self.next_calls = 0
        self.put_backs = 0
        self.bound = 2 * n_lines + 16
        self.block_failures = []
        self.watchdog_fired = False
        out = None
        try:
            signal.setitimer(signal.ITIMER_REAL, seconds, 1.0)
            try:
                with warnings.catch_warnings():
                    warnings.simplefilter("ignore")
                    res = fn(text)
                out = ("list", res)
            except _Watchdog:
                out = ("watchdog", None)
            except _Budget as e:
                out = ("budget", str(e))
            except Exception as e:  # noqa: the rejection the property allows
                out = ("exception", e)
            finally:
                signal.setitimer(signal.ITIMER_REAL, 0)
        except _Watchdog:
            out = ("watchdog", None)
        if self.watchdog_fired:
            out = ("watchdog", None)
        elif self.next_calls > self.bound:
            out = ("budget", f"LineReader.__next__ called {self.next_calls} times, bound {self.bound}")
        return out


def _block_brief(fmt, block):
    try:
        if fmt == "mol2":
            h = block.header
            return {"fmt": fmt, "header": None if h is None else [h.name, h.n_atoms, h.n_bonds],
                    "atoms": None if block.atoms is None else len(block.atoms),
                    "bonds": None if block.bonds is None else len(block.bonds)}
        return {"fmt": fmt, "header": [block.n_atoms], "atoms": len(block.atoms)}
    except Exception as e:  # noqa
        return {"fmt": fmt, "err": repr(e)}


# ------------------------------------------------------------------------------------------------
# entry points under observation

def entries(fmt):
    """(name, class of the result, returns every record?, callable, mode).  mode 'str': the callable takes the text;
    'path': it takes the name of a file holding the text (the loaders open it themselves); 'ens-path': as 'path', the
    result is a ConformerEnsemble (judged by judge_ensemble).  The first entry is the primary one."""
    import io
    from pathlib import Path
    import molli as ml

    if fmt == "mol2":
        return [
            ("Molecule.loads_all_mol2", ml.Molecule, True, lambda t: ml.Molecule.loads_all_mol2(t), "str"),
            ("Structure.loads_all_mol2", ml.Structure, True, lambda t: ml.Structure.loads_all_mol2(t), "str"),
            ("Molecule.load_all_mol2(stream)", ml.Molecule, True, lambda t: ml.Molecule.load_all_mol2(io.StringIO(t)), "str"),
            ("Molecule.loads_mol2", ml.Molecule, False, lambda t: [ml.Molecule.loads_mol2(t)], "str"),
            ("Structure.yield_from_mol2", ml.Structure, True, lambda t: list(ml.Structure.yield_from_mol2(io.StringIO(t))),
             "str"),
            ("Molecule.load_all_mol2(path)", ml.Molecule, True, lambda p: ml.Molecule.load_all_mol2(p), "path"),
            ("Structure.load_all_mol2(Path)", ml.Structure, True, lambda p: ml.Structure.load_all_mol2(Path(p)), "path"),
            ("Molecule.load_mol2(path)", ml.Molecule, False, lambda p: [ml.Molecule.load_mol2(p)], "path"),
            ("molli.load_all(path)", ml.Molecule, True, lambda p: ml.load_all(p), "path"),
            ("molli.load(path)", ml.Molecule, False, lambda p: [ml.load(Path(p))], "path"),
            ("ConformerEnsemble.load_mol2(path)", ml.ConformerEnsemble, True, lambda p: ml.ConformerEnsemble.load_mol2(p),
             "ens-path"),
        ]
    return [
        ("Molecule.loads_all_xyz", ml.Molecule, True, lambda t: ml.Molecule.loads_all_xyz(t), "str"),
        ("CartesianGeometry.loads_all_xyz", ml.CartesianGeometry, True, lambda t: ml.CartesianGeometry.loads_all_xyz(t), "str"),
        ("Molecule.load_all_xyz(stream)", ml.Molecule, True, lambda t: ml.Molecule.load_all_xyz(io.StringIO(t)), "str"),
        ("Structure.loads_xyz", ml.Structure, False, lambda t: [ml.Structure.loads_xyz(t)], "str"),
        ("CartesianGeometry.yield_from_xyz", ml.CartesianGeometry, True,
         lambda t: list(ml.CartesianGeometry.yield_from_xyz(io.StringIO(t))), "str"),
        ("Molecule.load_all_xyz(path)", ml.Molecule, True, lambda p: ml.Molecule.load_all_xyz(p), "path"),
        ("CartesianGeometry.load_all_xyz(Path)", ml.CartesianGeometry, True,
         lambda p: ml.CartesianGeometry.load_all_xyz(Path(p)), "path"),
        ("Structure.load_xyz(path)", ml.Structure, False, lambda p: [ml.Structure.load_xyz(p)], "path"),
        ("molli.load_all(path)", ml.Molecule, True, lambda p: ml.load_all(Path(p)), "path"),
        ("molli.load(path)", ml.Molecule, False, lambda p: [ml.load(p)], "path"),
        ("ConformerEnsemble.load_xyz(path)", ml.ConformerEnsemble, True, lambda p: ml.ConformerEnsemble.load_xyz(p),
         "ens-path"),
    ]


def write_damaged_file(path, text):
    """the damaged text as a file (bytes: lone surrogates of a 'surrogateescape' decoding become the bytes they stand
    for) -> the text a faithful reader sees when it opens that file the way the loaders do (platform default encoding,
    default newline handling; what cannot be decoded stays visible as a lone surrogate)"""
    with open(path, "wb") as f:
        f.write(text.encode("utf-8", "surrogateescape"))
    with open(path, "rt", errors="surrogateescape") as f:
        return f.read()


# ------------------------------------------------------------------------------------------------
# literal expectation -> comparison with a snapshot

def literal_diff(rec, s, has_charges, check_name=True):
    """[] if snapshot `s` states exactly what the structurally complete record `rec` literally states;
    otherwise a list of (field, expected, observed).  Raises _Uninterpretable for a token that names no element / no
    bond type according to the oracle's own frozen tables (vmon.models.damagedinput), or that int() / float() /
    the atom type suffix reader reject."""
    import numpy as np
    import molli as ml
    from vmon.models import damagedinput as D

    out = []

    def ne(field, exp, obs):
        if len(out) < 6:
            out.append((field, _j(exp), _j(obs)))

    atoms = s["atoms"]
    coords = np.asarray(s.get("coords", np.zeros((0, 3)))).reshape(-1, 3)
    if len(atoms) != rec["na"]:
        ne("n_atoms", rec["na"], len(atoms))
        return out
    if rec["fmt"] == "xyz":
        for i, a in enumerate(rec["atoms"]):
            if a["sym"] == "*":
                el, at = 0, int(ml.AtomType.Dummy)
            else:
                el, at = D.element_number(a["sym"]), int(ml.AtomType.Regular)
                if el is None:
                    raise _Uninterpretable(f"element symbol {a['sym']!r} names no element")
            if atoms[i]["element"] != el:
                ne(f"atoms[{i}].element", el, atoms[i]["element"])
            if atoms[i]["atype"] != at:
                ne(f"atoms[{i}].atype", at, atoms[i]["atype"])
            if not _feq3(coords[i], a["xyz"]):
                ne(f"coords[{i}]", a["xyz"], coords[i].tolist())
        return out
    # ---- mol2
    if check_name and rec["name"] and s.get("name") != rec["name"]:
        ne("name", rec["name"], s.get("name"))
    for i, a in enumerate(rec["atoms"]):
        stated = D.mol2_atom_type_element(a["type"])
        if stated is None:
            raise _Uninterpretable(f"atom type {a['type']!r}: the element part names no element")
        ref = ml.Atom()
        try:
            ref.set_mol2_type(a["type"])        # trusted for the meaning of the suffix only (hybridisation, geometry)
        except Exception as e:  # noqa
            raise _Uninterpretable(f"atom type {a['type']!r}: {e!r}")
        got = atoms[i]
        for f, v in (("element", stated[0]), ("atype", int(ref.atype)), ("geom", int(ref.geom)),
                     ("label", a["label"])):
            if got[f] != v:
                ne(f"atoms[{i}].{f}", v, got[f])
        attr = dict(rec["atom_attr"].get(i, {}))
        chg = attr.pop("charge", None)
        if chg:
            try:
                chg = int(chg)
            except ValueError as e:
                raise _Uninterpretable(f"formal charge {chg!r}: {e!r}")
        if got["formal_charge"] != (chg or 0):
            ne(f"atoms[{i}].formal_charge", chg or 0, got["formal_charge"])
        if got["attrib"] != attr:
            ne(f"atoms[{i}].attrib", attr, got["attrib"])
        if not _feq3(coords[i], a["xyz"]):
            ne(f"coords[{i}]", a["xyz"], coords[i].tolist())
    if has_charges:
        q = np.asarray(s.get("atomic_charges", []), dtype=float).reshape(-1)
        if rec["chrg"] == "NO_CHARGES":
            exp = [0.0] * rec["na"]
        else:
            exp = []
            for a in rec["atoms"]:
                try:
                    exp.append(float(a["charge_tok"]))
                except (TypeError, ValueError) as e:
                    raise _Uninterpretable(f"charge token {a['charge_tok']!r}: {e!r}")
        if len(q) != len(exp) or not all(_feq(x, y) for x, y in zip(q.tolist(), exp)):
            ne("atomic_charges", exp[:8], q.tolist()[:8])
    bonds = s.get("bonds", [])
    if len(bonds) != len(rec["bonds"]):
        ne("n_bonds", len(rec["bonds"]), len(bonds))
        return out
    for i, b in enumerate(rec["bonds"]):
        tname = D.MOL2_BOND_TYPE_NAMES.get(b["type"])
        if tname is None:
            raise _Uninterpretable(f"bond type {b['type']!r} is not a mol2 bond type")
        got = bonds[i]
        for f, v in (("a1", b["a1"]), ("a2", b["a2"]), ("btype", int(ml.BondType[tname]))):
            if got[f] != v:
                ne(f"bonds[{i}].{f}", v, got[f])
        battr = dict(rec["bond_attr"].get(i, {}))
        if got["attrib"] != battr:
            ne(f"bonds[{i}].attrib", battr, got["attrib"])
    return out


class _Uninterpretable(Exception):
    pass


def _feq(a, b):
    import math
    a, b = float(a), float(b)
    if math.isnan(a) or math.isnan(b):
        return math.isnan(a) and math.isnan(b)
    if math.isinf(a) or math.isinf(b):
        return a == b
    return abs(a - b) <= 1e-12 * max(1.0, abs(a), abs(b))


def _feq3(c, xyz):
    return all(_feq(c[i], xyz[i]) for i in range(3))


def _j(x):
    try:
        json.dumps(x)
        return x
    except Exception:  # noqa
        return repr(x)[:200]


def _field_of(path):
    """mechanism-level field name from a diff path: '.atoms[3].element' -> 'atoms.element'"""
    import re
    return re.sub(r"\[[^\]]*\]", "", path).strip(".") or "value"


# ------------------------------------------------------------------------------------------------

def run_chunk(spec, ctx):
    import numpy as np  # noqa
    import molli as ml  # noqa
    from vmon.models import damagedinput as D
    from vmon.snap import snap, diff

    tid = spec["text"]
    fmt = tid[1]
    tname = f"{tid[0]}:{tid[2]}.{fmt}" if not isinstance(tid[2], str) else f"{tid[0]}:{tid[2]}"
    T = build_text(tid, ctx)
    if not T.isascii():
        raise RuntimeError("pristine text is not ASCII: byte offsets would not be character offsets")
    lines = D.split_lines(T)
    classes = D.line_classes(fmt, lines)
    recs_T = D.records(fmt, lines)
    start_to_j = {r["start"]: j for j, r in enumerate(recs_T)}
    unity_text = "sect-UNITY_ATOM_ATTR" in classes
    unity_bond_text = "sect-UNITY_BOND_ATTR" in classes
    # UNITY blocks that stand behind the BOND block of their record / that are the last data block of the text
    order = [c for c in classes if c.startswith("tag-")]
    unity_after_bond = any(order[i].startswith("tag-UNITY_") and "tag-BOND" in order[max(0, i - 2):i]
                           for i in range(len(order)))

    mon = Monitors(ctx)
    mon.install()
    ents = entries(fmt)
    scratch = str(ctx.tmp / f"c10-damaged.{fmt}")          # the suffix lets molli.load / load_all pick the parser

    def run_entry(e, text, n_lines):
        """-> (outcome, text the entry point was given / read)"""
        name, cls, is_all, fn, mode = e
        if mode == "str":
            return mon.run(fn, text, n_lines), text
        seen = write_damaged_file(scratch, text)
        return mon.run(lambda _t: fn(scratch), None, n_lines), seen

    # ---- pristine parses, one per entry point
    pristine = {}
    for e in ents:
        name, cls, is_all, fn, mode = e
        out, seen = run_entry(e, T, len(lines))
        if mode != "str" and seen != T:
            ctx.inconclusive.append(f"the pristine text {tname} read back from a file differs from what was written")
            pristine[name] = None
            continue
        if mode == "ens-path":
            # an ensemble exists only for records that are conformers of one molecule; it is judged against the literal
            # reading alone, and only if that reading accepts the ensemble of the pristine text
            ok = out[0] == "list" and judge_ensemble(ctx, D, fmt, name, out, mon, recs_T, recs_T, start_to_j,
                                                     list(range(len(lines))), lines, count=False)[1] == []
            pristine[name] = "ensemble" if ok else None
            ctx.count("pristine.ensemble-entry-applicable" if ok else "pristine.ensemble-entry-not-applicable")
            continue
        if out[0] != "list":
            if out[0] == "budget":
                ctx.violation(f"termination:{fmt}:next-calls-exceed-bound", case=["none"], text=tname, entry=name,
                              calls=mon.next_calls, bound=mon.bound, lines=len(lines), damage={"kind": "none"})
            ctx.inconclusive.append(f"pristine text {tname} is not parsed by {name}: {out[0]} {out[1]!r}"[:400])
            pristine[name] = None
            continue
        pristine[name] = [snap(x) for x in out[1]]
        ctx.count("pristine.parsed")
        if name == ents[0][0] and spec["part"] == 0:
            ctx.count("pristine.texts")
            ctx.count(f"pristine.molecules.{fmt}", len(out[1]))
            if unity_after_bond:
                ctx.count("pristine.texts.unity-block-behind-bond-block")
            if unity_bond_text:
                ctx.count("pristine.texts.unity-bond-attr")
    if pristine[ents[0][0]] is None:
        return
    if len(pristine[ents[0][0]]) != len(recs_T) or not all(r["ok"] for r in recs_T):
        ctx.inconclusive.append(f"literal reading of pristine {tname} disagrees with the loader on the number of records: "
                                f"{len(recs_T)} vs {len(pristine[ents[0][0]])}, ok={[r['ok'] for r in recs_T]}")
        return
    # the path entry points must give the primary entry's molecules for the pristine text
    for name, cls, is_all, fn, mode in ents:
        if mode == "path" and cls is ents[0][1] and pristine.get(name) is not None:
            ref = pristine[ents[0][0]] if is_all else pristine[ents[0][0]][:1]
            if diff(ref, pristine[name]):
                ctx.violation(f"{fmt}:file-entry-point-reads-pristine-text-differently", case=["none"], text=tname, entry=name,
                              diff=[list(map(_j, x)) for x in diff(ref, pristine[name])[:3]])
    str_ents = [e for e in ents if e[4] == "str"]
    path_ents = [e for e in ents if e[4] != "str" and pristine.get(e[0]) is not None]

    cases = D.enumerate_cases(fmt, lines, spec["n_tok"], spec.get("n_byte", 0))
    n_watchdog = 0
    for ci, case in enumerate(cases):
        if ci % spec["parts"] != spec["part"]:
            continue
        case = list(case)
        if not ctx.want(case):
            continue
        v = D.make_variant(fmt, lines, classes, tuple(case), lambda c: ctx.rng(tname, *c))
        if v is None:
            ctx.count("damage.tok-draw-not-applicable")
            continue
        text2, lines2, prov, info = v
        kind = info["kind"].split(":")[0]
        recs2 = D.records(fmt, lines2)

        todo = [ents[0]]
        if ci % 4 == 0:
            todo.append(str_ents[1 + (ci // 4) % (len(str_ents) - 1)])
        if path_ents and (kind == "byte" or ci % 5 == 2):
            todo.append(path_ents[(ci // 5) % len(path_ents)])
            if kind == "byte":
                todo.append(path_ents[(ci // 5 + 1 + ci % 3) % len(path_ents)])
        first = True
        for e in todo:
            name, cls, is_all, fn, mode = e
            M = pristine.get(name)
            if M is None:
                continue
            out, seen = run_entry(e, text2, len(lines2))
            e_lines2, e_recs2 = lines2, recs2
            if seen != text2:
                # the platform's default decoding shows the file differently: judge what the loader was shown
                e_lines2 = D.split_lines(seen)
                if len(e_lines2) != len(lines2):
                    ctx.count("path.file-read-back-with-other-line-boundaries")
                    continue
                e_recs2 = D.records(fmt, e_lines2)
            ctx.count(f"parse.{fmt}")
            ctx.count(f"entry.{name}")
            if mode != "str":
                ctx.count("parse.path")
                ctx.count(f"parse.path.{kind}")
            if mon.next_calls:
                ctx.count("monitor.next-calls.parses")
                ctx.count("monitor.next-calls.total", mon.next_calls)
            ctx.count("reach.put_back", mon.put_backs)
            if unity_text:
                ctx.count("reach.mol2.unity-attr-text")
            if unity_bond_text:
                ctx.count("reach.mol2.unity-bond-attr-text")
            if mode == "ens-path":
                oclass, viols = judge_ensemble(ctx, D, fmt, name, out, mon, e_recs2, recs_T, start_to_j, prov, e_lines2)
            else:
                oclass, viols = judge(ctx, D, snap, diff, fmt, name, cls, is_all, out, mon, e_recs2, recs_T, start_to_j, prov, M,
                                      e_lines2)
            if mode != "str" and out[0] == "exception":
                ctx.count(f"reach.path-error.{type(out[1]).__name__}")
            if first:
                first = False
                ctx.count(f"damage.{kind}")
                ctx.count(f"damage-kind.{info['kind']}")
                if info.get("column"):
                    ctx.count(f"damage.column.{info['column']}")
                    ctx.count(f"damage.column.{info['column']}.{info['how']}")
                    if info["how"] in ("zero", "negative") and info["column"].endswith(("-endpoint", "-index")):
                        ctx.count("damage.below-one." + ("bond-endpoint" if info["column"] == "bond-endpoint" else "unity-index"))
                if kind in ("lt", "bt") and lines2:
                    # where the text ends: inside / right behind a UNITY block that is then the last block of the text
                    last_tag = next((c for c in reversed(classes[:len(lines2)]) if c.startswith("tag-")), "")
                    if last_tag.startswith("tag-UNITY_"):
                        ctx.count("damage.cut-leaves-unity-block-last")
                        ctx.count(f"damage.cut-leaves-unity-block-last.{last_tag[4:]}")
                        if "tag-BOND" in classes[recs2[-1]["start"] if recs2 else 0:len(lines2)]:
                            ctx.count("damage.cut-leaves-unity-block-last.behind-bond-block")
                changed = oclass != "list-same-as-pristine"
                ctx.case(case, dkey=(fmt, info["kind"], info.get("class"), info.get("column"), oclass),
                         nontrivial=changed and kind != "none",
                         sample={"text": tname, "damage": _small(info), "outcome": oclass})
            if out[0] == "watchdog":
                n_watchdog += 1
                ctx.inconclusive.append(f"watchdog 20s: {tname} case={case} entry={name}")
            if viols:
                ctx.count("oracle.violating-outcomes")
            for key, detail in viols:
                if f"{ID}:{key}" in KNOWN_ON_UNCHANGED_TREE:
                    ctx.count("known-on-unchanged-tree:" + key)
                    continue
                ctx.violation(key, case=case, text=tname, entry=name, damage=_small(info), **detail)
        if n_watchdog >= 3:
            ctx.inconclusive.append("three watchdog expiries in one chunk: chunk abandoned")
            break
    ctx.count("contract.mol2-block", mon.blocks["mol2"])
    ctx.count("contract.xyz-block", mon.blocks["xyz"])


def _small(info):
    d = dict(info)
    for k in ("old", "new", "last_line"):
        if k in d and isinstance(d[k], str):
            d[k] = d[k][:100].encode("ascii", "backslashreplace").decode()
    return d


def _judge_no_result(ctx, fmt, out, mon, recs2, lines2, viols, count=True):
    """outcome class if the parse did not return (watchdog / step bound / exception), else None"""
    tag, val = out
    if tag == "watchdog":
        return "watchdog"
    if tag == "budget":
        viols.append((f"termination:{fmt}:next-calls-exceed-bound",
                      {"calls": mon.next_calls, "bound": mon.bound, "lines": len(lines2)}))
        return "next-calls-exceed-bound"
    if tag == "exception":
        ename = type(val).__name__
        if count:
            ctx.count("outcome.exception")
            ctx.count(f"reach.{fmt}-error.{ename}")
            why = next((r["why"] for r in recs2 if not r["ok"]), "no-incomplete-record")
            ctx.count(f"reach.{fmt}-rejected.{why}")
            if mon.block_failures:
                ctx.count("contract.block-mismatch-rejected-downstream")
        return f"exception:{ename}"
    return None


def _rest_incomplete(recs2):
    """reason of the first record of the damaged text that is not complete, None if the whole text is well-formed"""
    return next((r["why"] or "incomplete" for r in recs2 if not r["ok"]), None)


def judge_ensemble(ctx, D, fmt, entry, out, mon, recs2, recs_T, start_to_j, prov, lines2, count=True):
    """a ConformerEnsemble came back (or not): conformer k must be record k of the damaged text -- its coordinates (and
    atomic charges) are those record k literally states, the shared atoms / bonds those of record 0 -- and every record
    must be complete.  -> (outcome class, [(violation key, detail)])"""
    import numpy as np
    from vmon.snap import snap

    viols = []
    head = _judge_no_result(ctx, fmt, out, mon, recs2, lines2, viols, count)
    if head is not None:
        return head, viols
    ens = out[1]
    if count:
        ctx.count("outcome.ensemble")
    try:
        s = snap(ens)
        coords = np.asarray(s["coords"], dtype=float)
        n_conf = int(ens.n_conformers)
        if coords.ndim != 3 or coords.shape[0] != n_conf:
            raise ValueError(f"coords shape {coords.shape} for {n_conf} conformers")
        charges = np.asarray(s.get("atomic_charges", np.zeros(coords.shape[:2])), dtype=float).reshape(n_conf, -1)
    except Exception as e:  # noqa
        viols.append((f"{fmt}:ensemble-result-not-readable", {"error": repr(e)[:200]}))
        return "list-violating", viols
    rest = _rest_incomplete(recs2)
    n_atoms = len(s["atoms"])
    n_bonds = len(s.get("bonds", []))
    for k in range(n_conf):
        if count:
            ctx.count("oracle.conformer-checked")
        if k >= len(recs2):
            viols.append((f"{fmt}:more-molecules-than-records-in-text", {"returned": n_conf, "records": len(recs2)}))
            break
        rec = recs2[k]
        brief = {"conformer": k, "returned": {"n_conformers": n_conf, "n_atoms": n_atoms, "n_bonds": n_bonds},
                 "record": {"lines": [rec["start"], rec["end"]], "declares": [rec["na"], rec["nb"]], "complete": rec["ok"],
                            "why": rec["why"]}}
        if rec["na"] is None:
            viols.append((f"{fmt}:molecule-returned-for-unreadable-header:{rec['why']}", brief))
            continue
        if n_atoms != rec["na"]:
            viols.append((f"{fmt}:count-differs-from-header:atoms", brief))
            continue
        if fmt == "mol2" and k == 0 and n_bonds != (rec["nb"] or 0):
            viols.append((f"{fmt}:count-differs-from-header:bonds", brief))
            continue
        if not rec["ok"]:
            viols.append((f"{fmt}:incomplete-record-returned:{rec['why']}", brief))
            continue
        src = prov[rec["start"]] if rec["start"] < len(prov) else None
        j = start_to_j.get(src) if src is not None else None
        unchanged = j is not None and rec.get("sig") == recs_T[j].get("sig")
        if not unchanged and rest is not None:
            viols.append((f"{fmt}:altered-record-returned-although-rest-of-text-incomplete:{rest}", brief))
            continue
        # record 0's symbols, labels, bonds and attributes with record k's numbers
        r0 = recs2[0]
        if not r0["ok"] or r0["na"] != rec["na"]:
            continue        # reported at k == 0 / by the count test of another conformer
        pseudo = dict(r0)
        if fmt == "xyz":
            pseudo["atoms"] = [dict(a0, xyz=ak["xyz"]) for a0, ak in zip(r0["atoms"], rec["atoms"])]
        else:
            pseudo["atoms"] = [dict(a0, xyz=ak["xyz"], charge_tok=ak["charge_tok"]) for a0, ak in zip(r0["atoms"], rec["atoms"])]
            pseudo["chrg"] = rec["chrg"]
        sk = {"atoms": s["atoms"], "bonds": s.get("bonds", []), "coords": coords[k], "atomic_charges": charges[k]}
        try:
            ld = literal_diff(pseudo, sk, fmt == "mol2", check_name=False)
        except _Uninterpretable as e:
            viols.append((f"{fmt}:uninterpretable-token-accepted", dict(brief, token=str(e)[:200])))
            continue
        if ld:
            viols.append((f"{fmt}:content-differs-from-text:{_field_of(ld[0][0])}",
                          dict(brief, expected_vs_observed=[list(x) for x in ld[:4]])))
        elif count:
            ctx.count("oracle.accepted-conformer")
    if mon.block_failures and not viols:
        viols.append((f"contract:{fmt}:block-counts-differ-from-header-in-returned-result",
                      {"blocks": mon.block_failures[:3], "returned": n_conf}))
    return ("list-violating" if viols else "ensemble-accepted"), viols


def judge(ctx, D, snap, diff, fmt, entry, cls, is_all, out, mon, recs2, recs_T, start_to_j, prov, M, lines2):
    """-> (outcome class, [(violation key, detail)])"""
    viols = []
    tag, val = out
    head = _judge_no_result(ctx, fmt, out, mon, recs2, lines2, viols)
    if head is not None:
        return head, viols

    # ---- a list came back
    ctx.count("outcome.list")
    R = val
    if not isinstance(R, list):
        viols.append((f"{fmt}:result-is-not-a-list", {"type": type(R).__name__}))
        return "not-a-list", viols
    has_charges = hasattr(cls, "atomic_charges")
    snaps = [snap(x) for x in R]
    rest = _rest_incomplete(recs2)
    n_complete = 0
    for r in recs2:
        if not r["ok"]:
            break
        n_complete += 1
    if is_all and len(R) < n_complete:
        ctx.count("outcome.list-shorter-than-complete-records")
    all_same = len(R) == (len(M) if is_all else min(1, len(M)))
    for k, s in enumerate(snaps):
        ctx.count("oracle.molecule-checked")
        if k >= len(recs2):
            viols.append((f"{fmt}:more-molecules-than-records-in-text", {"returned": len(R), "records": len(recs2)}))
            all_same = False
            break
        rec = recs2[k]
        n_atoms = len(s["atoms"])
        n_bonds = len(s.get("bonds", [])) if fmt == "mol2" else None
        src = prov[rec["start"]] if rec["start"] < len(prov) else None
        j = start_to_j.get(src) if src is not None else None
        pm = M[j] if (j is not None and j < len(M)) else None
        same_as_pristine = pm is not None and not diff(pm, s)
        if not (same_as_pristine and j == k):
            all_same = False
        brief = {"molecule": k, "returned": {"name": s.get("name"), "n_atoms": n_atoms, "n_bonds": n_bonds},
                 "record": {"lines": [rec["start"], rec["end"]], "declares": [rec["na"], rec["nb"]], "complete": rec["ok"],
                            "why": rec["why"], "atom_lines": rec.get("n_atom_lines"), "bond_lines": rec.get("n_bond_lines"),
                            "absent_sections": rec["absent"]}}
        # (0) the known stale-state mechanism is recognised by its structure before anything else
        if fmt == "mol2" and k >= 1 and rec["na"] is not None and rec["absent"] and not same_as_pristine \
                and rec["why"] in (None, "atom-lines-fewer-than-declared", "bond-lines-fewer-than-declared"):
            prev = snaps[k - 1]
            stale = []
            n_prev = len(prev["atoms"])
            if "ATOM" in rec["absent"] and 1 <= n_prev <= n_atoms \
                    and not diff(prev["atoms"], s["atoms"][:n_prev]) and not diff(prev["coords"], s["coords"][:n_prev]):
                stale.append("ATOM")
            if "BOND" in rec["absent"] and not diff(prev.get("bonds"), s.get("bonds")):
                stale.append("BOND")
            # every section the record lacks came back holding the previous molecule's data, the rest is complete
            if stale == rec["absent"] and ("ATOM" in rec["absent"] or rec.get("n_atom_lines") == rec["na"]):
                viols.append(("mol2-stale-sections-from-previous-record",
                              dict(brief, stale_sections=stale, equals_previous_molecule=True,
                                   previous={"name": prev.get("name"), "n_atoms": len(prev["atoms"]),
                                             "n_bonds": len(prev.get("bonds", []))})))
                continue
        # (a) counts its own header declares
        if rec["na"] is None:
            viols.append((f"{fmt}:molecule-returned-for-unreadable-header:{rec['why']}", brief))
            continue
        if n_atoms != rec["na"]:
            viols.append((f"{fmt}:count-differs-from-header:atoms", brief))
            continue
        if fmt == "mol2" and n_bonds != (rec["nb"] or 0):
            viols.append((f"{fmt}:count-differs-from-header:bonds", brief))
            continue
        # (b) content
        unchanged = j is not None and rec.get("sig") == recs_T[j].get("sig")
        if unchanged:
            if pm is None:
                viols.append((f"{fmt}:more-molecules-than-pristine-parse", brief))
            elif same_as_pristine:
                ctx.count("oracle.accepted-unchanged-record")
            else:
                d = diff(pm, s)
                viols.append((f"{fmt}:unchanged-record-parsed-differently:{_field_of(d[0][0])}",
                              dict(brief, pristine_molecule=j, diff=[list(map(_j, x)) for x in d[:4]])))
            continue
        if same_as_pristine:
            ctx.count("oracle.accepted-equal-to-pristine")
            continue
        if not rec["ok"]:
            viols.append((f"{fmt}:incomplete-record-returned:{rec['why']}", brief))
            continue
        if is_all and rest is not None:
            # an altered record may be taken at its word only if the text as a whole is a well-formed file: here the
            # loader read on, met a record that is not complete and still returned what it had put together
            viols.append((f"{fmt}:altered-record-returned-although-rest-of-text-incomplete:{rest}", brief))
            continue
        if is_all:
            ctx.count("oracle.altered-record.rest-of-text-complete")
        try:
            ld = literal_diff(rec, s, has_charges)
        except _Uninterpretable as e:
            viols.append((f"{fmt}:uninterpretable-token-accepted", dict(brief, token=str(e)[:200])))
            continue
        if ld:
            viols.append((f"{fmt}:content-differs-from-text:{_field_of(ld[0][0])}",
                          dict(brief, expected_vs_observed=[list(x) for x in ld[:4]])))
        else:
            ctx.count("oracle.accepted-literal-value")
    if mon.block_failures:
        # the contract on the block readers: explained by a violation found above, or a finding of its own
        if viols:
            viols[0][1]["block_contract_also_failed"] = mon.block_failures[:2]
        else:
            viols.append((f"contract:{fmt}:block-counts-differ-from-header-in-returned-result",
                          {"blocks": mon.block_failures[:3], "returned": len(R)}))
    if viols:
        return "list-violating", viols
    return ("list-same-as-pristine" if all_same else "list-accepted-different"), viols
