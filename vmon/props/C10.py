"""
C10 -- damaged or truncated mol2 / xyz input is rejected, never returned as a partial molecule.

Monitor shape: fault enumeration with a recovery oracle + runtime contracts + a termination monitor.

For every pristine text T (bundled files, a concatenation of bundled files, generated multi-molecule
files written by molli itself) and every damaged variant T' the real loaders are run and the outcome is
judged by an oracle that does not use the parsers under test:

* an exception is always an acceptable outcome;
* a returned list is acceptable only if every molecule k has exactly the atom / bond counts that the k-th
  header of T' literally declares and is either equal, field by field, to the molecule of T that the k-th
  record of T' was made from, or equal to what the (structurally complete) record of T' literally states;
* ``LineReader.__next__`` may be called at most 2*lines+16 times per parse (logical termination bound);
  a SIGALRM watchdog is only an inconclusive backstop;
* icontract contracts on ``read_mol2`` / ``read_xyz`` assert block counts == header counts for every
  yielded block (recorded, never altering the outcome).
"""
from __future__ import annotations

import json

ID = "C10"
LEVEL = "fault_enumeration"
EXHAUSTIVE = False
CHUNK_TIMEOUT = 600
RULE = ("per pristine text (bundled pentane_confs/dummy .mol2/.xyz, isornitrate+benzene+dmf concatenated, seeded generated "
        "files of 3-4 mutually different molecules written by molli's dumps_mol2/dumps_xyz): EVERY truncation at a line "
        "boundary, EVERY byte offset inside the last record, EVERY single line deletion and duplication, plus seeded token "
        "corruptions (digit change in a count line, removed field, added field, non-numeric coordinate, digit change / cut "
        "inside a coordinate); no line swaps. non-trivial = the damage raises or changes the parse; distinct by "
        "(format, damage kind, role of the damaged line, outcome class)")
ASSUMPTIONS = [
    "an exception of any Exception subclass counts as rejection",
    "the k-th returned molecule is matched with the k-th '@<TRIPOS>MOLECULE' record (mol2) / the k-th count-driven record "
    "(xyz) of the damaged text; its header is the counts line of that record",
    "a record all of whose significant lines are those of a pristine record must parse to exactly the pristine molecule "
    "(snapshot equality, no tolerance)",
    "damage inside a token that leaves a structurally complete record is accepted with the value the damaged text "
    "literally states (Python int()/float() of the token; element/bond type read by Atom.set_mol2_type / "
    "Bond.set_mol2_type / Element.get, which are trusted)",
    "a returned molecule equal to the pristine molecule with the declared counts is accepted even if the damaged record "
    "has surplus or missing lines (the statement only forbids partial / wrong molecules)",
    "silently ignoring a damaged tail after complete molecules is not counted as a violation (every returned molecule is "
    "complete); it is counted in monitor 'outcome.list-shorter-than-complete-records'",
    "termination bound: LineReader.__next__ calls <= 2*lines+16 per parse; wall clock (20 s/parse) only => inconclusive",
]
TECHNIQUE = ("runtime monitoring: exhaustive truncation / deletion / duplication fault enumeration + seeded token corruption "
             "against the real loaders, literal-reading oracle, LineReader step bound, icontract block contracts")
LEVEL_TEXT = ("Held on the executions produced: for each text every line-boundary truncation, every byte truncation of the "
              "last record, every single-line deletion and duplication and a seeded set of token corruptions were parsed by "
              "the real loaders; each outcome was an exception or a list of molecules that an independent literal reading "
              "of the damaged text confirms complete and correct, within the LineReader step bound. Not a proof: texts and "
              "token corruptions are a finite seeded sample; single damages only.")
LEVEL_NOTE = ("Trusted: vmon/models/damagedinput.py (literal reading, damage generator), vmon/snap.py, Atom/Bond.set_mol2_type, "
              "Element.get. A parser that does not use LineReader leaves the termination monitor at 0 => inconclusive.")


def REQUIRED(tier):
    big = tier != "quick"
    f = 8 if big else 1
    return {
        "pristine.texts": 45 if big else 12,
        "parse.mol2": 4000 * f, "parse.xyz": 1500 * f,
        "damage.lt": 500 * (3 if big else 1), "damage.bt": 2000 * (4 if big else 1), "damage.del": 500 * (3 if big else 1),
        "damage.dup": 500 * (3 if big else 1), "damage.tok": 60000 if big else 1500,
        "outcome.exception": 3000 * f, "outcome.list": 300 * f,
        "oracle.molecule-checked": 500 * f, "oracle.accepted-unchanged-record": 300 * f,
        "oracle.accepted-literal-value": 20 * f, "oracle.accepted-equal-to-pristine": 5 * f,
        "monitor.next-calls.parses": 4000 * f, "contract.mol2-block": 1000 * f, "contract.xyz-block": 500 * f,
        "reach.put_back": 100, "reach.mol2.unity-attr-text": 100,
        "reach.xyz-rejected.count-line-unreadable": 50, "reach.xyz-rejected.comment-line-missing": 2,
        "reach.xyz-rejected.atom-lines-fewer-than-declared": 50, "reach.xyz-rejected.atom-line-field-count": 50,
        "reach.xyz-rejected.atom-line-coordinate-not-numeric": 20,
        "reach.mol2-rejected.atom-lines-fewer-than-declared": 100, "reach.mol2-rejected.bond-lines-fewer-than-declared": 100,
        "reach.mol2-rejected.atom-lines-more-than-declared": 50, "reach.mol2-rejected.bond-lines-more-than-declared": 50,
        "reach.mol2-rejected.header-lines-missing": 10, "reach.mol2-rejected.header-counts-unreadable": 20,
        "reach.mol2-rejected.atom-line-coordinate-not-numeric": 20,
    }


BUNDLED = [("bundled", "mol2", "pentane_confs.mol2"), ("bundled", "xyz", "pentane_confs.xyz"),
           ("bundled", "mol2", "dummy.mol2"), ("bundled", "xyz", "dummy.xyz"),
           ("concat", "mol2", "isornitrate.mol2+benzene.mol2+dmf.mol2")]
# relative cost of one text (number of chunks it is split into)
PARTS = {"pentane_confs.mol2": 8, "pentane_confs.xyz": 3, "isornitrate.mol2+benzene.mol2+dmf.mol2": 4}


def plan(tier, seed):
    quick = tier == "quick"
    texts = [list(t) for t in BUNDLED]
    n_gen = 3 if quick else 17
    for i in range(n_gen):
        texts.append(["gen", "mol2", i])
        texts.append(["gen", "xyz", i])
    texts.append(["gen-short-header", "mol2", 0])
    texts.append(["gen-foreign-blocks", "mol2", 0])
    if not quick:
        texts += [["gen-short-header", "mol2", i] for i in range(1, 4)]
        texts += [["gen-foreign-blocks", "mol2", i] for i in range(1, 4)]
        texts += [["concat", "mol2", "dmf.mol2+dummy.mol2+isornitrate.mol2+propyne.mol2"],
                  ["concat", "mol2", "benzene.mol2+isornitrate.mol2"]]
    n_tok = 400 if quick else 4000
    specs = []
    for t in texts:
        parts = PARTS.get(t[2], 1) if isinstance(t[2], str) else 1
        if not quick:
            parts *= 4
        for p in range(parts):
            specs.append({"text": t, "part": p, "parts": parts, "n_tok": n_tok})
    return specs


# ------------------------------------------------------------------------------------------------
# texts

GEN_LABELS = ["C1", "x", "H12", "a-b", "N_3", "lbl", "Q9", "at7"]


def build_text(tid, ctx):
    import molli as ml
    from pathlib import Path
    from vmon import gen

    kind, fmt, which = tid
    fdir = Path(ml.files.__file__).parent
    if kind == "bundled":
        return (fdir / which).read_text()
    if kind == "concat":
        out = ""
        for name in which.split("+"):
            t = (fdir / name).read_text()
            out += t if t.endswith("\n") else t + "\n"
        return out
    rng = ctx.rng("text", kind, fmt, which)
    elements = [ml.Element[s] for s in ("C", "H", "N", "O", "S", "Cl", "Br", "Si", "P", "F", "Na", "Fe")]
    n_mol = rng.choice([3, 3, 4])
    sizes = rng.sample([1, 2, 3, 4, 5, 6, 7, 8, 9, 11, 13], n_mol)
    if rng.random() < 0.5:
        sizes.sort(reverse=rng.random() < 0.5)
    mols = []
    seen_nb = set()
    for j, n in enumerate(sizes):
        for _ in range(50):
            m = gen.molecule(rng, n_atoms=n, rich=False, labels=GEN_LABELS, special=0.0, name=f"g{which}m{j}x{n}",
                             elements=elements, p_dense=0.05)
            if m.n_bonds not in seen_nb or n == 1:
                break
        seen_nb.add(m.n_bonds)
        mols.append(m)
    if fmt == "xyz":
        return "".join(m.dumps_xyz() for m in mols)
    text = "".join(m.dumps_mol2() for m in mols)
    if kind == "gen-foreign-blocks":
        # the same records as another program would write them: with TRIPOS blocks molli does not interpret
        # (SUBSTRUCTURE, COMMENT, CRYSIN) in front of the ATOM and / or the BOND section
        lines = []
        k = 0
        for ln in text.splitlines(keepends=True):
            if ln.startswith("@<TRIPOS>ATOM") and k % 3 != 2:
                lines += ["@<TRIPOS>SUBSTRUCTURE\n", "     1 UNL1        1 TEMP              0 ****  ****    0 ROOT\n"]
            if ln.startswith("@<TRIPOS>BOND"):
                if k % 3 != 0:
                    lines += ["@<TRIPOS>COMMENT\n", "written by a foreign program\n"]
                k += 1
            lines.append(ln)
        text = "".join(lines)
    if kind == "gen-short-header":
        # the same records with the two-field counts line "n_atoms n_bonds" (legal TRIPOS) and no comment lines
        lines = []
        for ln in text.splitlines(keepends=True):
            if ln.startswith("# Produced"):
                continue
            t = ln.split()
            if len(t) == 5 and t[2:] == ["0", "0", "0"] and t[0].isdigit() and t[1].isdigit():
                ln = f"{t[0]} {t[1]}\n"
            lines.append(ln)
        text = "".join(lines)
    return text


# ------------------------------------------------------------------------------------------------
# monitors installed on the real code

class _Budget(BaseException):
    """raised by the LineReader.__next__ monitor once the logical bound is exceeded"""


class _Watchdog(BaseException):
    """raised by the SIGALRM backstop"""


class BlockCountContract(Exception):
    pass


class Monitors:
    def __init__(self, ctx):
        self.ctx = ctx
        self.next_calls = 0
        self.bound = 10 ** 9
        self.put_backs = 0
        self.block_failures = []
        self.blocks = {"mol2": 0, "xyz": 0}
        self.watchdog_fired = False

    def install(self):
        import sys
        import signal
        import icontract
        import molli  # noqa
        from molli.parsing import _reader, mol2 as pm, xyz as px

        mon = self
        LR = _reader.LineReader
        orig_next = LR.__next__
        orig_put = LR.put_back

        def counted_next(self_):
            mon.next_calls += 1
            if mon.next_calls > mon.bound:
                raise _Budget(f"LineReader.__next__ called {mon.next_calls} times, bound {mon.bound}")
            return orig_next(self_)

        def counted_put_back(self_, line):
            mon.put_backs += 1
            return orig_put(self_, line)

        LR.__next__ = counted_next
        LR.put_back = counted_put_back

        # ---- contracts: every yielded block has as many atoms / bonds as its header declares
        def _n(x):
            return 0 if x is None else len(x)

        def mol2_block_counts_match_header(block) -> bool:
            h = block.header
            if h is None:
                return block.atoms is None and block.bonds is None
            return _n(block.atoms) == (h.n_atoms or 0) and _n(block.bonds) == (h.n_bonds or 0)

        def xyz_block_counts_match_header(block) -> bool:
            return _n(block.atoms) == block.n_atoms

        @icontract.require(mol2_block_counts_match_header, error=BlockCountContract)
        def observe_mol2_block(block):
            return block

        @icontract.require(xyz_block_counts_match_header, error=BlockCountContract)
        def observe_xyz_block(block):
            return block

        def wrap(orig, observe, fmt):
            def monitored_reader(*a, **kw):
                for block in orig(*a, **kw):
                    mon.blocks[fmt] += 1
                    try:
                        observe(block)
                    except BlockCountContract:
                        mon.block_failures.append(_block_brief(fmt, block))
                    yield block
            monitored_reader.__name__ = orig.__name__
            monitored_reader.__wrapped__ = orig
            return monitored_reader

        n_rebound = 0
        for orig, observe, fmt in ((pm.read_mol2, observe_mol2_block, "mol2"), (px.read_xyz, observe_xyz_block, "xyz")):
            w = wrap(orig, observe, fmt)
            for name, module in list(sys.modules.items()):
                if not name.startswith("molli") or module is None:
                    continue
                for attr, val in list(vars(module).items()):
                    if val is orig:
                        setattr(module, attr, w)
                        n_rebound += 1
        self.ctx.note("contract_rebound_references", n_rebound)

        def on_alarm(signum, frame):
            mon.watchdog_fired = True
            raise _Watchdog()

        signal.signal(signal.SIGALRM, on_alarm)

    def run(self, fn, text, n_lines, seconds=20.0):
        """-> ("list", [objs]) | ("exception", exc) | ("budget", msg) | ("watchdog", None)"""
        import signal
        import warnings

        self.next_calls = 0
        self.put_backs = 0
        self.bound = 2 * n_lines + 16
        self.block_failures = []
        self.watchdog_fired = False
        out = None
        try:
            signal.setitimer(signal.ITIMER_REAL, seconds, 1.0)
            try:
                with warnings.catch_warnings():
                    warnings.simplefilter("ignore")
                    res = fn(text)
                out = ("list", res)
            except _Watchdog:
                out = ("watchdog", None)
            except _Budget as e:
                out = ("budget", str(e))
            except Exception as e:  # noqa: the rejection the property allows
                out = ("exception", e)
            finally:
                signal.setitimer(signal.ITIMER_REAL, 0)
        except _Watchdog:
            out = ("watchdog", None)
        if self.watchdog_fired:
            out = ("watchdog", None)
        elif self.next_calls > self.bound:
            out = ("budget", f"LineReader.__next__ called {self.next_calls} times, bound {self.bound}")
        return out


def _block_brief(fmt, block):
    try:
        if fmt == "mol2":
            h = block.header
            return {"fmt": fmt, "header": None if h is None else [h.name, h.n_atoms, h.n_bonds],
                    "atoms": None if block.atoms is None else len(block.atoms),
                    "bonds": None if block.bonds is None else len(block.bonds)}
        return {"fmt": fmt, "header": [block.n_atoms], "atoms": len(block.atoms)}
    except Exception as e:  # noqa
        return {"fmt": fmt, "err": repr(e)}


# ------------------------------------------------------------------------------------------------
# entry points under observation

def entries(fmt):
    import io
    import molli as ml

    if fmt == "mol2":
        return [
            ("Molecule.loads_all_mol2", ml.Molecule, True, lambda t: ml.Molecule.loads_all_mol2(t)),
            ("Structure.loads_all_mol2", ml.Structure, True, lambda t: ml.Structure.loads_all_mol2(t)),
            ("Molecule.load_all_mol2(stream)", ml.Molecule, True, lambda t: ml.Molecule.load_all_mol2(io.StringIO(t))),
            ("Molecule.loads_mol2", ml.Molecule, False, lambda t: [ml.Molecule.loads_mol2(t)]),
            ("Structure.yield_from_mol2", ml.Structure, True, lambda t: list(ml.Structure.yield_from_mol2(io.StringIO(t)))),
        ]
    return [
        ("Molecule.loads_all_xyz", ml.Molecule, True, lambda t: ml.Molecule.loads_all_xyz(t)),
        ("CartesianGeometry.loads_all_xyz", ml.CartesianGeometry, True, lambda t: ml.CartesianGeometry.loads_all_xyz(t)),
        ("Molecule.load_all_xyz(stream)", ml.Molecule, True, lambda t: ml.Molecule.load_all_xyz(io.StringIO(t))),
        ("Structure.loads_xyz", ml.Structure, False, lambda t: [ml.Structure.loads_xyz(t)]),
        ("CartesianGeometry.yield_from_xyz", ml.CartesianGeometry, True,
         lambda t: list(ml.CartesianGeometry.yield_from_xyz(io.StringIO(t)))),
    ]


# ------------------------------------------------------------------------------------------------
# literal expectation -> comparison with a snapshot

def literal_diff(rec, s, has_charges):
    """[] if snapshot `s` states exactly what the structurally complete record `rec` literally states;
    otherwise a list of (field, expected, observed).  Raises _Uninterpretable for a token the trusted
    type readers reject."""
    import numpy as np
    import molli as ml

    out = []

    def ne(field, exp, obs):
        if len(out) < 6:
            out.append((field, _j(exp), _j(obs)))

    atoms = s["atoms"]
    coords = np.asarray(s.get("coords", np.zeros((0, 3)))).reshape(-1, 3)
    if len(atoms) != rec["na"]:
        ne("n_atoms", rec["na"], len(atoms))
        return out
    if rec["fmt"] == "xyz":
        for i, a in enumerate(rec["atoms"]):
            if a["sym"] == "*":
                el, at = int(ml.Element.Unknown), int(ml.AtomType.Dummy)
            else:
                try:
                    el, at = int(ml.Element.get(a["sym"])), int(ml.AtomType.Regular)
                except Exception as e:  # noqa
                    raise _Uninterpretable(f"element symbol {a['sym']!r}: {e!r}")
            if atoms[i]["element"] != el:
                ne(f"atoms[{i}].element", el, atoms[i]["element"])
            if atoms[i]["atype"] != at:
                ne(f"atoms[{i}].atype", at, atoms[i]["atype"])
            if not _feq3(coords[i], a["xyz"]):
                ne(f"coords[{i}]", a["xyz"], coords[i].tolist())
        return out
    # ---- mol2
    if rec["name"] and s.get("name") != rec["name"]:
        ne("name", rec["name"], s.get("name"))
    for i, a in enumerate(rec["atoms"]):
        ref = ml.Atom()
        try:
            ref.set_mol2_type(a["type"])
        except Exception as e:  # noqa
            raise _Uninterpretable(f"atom type {a['type']!r}: {e!r}")
        got = atoms[i]
        for f, v in (("element", int(ref.element)), ("atype", int(ref.atype)), ("geom", int(ref.geom)),
                     ("label", a["label"])):
            if got[f] != v:
                ne(f"atoms[{i}].{f}", v, got[f])
        attr = dict(rec["atom_attr"].get(i, {}))
        chg = attr.pop("charge", None)
        if chg:
            try:
                chg = int(chg)
            except ValueError as e:
                raise _Uninterpretable(f"formal charge {chg!r}: {e!r}")
        if got["formal_charge"] != (chg or 0):
            ne(f"atoms[{i}].formal_charge", chg or 0, got["formal_charge"])
        if got["attrib"] != attr:
            ne(f"atoms[{i}].attrib", attr, got["attrib"])
        if not _feq3(coords[i], a["xyz"]):
            ne(f"coords[{i}]", a["xyz"], coords[i].tolist())
    if has_charges:
        q = np.asarray(s.get("atomic_charges", []), dtype=float).reshape(-1)
        if rec["chrg"] == "NO_CHARGES":
            exp = [0.0] * rec["na"]
        else:
            exp = []
            for a in rec["atoms"]:
                try:
                    exp.append(float(a["charge_tok"]))
                except (TypeError, ValueError) as e:
                    raise _Uninterpretable(f"charge token {a['charge_tok']!r}: {e!r}")
        if len(q) != len(exp) or not all(_feq(x, y) for x, y in zip(q.tolist(), exp)):
            ne("atomic_charges", exp[:8], q.tolist()[:8])
    bonds = s.get("bonds", [])
    if len(bonds) != len(rec["bonds"]):
        ne("n_bonds", len(rec["bonds"]), len(bonds))
        return out
    a0, a1 = ml.Atom(), ml.Atom()
    for i, b in enumerate(rec["bonds"]):
        ref = ml.Bond(a0, a1)
        try:
            ref.set_mol2_type(b["type"])
        except Exception as e:  # noqa
            raise _Uninterpretable(f"bond type {b['type']!r}: {e!r}")
        got = bonds[i]
        for f, v in (("a1", b["a1"]), ("a2", b["a2"]), ("btype", int(ref.btype))):
            if got[f] != v:
                ne(f"bonds[{i}].{f}", v, got[f])
        battr = dict(rec["bond_attr"].get(i, {}))
        if got["attrib"] != battr:
            ne(f"bonds[{i}].attrib", battr, got["attrib"])
    return out


class _Uninterpretable(Exception):
    pass


def _feq(a, b):
    import math
    a, b = float(a), float(b)
    if math.isnan(a) or math.isnan(b):
        return math.isnan(a) and math.isnan(b)
    if math.isinf(a) or math.isinf(b):
        return a == b
    return abs(a - b) <= 1e-12 * max(1.0, abs(a), abs(b))


def _feq3(c, xyz):
    return all(_feq(c[i], xyz[i]) for i in range(3))


def _j(x):
    try:
        json.dumps(x)
        return x
    except Exception:  # noqa
        return repr(x)[:200]


def _field_of(path):
    """mechanism-level field name from a diff path: '.atoms[3].element' -> 'atoms.element'"""
    import re
    return re.sub(r"\[[^\]]*\]", "", path).strip(".") or "value"


# ------------------------------------------------------------------------------------------------

def run_chunk(spec, ctx):
    import numpy as np  # noqa
    import molli as ml  # noqa
    from vmon.models import damagedinput as D
    from vmon.snap import snap, diff

    tid = spec["text"]
    fmt = tid[1]
    tname = f"{tid[0]}:{tid[2]}.{fmt}" if not isinstance(tid[2], str) else f"{tid[0]}:{tid[2]}"
    T = build_text(tid, ctx)
    if not T.isascii():
        raise RuntimeError("pristine text is not ASCII: byte offsets would not be character offsets")
    lines = D.split_lines(T)
    classes = D.line_classes(fmt, lines)
    recs_T = D.records(fmt, lines)
    start_to_j = {r["start"]: j for j, r in enumerate(recs_T)}
    if "sect-UNITY_ATOM_ATTR" in classes:
        unity_text = True
    else:
        unity_text = False

    mon = Monitors(ctx)
    mon.install()
    ents = entries(fmt)

    # ---- pristine parses, one per entry point
    pristine = {}
    for name, cls, is_all, fn in ents:
        out = mon.run(fn, T, len(lines))
        if out[0] != "list":
            if out[0] == "budget":
                ctx.violation(f"termination:{fmt}:next-calls-exceed-bound", case=["none"], text=tname, entry=name,
                              calls=mon.next_calls, bound=mon.bound, lines=len(lines), damage={"kind": "none"})
            ctx.inconclusive.append(f"pristine text {tname} is not parsed by {name}: {out[0]} {out[1]!r}"[:400])
            pristine[name] = None
            continue
        pristine[name] = [snap(x) for x in out[1]]
        ctx.count("pristine.parsed")
        if name == ents[0][0] and spec["part"] == 0:
            ctx.count("pristine.texts")
            ctx.count(f"pristine.molecules.{fmt}", len(out[1]))
    if pristine[ents[0][0]] is None:
        return
    if len(pristine[ents[0][0]]) != len(recs_T) or not all(r["ok"] for r in recs_T):
        ctx.inconclusive.append(f"literal reading of pristine {tname} disagrees with the loader on the number of records: "
                                f"{len(recs_T)} vs {len(pristine[ents[0][0]])}, ok={[r['ok'] for r in recs_T]}")
        return

    cases = D.enumerate_cases(fmt, lines, spec["n_tok"])
    n_watchdog = 0
    for ci, case in enumerate(cases):
        if ci % spec["parts"] != spec["part"]:
            continue
        case = list(case)
        if not ctx.want(case):
            continue
        v = D.make_variant(fmt, lines, classes, tuple(case), lambda c: ctx.rng(tname, *c))
        if v is None:
            ctx.count("damage.tok-draw-not-applicable")
            continue
        text2, lines2, prov, info = v
        kind = info["kind"].split(":")[0]
        recs2 = D.records(fmt, lines2)

        todo = [ents[0]]
        if ci % 4 == 0:
            todo.append(ents[1 + (ci // 4) % (len(ents) - 1)])
        first = True
        for name, cls, is_all, fn in todo:
            M = pristine.get(name)
            if M is None:
                continue
            out = mon.run(fn, text2, len(lines2))
            ctx.count(f"parse.{fmt}")
            ctx.count(f"entry.{name}")
            if mon.next_calls:
                ctx.count("monitor.next-calls.parses")
                ctx.count("monitor.next-calls.total", mon.next_calls)
            ctx.count("reach.put_back", mon.put_backs)
            if unity_text:
                ctx.count("reach.mol2.unity-attr-text")
            oclass, viols = judge(ctx, D, snap, diff, fmt, name, cls, is_all, out, mon, recs2, recs_T, start_to_j, prov, M,
                                  lines2)
            if first:
                first = False
                ctx.count(f"damage.{kind}")
                ctx.count(f"damage-kind.{info['kind']}")
                changed = oclass != "list-same-as-pristine"
                ctx.case(case, dkey=(fmt, info["kind"], info.get("class"), oclass), nontrivial=changed and kind != "none",
                         sample={"text": tname, "damage": _small(info), "outcome": oclass})
            if out[0] == "watchdog":
                n_watchdog += 1
                ctx.inconclusive.append(f"watchdog 20s: {tname} case={case} entry={name}")
            if viols:
                ctx.count("oracle.violating-outcomes")
            for key, detail in viols:
                ctx.violation(key, case=case, text=tname, entry=name, damage=_small(info), **detail)
        if n_watchdog >= 3:
            ctx.inconclusive.append("three watchdog expiries in one chunk: chunk abandoned")
            break
    ctx.count("contract.mol2-block", mon.blocks["mol2"])
    ctx.count("contract.xyz-block", mon.blocks["xyz"])


def _small(info):
    d = dict(info)
    for k in ("old", "new", "last_line"):
        if k in d and isinstance(d[k], str):
            d[k] = d[k][:100]
    return d


def judge(ctx, D, snap, diff, fmt, entry, cls, is_all, out, mon, recs2, recs_T, start_to_j, prov, M, lines2):
    """-> (outcome class, [(violation key, detail)])"""
    viols = []
    tag, val = out
    if tag == "watchdog":
        return "watchdog", viols
    if tag == "budget":
        viols.append((f"termination:{fmt}:next-calls-exceed-bound",
                      {"calls": mon.next_calls, "bound": mon.bound, "lines": len(lines2)}))
        return "next-calls-exceed-bound", viols
    if tag == "exception":
        ctx.count("outcome.exception")
        ename = type(val).__name__
        ctx.count(f"reach.{fmt}-error.{ename}")
        why = next((r["why"] for r in recs2 if not r["ok"]), "no-incomplete-record")
        ctx.count(f"reach.{fmt}-rejected.{why}")
        if mon.block_failures:
            ctx.count("contract.block-mismatch-rejected-downstream")
        return f"exception:{ename}", viols

    # ---- a list came back
    ctx.count("outcome.list")
    R = val
    if not isinstance(R, list):
        viols.append((f"{fmt}:result-is-not-a-list", {"type": type(R).__name__}))
        return "not-a-list", viols
    has_charges = hasattr(cls, "atomic_charges")
    snaps = [snap(x) for x in R]
    n_complete = 0
    for r in recs2:
        if not r["ok"]:
            break
        n_complete += 1
    if is_all and len(R) < n_complete:
        ctx.count("outcome.list-shorter-than-complete-records")
    all_same = len(R) == (len(M) if is_all else min(1, len(M)))
    for k, s in enumerate(snaps):
        ctx.count("oracle.molecule-checked")
        if k >= len(recs2):
            viols.append((f"{fmt}:more-molecules-than-records-in-text", {"returned": len(R), "records": len(recs2)}))
            all_same = False
            break
        rec = recs2[k]
        n_atoms = len(s["atoms"])
        n_bonds = len(s.get("bonds", [])) if fmt == "mol2" else None
        src = prov[rec["start"]] if rec["start"] < len(prov) else None
        j = start_to_j.get(src) if src is not None else None
        pm = M[j] if (j is not None and j < len(M)) else None
        same_as_pristine = pm is not None and not diff(pm, s)
        if not (same_as_pristine and j == k):
            all_same = False
        brief = {"molecule": k, "returned": {"name": s.get("name"), "n_atoms": n_atoms, "n_bonds": n_bonds},
                 "record": {"lines": [rec["start"], rec["end"]], "declares": [rec["na"], rec["nb"]], "complete": rec["ok"],
                            "why": rec["why"], "atom_lines": rec.get("n_atom_lines"), "bond_lines": rec.get("n_bond_lines"),
                            "absent_sections": rec["absent"]}}
        # (0) the known stale-state mechanism is recognised by its structure before anything else
        if fmt == "mol2" and k >= 1 and rec["na"] is not None and rec["absent"] and not same_as_pristine \
                and rec["why"] in (None, "atom-lines-fewer-than-declared", "bond-lines-fewer-than-declared"):
            prev = snaps[k - 1]
            stale = []
            n_prev = len(prev["atoms"])
            if "ATOM" in rec["absent"] and 1 <= n_prev <= n_atoms \
                    and not diff(prev["atoms"], s["atoms"][:n_prev]) and not diff(prev["coords"], s["coords"][:n_prev]):
                stale.append("ATOM")
            if "BOND" in rec["absent"] and not diff(prev.get("bonds"), s.get("bonds")):
                stale.append("BOND")
            # every section the record lacks came back holding the previous molecule's data, the rest is complete
            if stale == rec["absent"] and ("ATOM" in rec["absent"] or rec.get("n_atom_lines") == rec["na"]):
                viols.append(("mol2-stale-sections-from-previous-record",
                              dict(brief, stale_sections=stale, equals_previous_molecule=True,
                                   previous={"name": prev.get("name"), "n_atoms": len(prev["atoms"]),
                                             "n_bonds": len(prev.get("bonds", []))})))
                continue
        # (a) counts its own header declares
        if rec["na"] is None:
            viols.append((f"{fmt}:molecule-returned-for-unreadable-header:{rec['why']}", brief))
            continue
        if n_atoms != rec["na"]:
            viols.append((f"{fmt}:count-differs-from-header:atoms", brief))
            continue
        if fmt == "mol2" and n_bonds != (rec["nb"] or 0):
            viols.append((f"{fmt}:count-differs-from-header:bonds", brief))
            continue
        # (b) content
        unchanged = j is not None and rec.get("sig") == recs_T[j].get("sig")
        if unchanged:
            if pm is None:
                viols.append((f"{fmt}:more-molecules-than-pristine-parse", brief))
            elif same_as_pristine:
                ctx.count("oracle.accepted-unchanged-record")
            else:
                d = diff(pm, s)
                viols.append((f"{fmt}:unchanged-record-parsed-differently:{_field_of(d[0][0])}",
                              dict(brief, pristine_molecule=j, diff=[list(map(_j, x)) for x in d[:4]])))
            continue
        if same_as_pristine:
            ctx.count("oracle.accepted-equal-to-pristine")
            continue
        if not rec["ok"]:
            viols.append((f"{fmt}:incomplete-record-returned:{rec['why']}", brief))
            continue
        try:
            ld = literal_diff(rec, s, has_charges)
        except _Uninterpretable as e:
            viols.append((f"{fmt}:uninterpretable-token-accepted", dict(brief, token=str(e)[:200])))
            continue
        if ld:
            viols.append((f"{fmt}:content-differs-from-text:{_field_of(ld[0][0])}",
                          dict(brief, expected_vs_observed=[list(x) for x in ld[:4]])))
        else:
            ctx.count("oracle.accepted-literal-value")
    if mon.block_failures:
        # the contract on the block readers: explained by a violation found above, or a finding of its own
        if viols:
            viols[0][1]["block_contract_also_failed"] = mon.block_failures[:2]
        else:
            viols.append((f"contract:{fmt}:block-counts-differ-from-header-in-returned-result",
                          {"blocks": mon.block_failures[:3], "returned": len(R)}))
    if viols:
        return "list-violating", viols
    return ("list-same-as-pristine" if all_same else "list-accepted-different"), viols
