"""
C06 -- copies are faithful and independent; derived molecules never alter their sources.

Monitor shape: snapshot oracle.  For every (source kind x copy route): snapshot(source) == snapshot(copy) in every
field both have (faithful; values AND classes of the values, parents/indices included); the call itself must leave every
source as it was (fields, parent links, indices); then a mutation script is applied to one side and the other side's
snapshot must stay bit-identical -- in both directions; no array memory, atom, bond or other mutable object reachable
through the attributes is shared; dropping the copy leaves the parent links of the source alone.
"""
from __future__ import annotations

ID = "C06"
LEVEL = "exploration"
RULE = ("sources: Promolecule, Connectivity, CartesianGeometry, Structure, Molecule, ConformerEnsemble, Conformer, Substructure "
        "(a Structure) built from seeded random rich molecules (>=2 atoms, >=1 bond, non-zero charges, nested attribs at "
        "molecule/atom/bond level holding lists, dicts, arrays, sets, byte arrays, tuples of lists, objects, references to "
        "atoms; attribute mappings of other mapping classes); "
        "routes: copy constructors (same class, every accepting super/sub class, user subclasses, with keyword overrides "
        "that name arrays owned by a source, molecule(s)/conformer(s) -> ensemble), cls(atoms, copy_atoms=True), pickle, "
        "deepcopy, concatenate / '|' (one fragment, empty fragments, the same fragment twice, mixed classes), join (mixed "
        "classes, conformers, the same structure on both sides), Atom.evolve, Bond.evolve; ~25 mutations (scalar fields, nested and deep attribute edits, arrays, structure edits, hydrogens) applied to either "
        "side. non-trivial = every case (sources are forced rich); distinct by (source kind, route, source hash)")
ASSUMPTIONS = [
    "faithfulness is judged on the fields both classes have (e.g. Promolecule(molecule) has no coordinates); "
    "ConformerEnsemble(molecule) is judged on atoms, bonds, name, charge, mult, attrib only (it does not take the geometry)",
    "concatenate/join: molecule-level name/attrib/charge/mult are not judged (two sources); atoms, bonds, partial charges and "
    "(for concatenate) coordinates are compared per fragment; join geometry is C12's subject",
    "a constructor keyword (name=, charge=, mult=, coords=, atomic_charges=, weights=) replaces the field it names, all "
    "other fields are judged against the source; attrib= overrides are not exercised (merge semantics are not C06's)",
    "Substructure is a source for the copy constructors and cls(atoms, copy_atoms=True) only (concatenating / pickling a "
    "Substructure raises on the unchanged tree; it is not in the property's list of source kinds)",
]
REQUIRED = {"faithful.checked": 300, "independent.copy-mutated": 300, "independent.source-mutated": 300,
            "route.pickle": 20, "route.deepcopy": 20, "route.ctor": 100, "route.concatenate": 20, "route.join": 20,
            "route.evolve": 20, "route.concatenate-self": 10, "concatenate.three-or-more-fragments": 10, "mutation.nested-attrib": 100, "sharing.walked": 300,
            "source.atoms-lent-before-copy": 50, "route.ctor-subclass": 20,
            # gap review
            "source.links-compared": 1000, "source.links-after-drop": 500,
            "route.concatenate-one": 40, "route.concatenate-empty": 40, "concatenate.empty-on-the-left": 5,
            "concatenate.result-identity-checked": 150, "concatenate.class-differs-from-fragment": 20,
            "route.ctor-ensemble-from-molecule": 60, "route.ctor-list": 40, "ctor-ensemble.default-n-conformers": 15,
            "route.ctor-subclass-ensemble": 15, "route.ctor-subclass-base-classes": 40,
            "route.join-mixed": 40, "join.conformer-fragment": 10, "join.class-differs-from-first-fragment": 15,
            "join.attachment-by-index": 20, "route.join-self": 40,
            "mutation.deep-edit": 1000, "deep-edit.set": 300, "deep-edit.bytearray": 300, "deep-edit.list-in-tuple": 300,
            "deep-edit.object": 300, "deep-edit.atom-reference": 300, "sharing.atom-reference-walked": 300,
            "types.compared": 1000, "source.attrib-mapping-class": 200,
            "route.ctor-kw": 80, "ctor-kw.array-of-a-source": 40,
            "source.substructure": 100, "source.default-attrib": 20}
CHUNK_TIMEOUT = 900
TECHNIQUE = "runtime monitoring: deep snapshot equality + mutate-one-side/observe-the-other oracle, object-identity sharing walk"
LEVEL_TEXT = ("Held on the (source x route x mutation) matrix produced from seeded random rich objects: every copy is compared "
              "with its source field by field (values and classes), every source is compared with itself before / after the "
              "call (fields, parent links, indices), then each side is mutated through ~25 edits while the other side is watched.")
LEVEL_NOTE = ("Trusted: vmon/snap.py plus the local class / parent-link snapshots of this module. Bit-identical comparison for "
              "independence, exact (not tolerant) for faithfulness.")

KINDS = ["Promolecule", "Connectivity", "CartesianGeometry", "Structure", "Molecule", "ConformerEnsemble", "Conformer",
         "Substructure"]

# ------------------------------------------------------------------------------------------------
# Defects of the UNCHANGED tree (see tools/findings/C06-ext.json).  These exact violation keys are counted
# (monitor known-defect.suppressed) instead of reported; remove the entries once the library is repaired.
#
#  Promolecule copy branch: `deepcopy(pm.attrib) | self.attrib` gives a plain dict for every mapping class whose
#  `|` with a plain dict does not keep the class (Counter, user subclasses of dict); defaultdict / OrderedDict are kept.
#  (join with the same structure / conformers of one ensemble on both sides -- route join-self -- was repaired in the
#  library, commit 0d9ffb9, and is judged like every other join.)
_MAPPING_CLASS = "not-faithful:attrib-mapping-class-not-kept-by-merge-with-dict"
KNOWN_ON_UNCHANGED_TREE = set()


def _known_mapping_keys():
    out = set()
    for kind in KINDS:
        for route, target in routes_for(kind):
            if route in ("ctor", "ctor-subclass", "ctor-kw", "ctor-list"):
                out.add(f"{kind}->{route}:{target}:{_MAPPING_CLASS}")
    return out


def viol(ctx, key, case=None, **detail):
    import os

    # VERIF_C06_REPORT_KNOWN=1 reports them too (to confirm a repair of the library)
    if key in KNOWN_ON_UNCHANGED_TREE and not os.environ.get("VERIF_C06_REPORT_KNOWN"):
        ctx.count("known-defect.suppressed")
        return
    ctx.violation(key, case=case, **detail)


def plan(tier, seed):
    n = 32 if tier == "quick" else 320
    per = 2 if tier == "quick" else 8
    return [{"chunk": i, "n": per} for i in range(n)]


# ------------------------------------------------------------------------------------------------

class UserMapping(dict):
    """a user-defined attribute mapping (inherits everything, `|` included, from dict)"""


def mapping_variant(rng, d, ctx=None, plain_only=False):
    """the attribute mapping as a plain dict or as another mapping class (same content)"""
    import collections

    r = rng.random()
    if plain_only or r < 0.45:
        return d
    if ctx is not None:
        ctx.count("source.attrib-mapping-class")
    if r < 0.7:
        return collections.defaultdict(list, d)
    if r < 0.9:
        return collections.OrderedDict(d)
    if ctx is not None:
        ctx.count("source.attrib-mapping-class-merging-to-dict")
    # mapping classes whose `|` with a plain dict gives a plain dict
    return collections.Counter(d) if r < 0.95 else UserMapping(d)


def rich_molecule(rng, cls, ctx=None):
    from vmon import gen
    import collections
    import types

    m = gen.molecule(rng, n_atoms=rng.choice([2, 3, 5, 8, 12]), rich=True, special=0.0, cls=cls)
    if m.n_bonds == 0:
        m.connect(0, 1)
    m.attrib["nested"] = {"a": [1, 2, {"b": 3}], "arr": __import__("numpy").arange(3.0)}
    m.atoms[0].attrib["nested"] = {"l": [1, [2, 3]], "d": {"x": 1}}
    m.atoms[-1].attrib["flat"] = "v"
    # attribute values of other mapping / container types, and a reference to another atom of the same molecule
    m.atoms[0].attrib["counter"] = collections.Counter("aabbbc")
    m.atoms[-1].attrib["ordered"] = collections.OrderedDict([("z", 1), ("a", [2, 3])])
    m.attrib["dd"] = collections.defaultdict(list, {"k": [1]})
    m.atoms[0].attrib["tags"] = {"x", "y"}
    m.atoms[0].attrib["partner"] = m.atoms[-1]
    m.bonds[0].attrib["nested"] = {"q": [0, {"z": 1}]}
    # mutable values that are neither dict, list nor array -- at the top level of an attribute mapping and below it
    m.atoms[-1].attrib["shifts"] = ([1.0, 2.0], "ppm")
    m.atoms[-1].attrib["raw"] = bytearray(b"abc")
    m.atoms[0].attrib["obj"] = types.SimpleNamespace(v=[1, 2], s="t")
    m.atoms[0].attrib["frozen"] = frozenset({1, 2})
    m.bonds[0].attrib["tags"] = {"ring"}
    m.bonds[-1].attrib["raw"] = bytearray(b"xy")
    m.attrib["tags"] = {"m"}
    m.attrib["obj"] = types.SimpleNamespace(w=[3])
    m.attrib["pair"] = ({"k": [1]}, 2)
    # the attribute mappings themselves may be of another mapping class
    m.attrib = mapping_variant(rng, m.attrib, ctx)
    m.atoms[-1].attrib = mapping_variant(rng, m.atoms[-1].attrib, None, plain_only=rng.random() < 0.5)
    if type(m.atoms[-1].attrib) in (collections.Counter, UserMapping):
        m.atoms[-1].attrib = collections.OrderedDict(m.atoms[-1].attrib)
    if rng.random() < 0.5:
        m.bonds[-1].attrib = collections.defaultdict(dict, m.bonds[-1].attrib)
    return m


def make_source(rng, kind, ctx=None):
    """-> (source object, keepalive = the object that owns what the source shows, or None)"""
    import numpy as np
    import molli as ml
    from molli.chem import Atom, Promolecule, Connectivity, CartesianGeometry, Structure, Molecule, ConformerEnsemble
    from vmon import gen

    if kind in ("Structure", "Molecule"):
        cls = Structure if kind == "Structure" else Molecule
        m = rich_molecule(rng, cls, ctx)
        if kind == "Molecule":
            m.atomic_charges = np.array([0.25 * (i + 1) * (-1) ** i for i in range(m.n_atoms)])
        return m, None
    base = rich_molecule(rng, Molecule, ctx)
    if kind == "Substructure":
        base.atomic_charges = np.array([0.25 * (i + 1) * (-1) ** i for i in range(base.n_atoms)])
        n = base.n_atoms
        mode = rng.random()
        heavy = [a for a in base.atoms if a.element.name != "H"]
        if mode < 0.25 and len(heavy) >= 1:
            sub = base.heavy
        elif mode < 0.5:
            sub = base.substructure(range(n))                      # everything, parent order
        else:
            idx = rng.sample(range(n), rng.randrange(1, n + 1))    # a subset in any order
            sub = base.substructure(idx)
        if ctx is not None:
            ctx.count("source.substructure")
        return sub, base
    if kind == "Promolecule":
        p = Promolecule([a for a in base.atoms], name=base.name, charge=base.charge, mult=base.mult, copy_atoms=True)
        for a, b in zip(p.atoms, base.atoms):
            a.attrib = {"own": [1, {"k": 2}], **{k: v for k, v in b.attrib.items() if k != "nested"}}
        p.attrib = mapping_variant(rng, {"nested": {"a": [1, 2]}, "tags": {"p"}}, ctx)
        return p, None
    if kind == "Connectivity":
        c = Connectivity(base.atoms, name=base.name, charge=base.charge, mult=base.mult, copy_atoms=True)
        for b in base.bonds:
            c.connect(base.atoms.index(b.a1), base.atoms.index(b.a2), label=b.label, btype=b.btype, stereo=b.stereo,
                      f_order=b.f_order, attrib={"own": {"n": [1]}, "tags": {"t"}})
        c.attrib = mapping_variant(rng, {"nested": {"a": [1, 2]}}, ctx)
        c.atoms[0].attrib = {"own": [1, {"k": 2}], "raw": bytearray(b"c")}
        return c, None
    if kind == "CartesianGeometry":
        g = CartesianGeometry(base.atoms, name=base.name, charge=base.charge, mult=base.mult, copy_atoms=True,
                              coords=np.array(base.coords))
        g.attrib = mapping_variant(rng, {"nested": {"a": [1, 2]}}, ctx)
        g.atoms[0].attrib = {"own": [1, {"k": 2}], "pair": ([1], 2)}
        return g, None
    # ensembles
    nc = rng.choice([1, 2, 4])
    base.atomic_charges = np.array([0.25 * (i + 1) for i in range(base.n_atoms)])
    ens = ConformerEnsemble(base, n_conformers=nc)
    ens.coords = np.array([[[rng.uniform(-5, 5) for _ in range(3)] for _ in range(base.n_atoms)] for _ in range(nc)])
    ens.atomic_charges = np.array([[rng.uniform(-1, 1) for _ in range(base.n_atoms)] for _ in range(nc)])
    ens.weights = np.array([0.5 + i for i in range(nc)])
    ens.attrib["nested"] = {"a": [1, 2, {"b": 3}]}
    ens.atoms[0].attrib["nested"] = {"l": [1, [2, 3]]}
    ens.bonds[0].attrib["nested"] = {"q": [0, {"z": 1}]}
    if kind == "ConformerEnsemble":
        return ens, None
    return ens[rng.randrange(nc)], ens


CHAIN = {"Promolecule": ["Promolecule"],
         "Connectivity": ["Promolecule", "Connectivity", "ConformerEnsemble"],
         "CartesianGeometry": ["Promolecule", "CartesianGeometry"],
         "Structure": ["Promolecule", "Connectivity", "CartesianGeometry", "Structure", "Molecule", "ConformerEnsemble"],
         "Molecule": ["Promolecule", "Connectivity", "CartesianGeometry", "Structure", "Molecule", "ConformerEnsemble"],
         "ConformerEnsemble": ["Promolecule", "Connectivity", "ConformerEnsemble"],
         "Conformer": ["Molecule", "Structure", "CartesianGeometry", "Connectivity", "Promolecule", "ConformerEnsemble"],
         "Substructure": ["Promolecule", "Connectivity", "CartesianGeometry", "Structure", "Molecule"]}


def routes_for(kind):
    r = [("ctor", c) for c in CHAIN[kind]]
    if kind == "Conformer":
        return r + [("atoms-copy", "Molecule"), ("concatenate", "Molecule"), ("ctor-subclass", "Molecule"),
                    ("pickle", "Conformer"), ("deepcopy", "Conformer"),
                    ("ctor-list", "ConformerEnsemble"), ("ctor-kw", "Molecule"),
                    ("concatenate-one", "Molecule"), ("concatenate-empty", "Molecule"),
                    ("join-mixed", "Molecule"), ("join-self", "Molecule")]
    if kind == "Substructure":
        return r + [("ctor-subclass", "Structure"), ("ctor-subclass", "Molecule"), ("atoms-copy", "Structure")]
    r += [("atoms-copy", kind), ("pickle", kind), ("deepcopy", kind)]
    if kind in ("Structure", "Molecule"):
        r += [("ctor-subclass", "Molecule"), ("ctor-subclass", "Structure")]
    else:
        r += [("ctor-subclass", kind)]        # a user subclass of every class is a copy target like any other
    if kind == "Molecule":
        r += [("ctor-list", "ConformerEnsemble")]
    if kind in ("CartesianGeometry", "Structure", "Molecule", "ConformerEnsemble"):
        r += [("ctor-kw", kind)]
    if kind in ("Structure", "Molecule"):
        r += [("concatenate", kind), ("or", "Structure"), ("join", kind), ("concatenate-self", kind),
              ("concatenate-one", kind), ("concatenate-empty", kind), ("join-mixed", kind), ("join-self", kind)]
    r += [("evolve-atom", "Atom")]
    if kind not in ("Promolecule", "CartesianGeometry"):
        r += [("evolve-bond", "Bond")]
    return r


# (the attrib mapping class defect was repaired in the library: nothing is silenced)


# ------------------------------------------------------------------------------------------------
# local snapshot extensions (vmon/snap.py compares values; the property also speaks of classes, parents and indices)

def typetree(v, depth=0):
    """class names of a value and of everything inside it (int / float / bool / enum / tuple / list ... are distinct)"""
    import numpy as np

    t = type(v).__name__
    if depth > 8:
        return t
    if isinstance(v, dict):
        d = {"__class__": t}
        for k, x in v.items():
            d[repr(k)] = typetree(x, depth + 1)
        return d
    if isinstance(v, (list, tuple)):
        return [t] + [typetree(x, depth + 1) for x in v]
    if isinstance(v, (set, frozenset)):
        return [t] + sorted(repr(typetree(x, depth + 1)) for x in v)
    if isinstance(v, np.ndarray):
        return f"ndarray[{v.dtype.str}]"
    return t


ATOM_FIELDS = ("element", "isotope", "label", "atype", "stereo", "geom", "formal_charge", "formal_spin")
BOND_FIELDS = ("label", "btype", "stereo", "f_order")


def atom_types(a):
    d = {f: type(getattr(a, f)).__name__ for f in ATOM_FIELDS}
    d["attrib"] = typetree(a.attrib)
    return d


def bond_types(b):
    d = {f: type(getattr(b, f)).__name__ for f in BOND_FIELDS}
    d["attrib"] = typetree(b.attrib)
    return d


def xsnap(x):
    """vmon.snap.snap plus the classes of all field values ("types" inside every atom / bond and at the top level)"""
    from vmon.snap import snap

    s = snap(x)
    for d, a in zip(s["atoms"], x.atoms):
        d["types"] = atom_types(a)
    if "bonds" in s:
        for d, b in zip(s["bonds"], x.bonds):
            d["types"] = bond_types(b)
    t = {}
    for f in ("name", "charge", "mult"):
        if f in s:
            t[f] = type(getattr(x, f)).__name__
    if "attrib" in s:
        t["attrib"] = typetree(x.attrib)
    for f in ("coords", "atomic_charges", "weights"):
        if f in s:
            t[f] = s[f].dtype.str
    s["types"] = t
    return s


def links(x):
    """who every atom / bond of x names as its parent (identity) and which index every atom reports"""
    out = []
    for i, a in enumerate(x.atoms):
        try:
            p = a.parent
            out.append(("atom", i, None if p is None else id(p), a.idx))
        except Exception as e:  # noqa
            out.append(("atom", i, "raises", type(e).__name__))
    try:
        bonds = list(x.bonds) if hasattr(x, "bonds") else []
    except AttributeError:
        bonds = []
    for j, b in enumerate(bonds):
        try:
            p = b.parent
            out.append(("bond", j, None if p is None else id(p)))
        except Exception as e:  # noqa
            out.append(("bond", j, "raises", type(e).__name__))
    return out


def links_diff(a, b):
    """-> mechanism name or None"""
    if len(a) != len(b):
        return "links.len"
    for x, y in zip(a, b):
        if x != y:
            if x[0] == "bond":
                return "bond.parent"
            return "atom.parent" if x[2] != y[2] else "atom.idx"
    return None


def flat(s):
    """byte string of a snapshot (fast equality; the structural diff decides whenever the bytes differ)"""
    import pickle

    try:
        return pickle.dumps(s, protocol=4)
    except Exception:  # noqa
        return None


class Watched:
    """objects that have to stay as they are: snapshot (values + classes) and parent links, taken now"""

    def __init__(self, objs, ctx=None):
        self.items = [(label, o, xsnap(o), links(o)) for label, o in objs]
        self.bytes = [flat(s) for _, _, s, _ in self.items]
        self.ctx = ctx

    def changed(self, with_links=True):
        """-> (label, mechanism field, witness) of the first difference, or None"""
        from vmon.snap import diff

        for (label, o, s, l), fb in zip(self.items, self.bytes):
            now = xsnap(o)
            if fb is None or flat(now) != fb:         # equal bytes: equal snapshots; else let diff decide
                d = diff(s, now)
                if d:
                    return label, field_of(d[0][0]), d[:3]
            if with_links:
                if self.ctx is not None:
                    self.ctx.count("source.links-compared")
                ld = links_diff(l, links(o))
                if ld:
                    return label, ld, None
        return None

    def links_changed(self):
        for label, o, s, l in self.items:
            ld = links_diff(l, links(o))
            if ld:
                return label, ld
        return None


# ------------------------------------------------------------------------------------------------

BASE_NAMES = ("Conformer", "Substructure", "ConformerEnsemble", "Molecule", "Structure", "CartesianGeometry", "Connectivity",
              "Promolecule")


def base_name(obj):
    """name of the library class an object is an instance of (user subclasses count as their base)"""
    for c in type(obj).__mro__:
        if c.__name__ in BASE_NAMES and c.__module__.startswith("molli."):
            return c.__name__
    return type(obj).__name__


def mutations(obj, rng, ctx=None):
    """list of (name, fn) editing `obj` in place through public API"""
    import numpy as np
    from molli.chem import Atom, AtomType, AtomStereo, AtomGeom, BondType, BondStereo, Element

    muts = []
    atoms = list(obj.atoms)
    if atoms:
        a = atoms[0]
        muts += [
            ("atom.scalar-fields", lambda: (
                setattr(a, "element", Element.Xe if a.element != Element.Xe else Element.Kr),
                setattr(a, "isotope", (a.isotope or 0) + 7),
                setattr(a, "label", "MUTATED"),
                setattr(a, "atype", AtomType.Dummy if a.atype != AtomType.Dummy else AtomType.sp2),
                setattr(a, "stereo", AtomStereo.R if a.stereo != AtomStereo.R else AtomStereo.S),
                setattr(a, "geom", AtomGeom.R6 if a.geom != AtomGeom.R6 else AtomGeom.R1),
                setattr(a, "formal_charge", a.formal_charge + 5),
                setattr(a, "formal_spin", a.formal_spin + 3))),
            ("atom.attrib[k]=v", lambda: a.attrib.__setitem__("mutkey", "mutval")),
            ("atom.nested-attrib", lambda: nested_edit(a.attrib)),
            ("atoms.attrib-deep-edit", lambda: [deep_edit(x.attrib, ctx) for x in atoms]),
        ]
    try:
        bonds = list(getattr(obj, "bonds", ()) or ())
    except AttributeError:
        bonds = []
    if bonds:
        b = bonds[0]
        muts += [
            ("bond.scalar-fields", lambda: (
                setattr(b, "label", "MUTB"),
                setattr(b, "btype", BondType.H_Donor if b.btype != BondType.H_Donor else BondType.Single),
                setattr(b, "stereo", BondStereo.E if b.stereo != BondStereo.E else BondStereo.Z),
                setattr(b, "f_order", b.f_order + 0.75))),
            ("bond.attrib[k]=v", lambda: b.attrib.__setitem__("mutkey", 1)),
            ("bond.nested-attrib", lambda: nested_edit(b.attrib)),
            ("bonds.attrib-deep-edit", lambda: [deep_edit(x.attrib, ctx) for x in bonds]),
        ]
    cname = base_name(obj)
    if hasattr(obj, "coords") and len(atoms):
        muts.append(("coords[i]+=1", lambda: obj.coords.__setitem__((Ellipsis, 0, slice(None)) if obj.coords.ndim == 3 else 0,
                                                                    (obj.coords[..., 0, :] if obj.coords.ndim == 3 else obj.coords[0]) + 1.0)))
    if hasattr(obj, "atomic_charges") and len(atoms):
        def mutq():
            q = obj.atomic_charges
            if q.ndim == 2:
                q[0, 0] = q[0, 0] + 3.5
            else:
                q[0] = q[0] + 3.5
        muts.append(("atomic_charges[i]=q", mutq))
    if hasattr(obj, "weights") and cname == "ConformerEnsemble" and obj.n_conformers:
        muts.append(("weights[i]=w", lambda: obj.weights.__setitem__(0, obj.weights[0] + 2.0)))
    muts += [("mol.attrib[k]=v", lambda: obj.attrib.__setitem__("molmut", [1])),
             ("mol.nested-attrib", lambda: nested_edit(obj.attrib)),
             ("mol.attrib-deep-edit", lambda: deep_edit(obj.attrib, ctx))]
    if cname not in ("Conformer", "Substructure"):
        muts += [("mol.scalar-fields", lambda: (setattr(obj, "name", "renamed"), setattr(obj, "charge", (obj.charge or 0) + 4),
                                                setattr(obj, "mult", (obj.mult or 1) + 2)))]
    if cname in ("Structure", "Molecule"):
        muts += [("add_atom", lambda: obj.add_atom(Atom("Cl", label="added"), [9.0, 9.0, 9.0])),
                 ("connect", lambda: connect_new(obj)),
                 ("del_bond", lambda: obj.del_bond(obj.bonds[0]) if obj.n_bonds else None),
                 ("scale", lambda: obj.scale(2.0)),
                 ("translate", lambda: obj.translate([1.0, 2.0, 3.0])),
                 ("add_implicit_hydrogens", lambda: safe(obj.add_implicit_hydrogens)),
                 ("del_atom", lambda: obj.del_atom(obj.n_atoms - 1) if obj.n_atoms > 1 else None)]
    elif cname == "Promolecule":
        muts += [("append_atom", lambda: obj.append_atom(Atom("Cl"))), ("del_atom", lambda: obj.del_atom(0) if obj.n_atoms > 1 else None)]
    elif cname == "Connectivity":
        muts += [("connect", lambda: connect_new(obj)), ("del_bond", lambda: obj.del_bond(obj.bonds[0]) if obj.n_bonds else None),
                 ("del_atom", lambda: obj.del_atom(0) if obj.n_atoms > 1 else None)]
    elif cname == "CartesianGeometry":
        muts += [("add_atom", lambda: obj.add_atom(Atom("Cl"), [9.0, 9.0, 9.0])), ("scale", lambda: obj.scale(2.0)),
                 ("translate", lambda: obj.translate([1.0, 2.0, 3.0])), ("del_atom", lambda: obj.del_atom(0) if obj.n_atoms > 1 else None)]
    elif cname == "ConformerEnsemble":
        muts += [("connect", lambda: connect_new(obj)), ("scale", lambda: obj.scale(2.0)),
                 ("translate", lambda: obj.translate([1.0, 2.0, 3.0]) if obj.n_conformers else None)]
    if hasattr(obj, "coords") and cname != "Substructure":
        muts.append(("coords=value", lambda: setattr(obj, "coords", 0.5)))       # last: it flattens the geometry
    return muts


def nested_edit(d):
    """edit the first nested container found inside an attrib dict"""
    for k, v in list(d.items()):
        if isinstance(v, dict):
            for k2, v2 in list(v.items()):
                if isinstance(v2, list):
                    v2.append("deep-mutation")
                    return
                if isinstance(v2, dict):
                    v2["deep"] = "mutation"
                    return
            v["shallow-nested"] = 1
            return
        if isinstance(v, list):
            v.append("deep-mutation")
            return
    d["__no_nested__"] = 1


def is_atom(v):
    return type(v).__module__.startswith("molli.") and hasattr(v, "element") and hasattr(v, "atype") and hasattr(v, "attrib")


def deep_edit(x, ctx=None, seen=None, depth=0, in_tuple=False):
    """edit IN PLACE every mutable value reachable from an attribute mapping (whatever its class)"""
    import numpy as np
    import types

    if seen is None:
        seen = set()
        if ctx is not None:
            ctx.count("mutation.deep-edit")
    if id(x) in seen or depth > 8:
        return
    seen.add(id(x))

    def c(name):
        if ctx is not None:
            ctx.count("deep-edit." + name)

    if isinstance(x, dict):
        for v in list(x.values()):
            deep_edit(v, ctx, seen, depth + 1)
        x["deep-edit"] = 1
    elif isinstance(x, list):
        for v in list(x):
            deep_edit(v, ctx, seen, depth + 1)
        x.append("deep-edit")
        if in_tuple:
            c("list-in-tuple")
    elif isinstance(x, tuple):
        for v in x:
            deep_edit(v, ctx, seen, depth + 1, in_tuple=True)
    elif isinstance(x, set):
        x.add("deep-edit")
        c("set")
    elif isinstance(x, bytearray):
        x += b"!"
        c("bytearray")
    elif isinstance(x, np.ndarray):
        if x.size and x.flags.writeable and x.dtype.kind in "fiu":
            x += 1
    elif isinstance(x, types.SimpleNamespace):
        for v in list(vars(x).values()):
            deep_edit(v, ctx, seen, depth + 1)
        x.deep_edit = 1
        c("object")
    elif is_atom(x):
        x.label = "deep-edit"
        x.attrib["deep-edit-through-reference"] = 1
        c("atom-reference")


def connect_new(obj):
    n = obj.n_atoms
    have = {frozenset((id(b.a1), id(b.a2))) for b in obj.bonds}
    for i in range(n):
        for j in range(i + 1, n):
            if frozenset((id(obj.atoms[i]), id(obj.atoms[j]))) not in have:
                obj.connect(i, j)
                return


def safe(fn):
    try:
        fn()
    except Exception:  # noqa  (degenerate random geometry; C16's subject)
        pass


def walk_ids(x, out, depth=0, ctx=None):
    """identities of every mutable object reachable through attribs: anything that is not a number, string, bytes, None,
    enum member or class; tuples / frozensets are looked into, referenced atoms are recorded and looked into"""
    import numpy as np
    import types
    from enum import Enum

    if x is None or isinstance(x, (bool, int, float, complex, str, bytes, Enum, np.generic, type, types.FunctionType,
                                   types.BuiltinFunctionType, types.ModuleType, range)):
        return
    if isinstance(x, (tuple, frozenset)):
        if depth <= 8:
            for v in x:
                walk_ids(v, out, depth + 1, ctx)
        return
    if id(x) in out:
        return
    out.add(id(x))
    if depth > 8:
        return
    if isinstance(x, dict):
        for v in x.values():
            walk_ids(v, out, depth + 1, ctx)
    elif isinstance(x, (list, set)):
        for v in x:
            walk_ids(v, out, depth + 1, ctx)
    elif isinstance(x, types.SimpleNamespace):
        walk_ids(vars(x), out, depth + 1, ctx)
    elif is_atom(x):
        if ctx is not None:
            ctx.count("sharing.atom-reference-walked")
        walk_ids(x.attrib, out, depth + 1, ctx)


def mutable_ids(obj, ctx=None):
    ids = set()
    for a in obj.atoms:
        ids.add(id(a))
    try:
        bonds = list(getattr(obj, "bonds", ()) or ())
    except AttributeError:
        bonds = []
    for b in bonds:
        ids.add(id(b))
    for a in obj.atoms:
        walk_ids(a.attrib, ids, 0, ctx)
    for b in bonds:
        walk_ids(b.attrib, ids)
    walk_ids(obj.attrib, ids)
    return ids


def arrays_of(obj):
    out = []
    for f in ("coords", "atomic_charges", "weights"):
        try:
            v = getattr(obj, f)
        except AttributeError:
            continue
        if v is not None and hasattr(v, "shape"):
            out.append((f, v))
    return out


# ------------------------------------------------------------------------------------------------

def lib_classes():
    from molli.chem import Promolecule, Connectivity, CartesianGeometry, Structure, Molecule, ConformerEnsemble

    return {"Promolecule": Promolecule, "Connectivity": Connectivity, "CartesianGeometry": CartesianGeometry,
            "Structure": Structure, "Molecule": Molecule, "ConformerEnsemble": ConformerEnsemble}


def user_subclass(cls):
    return type("User" + cls.__name__, (cls,), {})


def prepare(route, target, src, keep, rng, ctx):
    """-> dict(build=callable making the copy, donors=[(label, obj)] further objects whose state the call reads,
               override={field: expected value}, only=set of judged fields or None)"""
    import copy as _copy
    import pickle
    import numpy as np
    from molli.chem import Molecule, ConformerEnsemble

    classes = lib_classes()
    kind = base_name(src)
    plan = {"donors": [], "override": {}, "only": None}
    if route == "ctor" and target == "ConformerEnsemble" and kind != "ConformerEnsemble":
        # molecule / structure / conformer / connectivity -> ensemble with that connectivity
        ctx.count("route.ctor-ensemble-from-molecule")
        nc = rng.choice([None, None, 1, 3])
        if nc is None:
            ctx.count("ctor-ensemble.default-n-conformers")
            plan["build"] = lambda: ConformerEnsemble(src)
        else:
            plan["build"] = lambda: ConformerEnsemble(src, n_conformers=nc)
        plan["only"] = {"name", "charge", "mult", "attrib", "atoms", "bonds"}
    elif route == "ctor":
        plan["build"] = lambda: classes[target](src)
    elif route == "ctor-subclass":
        # a user-defined subclass of the target class is a copy route like any other
        sub = user_subclass(classes[target])
        if target == "ConformerEnsemble":
            ctx.count("route.ctor-subclass-ensemble")
        if target in ("Promolecule", "Connectivity", "CartesianGeometry"):
            ctx.count("route.ctor-subclass-base-classes")
        plan["build"] = lambda: sub(src)
    elif route == "atoms-copy":
        plan["build"] = lambda: classes[target](list(src.atoms), copy_atoms=True)
        plan["only"] = {"atoms"}
    elif route == "pickle":
        plan["build"] = lambda: pickle.loads(pickle.dumps(src))
    elif route == "deepcopy":
        plan["build"] = lambda: _copy.deepcopy(src)
    elif route == "ctor-list":
        # ConformerEnsemble([molecule, molecule, ...]) / ConformerEnsemble([conformer, conformer, ...])
        n = rng.choice([1, 2, 3])
        if kind == "Conformer":
            mols = [src] + [keep[rng.randrange(keep.n_conformers)] for _ in range(n - 1)]
        else:
            mols = [src]
            for k in range(n - 1):
                d = Molecule(src)
                d.coords = np.array(src.coords) + (k + 1.0)
                d.atomic_charges = np.array(src.atomic_charges) * 0.5 - (k + 1)
                mols.append(d)
                plan["donors"].append((f"list-member-{k + 1}", d))
        rng.shuffle(mols)
        plan["build"] = lambda: ConformerEnsemble(mols)
        plan["list"] = mols
        plan["only"] = {"name", "charge", "mult", "attrib", "atoms", "bonds", "coords", "atomic_charges"}
    elif route == "ctor-kw":
        cls = classes[target]
        kw = {}
        # a second object of the same kind, alive, whose arrays may be named in the call
        if kind == "Conformer":
            donor = keep[rng.randrange(keep.n_conformers)]
        else:
            donor = cls(src)
            if hasattr(donor, "coords"):
                donor.coords = np.array(src.coords) + 1.0
            if hasattr(donor, "atomic_charges"):
                donor.atomic_charges = np.array(src.atomic_charges) - 2.0
            if kind == "ConformerEnsemble":
                donor.weights = np.array(src.weights) + 0.25
            plan["donors"].append(("array-owner", donor))
        owner = donor if rng.random() < 0.6 else src
        fields = [f for f in ("coords", "atomic_charges", "weights") if f == "coords" or
                  (f == "atomic_charges" and kind in ("Molecule", "Conformer", "ConformerEnsemble")) or
                  (f == "weights" and kind == "ConformerEnsemble")]
        chosen = [f for f in fields if rng.random() < 0.7] or [fields[0]]
        for f in chosen:
            kw[f] = getattr(owner, f)                 # the live array of a source, not a copy of it
            plan["override"][f] = np.array(kw[f], copy=True)
        ctx.count("ctor-kw.array-of-a-source")
        if rng.random() < 0.5:
            kw["name"] = "named-in-the-call"
            plan["override"]["name"] = "named-in-the-call"
        if rng.random() < 0.3:
            kw["charge"] = 7
            plan["override"]["charge"] = 7
        if rng.random() < 0.3:
            kw["mult"] = 5
            plan["override"]["mult"] = 5
        plan["build"] = lambda: cls(src, **kw)
    else:
        raise ValueError(route)
    return plan


def restrict(sa, sb, only=None):
    """fields both snapshots have (cls excluded); "types" restricted the same way"""
    keys = (set(sa) & set(sb)) - {"cls"}
    if only is not None:
        keys &= set(only) | {"types"}
    a, b = {k: sa[k] for k in keys}, {k: sb[k] for k in keys}
    if "types" in keys:
        tk = set(sa["types"]) & set(sb["types"]) & keys
        a["types"] = {k: sa["types"][k] for k in tk}
        b["types"] = {k: sb["types"][k] for k in tk}
    return a, b


def merge_keeps_class(mapping):
    """does `mapping | {}` give a mapping of the same class (dict, defaultdict, OrderedDict: yes; Counter: no)"""
    try:
        return type(type(mapping)() | {}) is type(mapping)
    except Exception:  # noqa
        return False


def faithful(ctx, case, tag, exp, got, src_attrib=None, **detail):
    """report the first field in which the copy differs from what the source(s) say"""
    from vmon.snap import diff

    ctx.count("faithful.checked")
    ctx.count("types.compared")
    d = diff(exp, got, limit=24)
    if d and src_attrib is not None and not merge_keeps_class(src_attrib):
        cls_paths = {".attrib.__dict_subclass__", ".types.attrib.__class__"}
        if any(p in cls_paths for p, _, _ in d):
            viol(ctx, f"{tag}:{_MAPPING_CLASS}", case=case, source_class=type(src_attrib).__name__)
            d = [x for x in d if x[0] not in cls_paths]
    if d:
        viol(ctx, f"{tag}:not-faithful:{field_of(d[0][0])}", case=case, diff=d[:4], **detail)


def run_chunk(spec, ctx):
    for j in range(spec["n"]):
        for kind in KINDS:
            for route, target in routes_for(kind):
                case = (spec["chunk"], j, kind, route, target)
                if not ctx.want(case):
                    continue
                run_case(ctx, spec, j, kind, route, target, case)


def run_case(ctx, spec, j, kind, route, target, case):
    import numpy as np
    from vmon.snap import snap_hash

    rng = ctx.rng(spec["chunk"], j, kind)     # same source for all routes of a kind
    src, keep = make_source(rng, kind, ctx)
    lend(src, rng, ctx)
    s0 = xsnap(src)
    ctx.count(f"route.{route.split('-')[0] if route.startswith('evolve') else route}")
    ctx.case(case, dkey=(kind, route, target, snap_hash(s0)), nontrivial=True,
             sample={"source": kind, "route": route, "target": target, "n_atoms": src.n_atoms})
    tag = f"{kind}->{route}:{target}"
    owners = [("source", src)] + ([("source-owner", keep)] if keep is not None else [])
    try:
        if route in ("concatenate", "or", "concatenate-self", "concatenate-one", "concatenate-empty"):
            check_concatenate(ctx, case, tag, src, keep, s0, kind, route, rng)
            return
        if route in ("join", "join-mixed", "join-self"):
            check_join(ctx, case, tag, kind, route, rng)
            return
        if route.startswith("evolve"):
            check_evolve(ctx, case, tag, src, route)
            return
        plan = prepare(route, target, src, keep, ctx.rng(case, "prep"), ctx)
        before = Watched(owners + plan["donors"], ctx)
        cp = plan["build"]()
    except Exception as e:  # noqa
        viol(ctx, f"{tag}:copy-raises:{type(e).__name__}", case=case, err=repr(e)[:200])
        return
    if any(cp is o for _, o in owners + plan["donors"]):
        viol(ctx, f"{tag}:returns-a-source-object", case=case)
        return
    # ---- the call leaves its sources alone (fields, classes, parent links, indices)
    ch = before.changed()
    if ch:
        viol(ctx, f"{tag}:copying-altered-the-source:{ch[1]}", case=case, which=ch[0], diff=ch[2])
    # ---- faithful
    sc = xsnap(cp)
    exp = dict(s0)
    if plan["override"]:
        exp["types"] = dict(exp["types"])
        for f, v in plan["override"].items():
            exp[f] = v
    if "list" in plan:
        first = xsnap(plan["list"][0])
        exp = {**first, "coords": np.array([m.coords for m in plan["list"]]),
               "atomic_charges": np.array([m.atomic_charges for m in plan["list"]])}
    a, b = restrict(exp, sc, plan["only"])
    if type(cp) is type(src) and not plan["override"]:
        a, b = {k: v for k, v in exp.items() if k != "cls"}, {k: v for k, v in sc.items() if k != "cls"}
    if route == "atoms-copy":
        a, b = {"atoms": s0["atoms"]}, {"atoms": sc["atoms"]}
    faithful(ctx, case, tag, a, b, src_attrib=src.attrib if route.startswith("ctor") else None)
    if base_name(cp) == "Conformer":
        # a conformer is a view: its atoms belong to the (copied) ensemble behind it
        par = [("atom.parent", i, None) for i, a in enumerate(cp.atoms)
               if a.parent is None or a.parent is keep or a.idx != i
               or a.parent.atoms[i] is not a]
    else:
        from vmon.snap import parent_report
        par = parent_report(cp)
    if par:
        viol(ctx, f"{tag}:copy-parent-or-index-wrong:{par[0][0]}", case=case, bad=par[:3])
    # ---- no shared state
    ctx.count("sharing.walked")
    ids_cp = mutable_ids(cp)
    for label, o in owners + plan["donors"]:
        shared = mutable_ids(o, ctx) & ids_cp
        if shared:
            viol(ctx, f"{tag}:shares-mutable-object:{shared_kind(o, shared)}", case=case, n=len(shared), which=label)
            break
    for label, o in owners + plan["donors"]:
        for (fa, xa) in arrays_of(o):
            for (fb, xb) in arrays_of(cp):
                if np.shares_memory(xa, xb):
                    viol(ctx, f"{tag}:shares-array-memory:{fa}", case=case, which=label)
    # ---- independent: mutate the copy, watch the source(s); then drop the copy; then the reverse on a second copy
    watch(ctx, case, tag, mutated=cp, watched=before, rng=rng, direction="copy-mutated")
    del cp
    drop_check(ctx, case, tag, before)
    rng2 = ctx.rng(spec["chunk"], j, kind)
    src2, keep2 = make_source(rng2, kind)
    lend(src2, rng2, ctx)
    try:
        plan2 = prepare(route, target, src2, keep2, ctx.rng(case, "prep"), _NoCount())
        cp2 = plan2["build"]()
    except Exception:  # noqa
        return
    candidates = [src2] + ([keep2] if keep2 is not None else []) + [o for _, o in plan2["donors"]]
    watch(ctx, case, tag, mutated=candidates[rng.randrange(len(candidates))] if rng.random() < 0.6 else src2,
          watched=Watched([("copy", cp2)], ctx), rng=rng, direction="source-mutated")


class _NoCount:
    def count(self, *a, **k):
        pass


def drop_check(ctx, case, tag, before):
    """the copy is gone: atoms / bonds of the sources still name the parents they named before the call"""
    import gc

    gc.collect(0)
    ctx.count("source.links-after-drop")
    ch = before.links_changed()
    if ch:
        viol(ctx, f"{tag}:dropping-the-copy-altered-the-source:{ch[1]}", case=case, which=ch[0])


_LENT = []


def lend(src, rng, ctx):
    """before it is copied, the source may have lent its atoms to another structure (a constructor given a list of
    atoms adopts them unless copy_atoms is set); that structure may still be alive or may have been dropped"""
    import gc
    from molli.chem import Promolecule

    r = rng.random()
    if base_name(src) in ("Conformer", "Substructure") or src.n_atoms == 0 or r < 0.6:
        return
    helper = Promolecule(list(src.atoms))
    ctx.count("source.atoms-lent-before-copy")
    if r < 0.8:
        _LENT.append(helper)
        del _LENT[:-8]
    else:
        del helper
        gc.collect(0)


def field_of(path):
    from vmon.snap import mech_field

    return mech_field(path)


def shared_kind(src, shared):
    for a in src.atoms:
        if id(a) in shared:
            return "atom-object"
        if id(a.attrib) in shared:
            return "atom.attrib-dict"
    try:
        bonds = list(getattr(src, "bonds", ()) or ())
    except AttributeError:
        bonds = []
    for b in bonds:
        if id(b) in shared:
            return "bond-object"
        if id(b.attrib) in shared:
            return "bond.attrib-dict"
    if id(src.attrib) in shared:
        return "mol.attrib-dict"
    return "nested-attrib-value"


def watch(ctx, case, tag, mutated, watched, rng, direction):
    for name, fn in mutations(mutated, rng, ctx):
        try:
            fn()
        except Exception as e:  # noqa  (a mutation that is not defined for this object is skipped)
            ctx.count("mutation.skipped")
            continue
        ctx.count(f"independent.{direction}")
        if "nested" in name:
            ctx.count("mutation.nested-attrib")
        ch = watched.changed()
        if ch:
            viol(ctx, f"{tag}:{direction}:{name}:changes-the-other-side:{ch[1]}", case=case, which=ch[0], diff=ch[2])
            return


def check_evolve(ctx, case, tag, src, route):
    from vmon.snap import atom_snap, bond_snap, diff

    if route == "evolve-atom":
        a = src.atoms[0]
        owner_links = links(src)
        c = a.evolve()

        def sn(x):
            return {**atom_snap(x), "types": atom_types(x)}
    else:
        bonds = list(src.bonds)
        if not bonds:
            return
        a = bonds[0]
        owner_links = links(src)
        c = a.evolve()
        idx = {id(x): i for i, x in enumerate(src.atoms)}

        def sn(x):
            return {**bond_snap(x, idx), "types": bond_types(x)}
    sa, sc = sn(a), sn(c)
    if c is a:
        viol(ctx, f"{tag}:returns-a-source-object", case=case)
        return
    faithful(ctx, case, tag, sa, sc)
    if links_diff(owner_links, links(src)):
        viol(ctx, f"{tag}:copying-altered-the-source:{links_diff(owner_links, links(src))}", case=case)
    if c.attrib is a.attrib:
        viol(ctx, f"{tag}:shares-mutable-object:attrib-dict", case=case)
    else:
        ids_a, ids_c = set(), set()
        walk_ids(a.attrib, ids_a)
        walk_ids(c.attrib, ids_c)
        ids_a |= {id(x) for x in src.atoms}
        if ids_a & ids_c:
            viol(ctx, f"{tag}:shares-mutable-object:nested-attrib-value", case=case)
    ctx.count("sharing.walked")
    c.attrib["evolved-only"] = 1
    nested_edit(c.attrib)
    deep_edit(c.attrib, ctx)
    ctx.count("independent.copy-mutated")
    ctx.count("mutation.nested-attrib")
    d = diff(sa, sn(a))
    if d:
        viol(ctx, f"{tag}:copy-mutated:attrib:changes-the-other-side:{field_of(d[0][0])}", case=case, diff=d[:3])
    # the reverse on a second copy
    c2 = a.evolve()
    s2 = sn(c2)
    a.attrib["source-only"] = 1
    nested_edit(a.attrib)
    deep_edit(a.attrib, ctx)
    ctx.count("independent.source-mutated")
    d = diff(s2, sn(c2))
    if d:
        viol(ctx, f"{tag}:source-mutated:attrib:changes-the-other-side:{field_of(d[0][0])}", case=case, diff=d[:3])


def check_concatenate(ctx, case, tag, src, keep, s0, kind, route, rng):
    import numpy as np
    from molli.chem import Structure, Molecule
    from vmon.snap import diff, parent_report

    other_rng = ctx.rng(case, "other")
    mol_like = kind in ("Molecule", "Conformer")
    okind = "Molecule" if mol_like else "Structure"
    call = "or" if route == "or" else "concatenate"
    cls = Molecule if mol_like else Structure
    if route == "concatenate-one":
        frags = [src]
    elif route == "concatenate-empty":
        # zero-atom structures among the fragments, on either side
        def empty():
            return (Molecule if other_rng.random() < 0.5 else Structure)()
        frags = [src] + ([make_source(other_rng, okind)[0]] if other_rng.random() < 0.4 else [])
        for _ in range(other_rng.choice([1, 1, 2])):
            frags.insert(other_rng.randrange(len(frags) + 1), empty())
        if frags[0] is not src:
            ctx.count("concatenate.empty-on-the-left")
        call = "or" if other_rng.random() < 0.5 else "concatenate"
    else:
        # fragments of the class the call is made on, or (plain concatenate) of the sibling class
        ok2 = okind if route != "concatenate" or other_rng.random() < 0.6 else ("Structure" if mol_like else "Molecule")
        other = make_source(other_rng, ok2)[0]
        # one call may take any number of fragments
        n_more = other_rng.choice([0, 0, 0, 1, 1, 2])
        more = [make_source(other_rng, okind)[0] for _ in range(n_more)]
        if route == "concatenate-self":
            other = src                      # the same object twice (a dimer: m | m), or three times
            more = [src] * (n_more % 2)
            call = "or" if other_rng.random() < 0.5 else "concatenate"
        frags = [src, other] + more
    if call == "concatenate" and route != "concatenate-self" and other_rng.random() < 0.35:
        # the class the call is made on need not be the class of any fragment
        cls = other_rng.choice([Structure if mol_like else Molecule, user_subclass(cls)])
    if call == "concatenate" and any(type(x) is not cls for x in frags):
        ctx.count("concatenate.class-differs-from-fragment")
    if len(frags) > 2:
        ctx.count("concatenate.three-or-more-fragments")
    distinct = []
    for x in frags:
        if not any(x is y for y in distinct):
            distinct.append(x)
    snaps = [s0 if x is src else xsnap(x) for x in frags]
    before = Watched([(f"fragment-{i}", x) for i, x in enumerate(distinct)]
                     + ([("source-owner", keep)] if keep is not None else []), ctx)

    def build(fr):
        if call == "or":
            res = fr[0] | fr[1]
            for x in fr[2:]:
                res = res | x
            return res
        return cls.concatenate(*fr)

    res = build(frags)
    ctx.count("concatenate.result-identity-checked")
    if any(res is x for x in frags):
        viol(ctx, f"{tag}:returns-a-source-object", case=case, fragments=len(frags))
        return
    want_cls = Structure if call == "or" else cls
    if type(res) is not want_cls:
        viol(ctx, f"{tag}:result-class-wrong", case=case, got=type(res).__name__, want=want_cls.__name__)
    ch = before.changed()
    if ch:
        viol(ctx, f"{tag}:copying-altered-the-source:{ch[1]}", case=case, which=ch[0], diff=ch[2])
    sr = xsnap(res)
    exp_atoms, exp_bonds, off = [], [], 0
    for sx in snaps:
        exp_atoms += sx["atoms"]
        exp_bonds += [{**b, "a1": b["a1"] + off, "a2": b["a2"] + off} for b in sx["bonds"]]
        off += len(sx["atoms"])
    faithful(ctx, case, tag, {"atoms": exp_atoms, "bonds": exp_bonds, "coords": np.vstack([sx["coords"] for sx in snaps])},
             {"atoms": sr["atoms"], "bonds": sr["bonds"], "coords": sr["coords"]}, fragments=len(frags))
    if "atomic_charges" in sr and all("atomic_charges" in sx for sx in snaps) and call != "or":
        q = np.concatenate([sx["atomic_charges"] for sx in snaps])
        if sr["atomic_charges"].shape != q.shape or not np.array_equal(sr["atomic_charges"], q):
            viol(ctx, f"{tag}:not-faithful:atomic_charges", case=case, got=sr["atomic_charges"][:4], want=q[:4])
    par = parent_report(res)
    if par:
        viol(ctx, f"{tag}:copy-parent-or-index-wrong:{par[0][0]}", case=case, bad=par[:3])
    ids_res = mutable_ids(res)
    shared = set().union(*(mutable_ids(x, ctx) for x in distinct)) & ids_res
    ctx.count("sharing.walked")
    if shared:
        viol(ctx, f"{tag}:shares-mutable-object:{shared_kind(src, shared)}", case=case)
    for x in distinct:
        for (fa, xa) in arrays_of(x):
            for (fb, xb) in arrays_of(res):
                if np.shares_memory(xa, xb):
                    viol(ctx, f"{tag}:shares-array-memory:{fa}", case=case)
    watch(ctx, case, tag, mutated=res, watched=before, rng=rng, direction="copy-mutated")
    del res
    drop_check(ctx, case, tag, before)
    # reverse
    res2 = build(frags)
    if any(res2 is x for x in frags):
        return
    pool = [x for x in distinct if x.n_atoms] or [src]
    watch(ctx, case, tag, mutated=pool[rng.randrange(len(pool))] if route != "concatenate" or len(pool) < 2 else pool[1],
          watched=Watched([("result", res2)], ctx), rng=rng, direction="source-mutated")


def fragment_with_ap(rng, cls, name, ctx=None):
    """3-D tree fragment with one attachment point (exactly one bond), rich atom/bond fields, non-zero charges"""
    import numpy as np
    from molli.chem import Atom, AtomType, Element
    from vmon import gen

    m = gen.tree3d(rng, rng.randrange(3, 8), cls=cls, name=name)
    anchor = rng.randrange(m.n_atoms)
    v = np.array([rng.gauss(0, 1) for _ in range(3)])
    v /= np.linalg.norm(v)
    ap = Atom(Element.Unknown, atype=AtomType.AttachmentPoint, label="AP")
    m.add_atom(ap, m.coords[anchor] + v * 1.1)
    m.connect(anchor, ap)
    for i, a in enumerate(m.atoms):
        a.attrib = {"i": i, "nested": {"l": [i]}, "tags": {i}}
        a.formal_charge = i % 3 - 1
        a.isotope = 10 + i
    for i, b in enumerate(m.bonds):
        b.attrib = {"j": i, "nested": [i, {"d": i}]}
        b.label = f"b{i}"
    if hasattr(m, "atomic_charges"):
        m.atomic_charges = np.array([0.125 * (i + 1) for i in range(m.n_atoms)])
    if rng.random() < 0.5:
        m.attrib = {"frag": name, "nested": {"x": [1]}}
    elif ctx is not None:
        ctx.count("source.default-attrib")       # the attribute mapping the constructor made is never replaced
    return m, ap


def check_join(ctx, case, tag, kind, route, rng):
    import numpy as np
    from molli.chem import Structure, Molecule, ConformerEnsemble
    from vmon.snap import diff, parent_report

    base_cls = Structure if kind == "Structure" else Molecule
    keep = []

    def conformer_of(m, ap, k=None):
        """an ensemble with the fragment's connectivity; -> (ensemble, attachment point of the ensemble)"""
        nc = rng.choice([2, 3])
        ens = ConformerEnsemble(m, n_conformers=nc)
        ens.coords = np.array([m.coords + 0.5 * i for i in range(nc)])
        ens.atomic_charges = np.array([m.atomic_charges * (i + 1) for i in range(nc)])
        keep.append(ens)
        return ens, ens.atoms[m.atoms.index(ap)]

    cls = base_cls
    if route == "join":
        A, apA = fragment_with_ap(rng, cls, "A", ctx)
        B, apB = fragment_with_ap(rng, cls, "B", ctx)
    elif route == "join-mixed":
        # the class join is called on differs from the class of a fragment
        A, apA = fragment_with_ap(rng, Molecule, "A", ctx)
        B, apB = fragment_with_ap(rng, Molecule, "B", ctx)
        variant = rng.choice(["conformer-first", "conformer-second", "structure-first", "called-on-structure",
                              "called-on-user-subclass", "user-subclass-first"]) if kind != "Conformer" else \
            rng.choice(["conformer-first", "conformer-second", "conformer-both"])
        if variant in ("conformer-first", "conformer-both"):
            ens, apA = conformer_of(A, apA)
            A = ens[rng.randrange(ens.n_conformers)]
        if variant in ("conformer-second", "conformer-both"):
            ens, apB = conformer_of(B, apB)
            B = ens[rng.randrange(ens.n_conformers)]
        if variant.startswith("conformer"):
            cls = Molecule
            ctx.count("join.conformer-fragment")
        elif variant == "structure-first":
            i = A.atoms.index(apA)
            A = Structure(A)
            apA = A.atoms[i]
            cls = Molecule
        elif variant == "called-on-structure":
            cls = Structure
        elif variant == "called-on-user-subclass":
            cls = user_subclass(base_cls)
        elif variant == "user-subclass-first":
            i = A.atoms.index(apA)
            A = user_subclass(Molecule)(A)
            apA = A.atoms[i]
            cls = base_cls
        if type(A) is not cls:
            ctx.count("join.class-differs-from-first-fragment")
    else:
        # join-self: the same structure on both sides (a symmetric dimer) / two conformers of one ensemble
        A, apA = fragment_with_ap(rng, Molecule if kind == "Conformer" else cls, "A", ctx)
        if kind == "Conformer":
            ens, apA = conformer_of(A, apA)
            i, k = rng.randrange(ens.n_conformers), rng.randrange(ens.n_conformers)
            A, B = ens[i], ens[k]
        else:
            B = A
        apB = apA
    iA, iB = A.atoms.index(apA), B.atoms.index(apB)
    distinct = [A] if B is A else [A, B]
    before = Watched([(f"fragment-{i}", x) for i, x in enumerate(distinct)] + [("source-owner", e) for e in keep], ctx)
    sA, sB = before.items[0][2], before.items[len(distinct) - 1][2]
    by_index = rng.random() < 0.5
    if by_index:
        ctx.count("join.attachment-by-index")

    def build():
        return cls.join(A, B, iA if by_index else apA, iB if by_index else apB)

    try:
        res = build()
    except Exception as e:  # noqa
        viol(ctx, f"{tag}:join-raises:{type(e).__name__}", case=case, err=repr(e)[:200],
             classes=[cls.__name__, type(A).__name__, type(B).__name__])
        return
    if any(res is x for x in distinct):
        viol(ctx, f"{tag}:returns-a-source-object", case=case)
        return
    if type(res) is not cls:
        viol(ctx, f"{tag}:result-class-wrong", case=case, got=type(res).__name__, want=cls.__name__)
    ch = before.changed()
    if ch:
        viol(ctx, f"{tag}:joining-altered-a-source:{ch[1]}", case=case, which=ch[0], diff=ch[2])
    sr = xsnap(res)
    exp_atoms = [a for i, a in enumerate(sA["atoms"]) if i != iA] + [a for i, a in enumerate(sB["atoms"]) if i != iB]
    faithful(ctx, case, tag, {"atoms": exp_atoms}, {"atoms": sr["atoms"]})

    # bonds of the fragments (not touching the attachment points) keep all their fields
    def remap(s, skip, off):
        m = {}
        k = 0
        for i in range(len(s["atoms"])):
            if i != skip:
                m[i] = k + off
                k += 1
        return m, [{**b, "a1": m[b["a1"]], "a2": m[b["a2"]]} for b in s["bonds"] if skip not in (b["a1"], b["a2"])]

    mA, bA = remap(sA, iA, 0)
    mB, bB = remap(sB, iB, len(sA["atoms"]) - 1)
    exp_b = bA + bB
    d = diff(exp_b, sr["bonds"][:len(exp_b)])
    # the new bond joins the two atoms the attachment points were bonded to
    anchor = [next(b["a2"] if b["a1"] == i else b["a1"] for b in s["bonds"] if i in (b["a1"], b["a2"]))
              for s, i in ((sA, iA), (sB, iB))]
    new_ok = len(sr["bonds"]) == len(exp_b) + 1 and \
        {sr["bonds"][-1]["a1"], sr["bonds"][-1]["a2"]} == {mA[anchor[0]], mB[anchor[1]]}
    if d or not new_ok:
        viol(ctx, f"{tag}:not-faithful:bonds", case=case, diff=d[:3], n_got=len(sr["bonds"]), n_want=len(exp_b) + 1,
             new_bond_ok=new_ok)
    if "atomic_charges" in sr and "atomic_charges" in sA and "atomic_charges" in sB:
        q = np.concatenate([np.delete(sA["atomic_charges"], iA), np.delete(sB["atomic_charges"], iB)])
        if sr["atomic_charges"].shape != q.shape or not np.array_equal(sr["atomic_charges"], q):
            viol(ctx, f"{tag}:not-faithful:atomic_charges", case=case, got=sr["atomic_charges"][:4], want=q[:4])
    par = parent_report(res)
    if par:
        viol(ctx, f"{tag}:copy-parent-or-index-wrong:{par[0][0]}", case=case, bad=par[:3])
    ids_res = mutable_ids(res)
    ctx.count("sharing.walked")
    for x in distinct:
        shared = mutable_ids(x, ctx) & ids_res
        if shared:
            viol(ctx, f"{tag}:shares-mutable-object:{shared_kind(x, shared)}", case=case)
            break
    for x in distinct:
        for (fa, xa) in arrays_of(x):
            for (fb, xb) in arrays_of(res):
                if np.shares_memory(xa, xb):
                    viol(ctx, f"{tag}:shares-array-memory:{fa}", case=case)
    watch(ctx, case, tag, mutated=res, watched=before, rng=rng, direction="copy-mutated")
    del res
    drop_check(ctx, case, tag, before)
    try:
        res2 = build()
    except Exception:  # noqa
        return
    pool = distinct + keep
    watch(ctx, case, tag, mutated=pool[rng.randrange(len(pool))], watched=Watched([("result", res2)], ctx), rng=rng,
          direction="source-mutated")
