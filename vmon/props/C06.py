"""
C06 -- copies are faithful and independent; derived molecules never alter their sources.

Monitor shape: snapshot oracle.  For every (source kind x copy route): snapshot(source) == snapshot(copy) in every
field both have (faithful, parents/indices included); then a mutation script is applied to one side and the other side's
snapshot must stay bit-identical -- in both directions; no array memory, atom, bond, dict or list object is shared.
"""
from __future__ import annotations

ID = "C06"
LEVEL = "exploration"
RULE = ("sources: Promolecule, Connectivity, CartesianGeometry, Structure, Molecule, ConformerEnsemble, Conformer built from "
        "seeded random rich molecules (>=2 atoms, >=1 bond, non-zero charges, nested attribs at molecule/atom/bond level); "
        "routes: copy constructors (same class and every accepting super/sub class), cls(atoms, copy_atoms=True), pickle, "
        "deepcopy, concatenate / '|', join, Atom.evolve, Bond.evolve; ~25 mutations applied to either side. non-trivial = "
        "every case (sources are forced rich); distinct by (source kind, route, source hash)")
ASSUMPTIONS = [
    "faithfulness is judged on the fields both classes have (e.g. Promolecule(molecule) has no coordinates)",
    "concatenate/join: molecule-level name/attrib are not judged (two sources); atoms, bonds, partial charges and (for "
    "concatenate) coordinates are compared per fragment; join geometry is C12's subject",
]
REQUIRED = {"faithful.checked": 300, "independent.copy-mutated": 300, "independent.source-mutated": 300,
            "route.pickle": 20, "route.deepcopy": 20, "route.ctor": 100, "route.concatenate": 20, "route.join": 20,
            "route.evolve": 20, "route.concatenate-self": 10, "concatenate.three-or-more-fragments": 10, "mutation.nested-attrib": 100, "sharing.walked": 300,
            "source.atoms-lent-before-copy": 50, "route.ctor-subclass": 20}
CHUNK_TIMEOUT = 900
TECHNIQUE = "runtime monitoring: deep snapshot equality + mutate-one-side/observe-the-other oracle, object-identity sharing walk"
LEVEL_TEXT = ("Held on the (source x route x mutation) matrix produced from seeded random rich objects: every copy is compared "
              "with its source field by field, then each side is mutated through ~25 edits while the other side is watched.")
LEVEL_NOTE = "Trusted: vmon/snap.py. Bit-identical comparison for independence, exact (not tolerant) for faithfulness."

KINDS = ["Promolecule", "Connectivity", "CartesianGeometry", "Structure", "Molecule", "ConformerEnsemble", "Conformer"]


def plan(tier, seed):
    n = 32 if tier == "quick" else 320
    per = 2 if tier == "quick" else 8
    return [{"chunk": i, "n": per} for i in range(n)]


# ------------------------------------------------------------------------------------------------

def rich_molecule(rng, cls):
    from vmon import gen

    m = gen.molecule(rng, n_atoms=rng.choice([2, 3, 5, 8, 12]), rich=True, special=0.0, cls=cls)
    if m.n_bonds == 0:
        m.connect(0, 1)
    m.attrib["nested"] = {"a": [1, 2, {"b": 3}], "arr": __import__("numpy").arange(3.0)}
    m.atoms[0].attrib["nested"] = {"l": [1, [2, 3]], "d": {"x": 1}}
    m.atoms[-1].attrib["flat"] = "v"
    # attribute values of other mapping / container types, and a reference to another atom of the same molecule
    import collections
    m.atoms[0].attrib["counter"] = collections.Counter("aabbbc")
    m.atoms[-1].attrib["ordered"] = collections.OrderedDict([("z", 1), ("a", [2, 3])])
    m.attrib["dd"] = collections.defaultdict(list, {"k": [1]})
    m.atoms[0].attrib["tags"] = {"x", "y"}
    m.atoms[0].attrib["partner"] = m.atoms[-1]
    m.bonds[0].attrib["nested"] = {"q": [0, {"z": 1}]}
    return m


def make_source(rng, kind):
    """-> (source object, keepalive)"""
    import numpy as np
    import molli as ml
    from molli.chem import Atom, Promolecule, Connectivity, CartesianGeometry, Structure, Molecule, ConformerEnsemble
    from vmon import gen

    if kind in ("Structure", "Molecule"):
        cls = Structure if kind == "Structure" else Molecule
        m = rich_molecule(rng, cls)
        if kind == "Molecule":
            m.atomic_charges = np.array([0.25 * (i + 1) * (-1) ** i for i in range(m.n_atoms)])
        return m, None
    base = rich_molecule(rng, Molecule)
    if kind == "Promolecule":
        p = Promolecule([a for a in base.atoms], name=base.name, charge=base.charge, mult=base.mult, copy_atoms=True)
        for a, b in zip(p.atoms, base.atoms):
            a.attrib = {"own": [1, {"k": 2}], **{k: v for k, v in b.attrib.items() if k != "nested"}}
        p.attrib = {"nested": {"a": [1, 2]}}
        return p, None
    if kind == "Connectivity":
        c = Connectivity(base.atoms, name=base.name, charge=base.charge, mult=base.mult, copy_atoms=True)
        for b in base.bonds:
            c.connect(base.atoms.index(b.a1), base.atoms.index(b.a2), label=b.label, btype=b.btype, stereo=b.stereo,
                      f_order=b.f_order, attrib={"own": {"n": [1]}})
        c.attrib = {"nested": {"a": [1, 2]}}
        c.atoms[0].attrib = {"own": [1, {"k": 2}]}
        return c, None
    if kind == "CartesianGeometry":
        g = CartesianGeometry(base.atoms, name=base.name, charge=base.charge, mult=base.mult, copy_atoms=True,
                              coords=np.array(base.coords))
        g.attrib = {"nested": {"a": [1, 2]}}
        g.atoms[0].attrib = {"own": [1, {"k": 2}]}
        return g, None
    # ensembles
    nc = rng.choice([1, 2, 4])
    base.atomic_charges = np.array([0.25 * (i + 1) for i in range(base.n_atoms)])
    ens = ConformerEnsemble(base, n_conformers=nc)
    ens.coords = np.array([[[rng.uniform(-5, 5) for _ in range(3)] for _ in range(base.n_atoms)] for _ in range(nc)])
    ens.atomic_charges = np.array([[rng.uniform(-1, 1) for _ in range(base.n_atoms)] for _ in range(nc)])
    ens.weights = np.array([0.5 + i for i in range(nc)])
    ens.attrib["nested"] = {"a": [1, 2, {"b": 3}]}
    ens.atoms[0].attrib["nested"] = {"l": [1, [2, 3]]}
    ens.bonds[0].attrib["nested"] = {"q": [0, {"z": 1}]}
    if kind == "ConformerEnsemble":
        return ens, None
    return ens[rng.randrange(nc)], ens


def routes_for(kind):
    r = []
    if kind == "Conformer":
        return [("ctor", "Molecule"), ("ctor", "Structure"), ("ctor", "CartesianGeometry"), ("ctor", "Connectivity"),
                ("ctor", "Promolecule"), ("atoms-copy", "Molecule"), ("concatenate", "Molecule"), ("ctor-subclass", "Molecule"),
                ("pickle", "Conformer"), ("deepcopy", "Conformer")]
    chain = {"Promolecule": ["Promolecule"],
             "Connectivity": ["Promolecule", "Connectivity"],
             "CartesianGeometry": ["Promolecule", "CartesianGeometry"],
             "Structure": ["Promolecule", "Connectivity", "CartesianGeometry", "Structure", "Molecule"],
             "Molecule": ["Promolecule", "Connectivity", "CartesianGeometry", "Structure", "Molecule"],
             "ConformerEnsemble": ["Promolecule", "Connectivity", "ConformerEnsemble"]}[kind]
    r += [("ctor", c) for c in chain]
    r += [("atoms-copy", kind), ("pickle", kind), ("deepcopy", kind)]
    if kind in ("Structure", "Molecule"):
        r += [("ctor-subclass", "Molecule"), ("ctor-subclass", "Structure")]
    if kind in ("Structure", "Molecule"):
        r += [("concatenate", kind), ("or", "Structure"), ("join", kind), ("concatenate-self", kind)]
    r += [("evolve-atom", "Atom")]
    if kind not in ("Promolecule", "CartesianGeometry"):
        r += [("evolve-bond", "Bond")]
    return r


# ------------------------------------------------------------------------------------------------

def mutations(obj, rng):
    """list of (name, fn) editing `obj` in place through public API"""
    import numpy as np
    from molli.chem import Atom, AtomType, AtomStereo, AtomGeom, BondType, BondStereo, Element

    muts = []
    atoms = list(obj.atoms)
    if atoms:
        a = atoms[0]
        muts += [
            ("atom.element", lambda: setattr(a, "element", Element.Xe if a.element != Element.Xe else Element.Kr)),
            ("atom.isotope", lambda: setattr(a, "isotope", (a.isotope or 0) + 7)),
            ("atom.label", lambda: setattr(a, "label", "MUTATED")),
            ("atom.atype", lambda: setattr(a, "atype", AtomType.Dummy if a.atype != AtomType.Dummy else AtomType.sp2)),
            ("atom.stereo", lambda: setattr(a, "stereo", AtomStereo.R if a.stereo != AtomStereo.R else AtomStereo.S)),
            ("atom.geom", lambda: setattr(a, "geom", AtomGeom.R6 if a.geom != AtomGeom.R6 else AtomGeom.R1)),
            ("atom.formal_charge", lambda: setattr(a, "formal_charge", a.formal_charge + 5)),
            ("atom.formal_spin", lambda: setattr(a, "formal_spin", a.formal_spin + 3)),
            ("atom.attrib[k]=v", lambda: a.attrib.__setitem__("mutkey", "mutval")),
            ("atom.nested-attrib", lambda: nested_edit(a.attrib)),
        ]
    bonds = list(getattr(obj, "bonds", ()) or ())
    if bonds:
        b = bonds[0]
        muts += [
            ("bond.label", lambda: setattr(b, "label", "MUTB")),
            ("bond.btype", lambda: setattr(b, "btype", BondType.H_Donor if b.btype != BondType.H_Donor else BondType.Single)),
            ("bond.stereo", lambda: setattr(b, "stereo", BondStereo.E if b.stereo != BondStereo.E else BondStereo.Z)),
            ("bond.f_order", lambda: setattr(b, "f_order", b.f_order + 0.75)),
            ("bond.attrib[k]=v", lambda: b.attrib.__setitem__("mutkey", 1)),
            ("bond.nested-attrib", lambda: nested_edit(b.attrib)),
        ]
    if hasattr(obj, "coords") and len(atoms):
        muts.append(("coords[i]+=1", lambda: obj.coords.__setitem__((Ellipsis, 0, slice(None)) if obj.coords.ndim == 3 else 0,
                                                                    (obj.coords[..., 0, :] if obj.coords.ndim == 3 else obj.coords[0]) + 1.0)))
    if hasattr(obj, "atomic_charges") and len(atoms):
        def mutq():
            q = obj.atomic_charges
            if q.ndim == 2:
                q[0, 0] = q[0, 0] + 3.5
            else:
                q[0] = q[0] + 3.5
        muts.append(("atomic_charges[i]=q", mutq))
    if hasattr(obj, "weights") and type(obj).__name__ == "ConformerEnsemble" and obj.n_conformers:
        muts.append(("weights[i]=w", lambda: obj.weights.__setitem__(0, obj.weights[0] + 2.0)))
    cname = type(obj).__name__
    muts += [("mol.attrib[k]=v", lambda: obj.attrib.__setitem__("molmut", [1])),
             ("mol.nested-attrib", lambda: nested_edit(obj.attrib))]
    if cname != "Conformer":
        muts += [("mol.name", lambda: setattr(obj, "name", "renamed")),
                 ("mol.charge", lambda: setattr(obj, "charge", (obj.charge or 0) + 4)),
                 ("mol.mult", lambda: setattr(obj, "mult", (obj.mult or 1) + 2))]
    if cname in ("Structure", "Molecule"):
        muts += [("add_atom", lambda: obj.add_atom(Atom("Cl", label="added"), [9.0, 9.0, 9.0])),
                 ("connect", lambda: connect_new(obj)),
                 ("del_bond", lambda: obj.del_bond(obj.bonds[0]) if obj.n_bonds else None),
                 ("scale", lambda: obj.scale(2.0)),
                 ("translate", lambda: obj.translate([1.0, 2.0, 3.0])),
                 ("add_implicit_hydrogens", lambda: safe(obj.add_implicit_hydrogens)),
                 ("del_atom", lambda: obj.del_atom(obj.n_atoms - 1) if obj.n_atoms > 1 else None)]
    elif cname == "Promolecule":
        muts += [("append_atom", lambda: obj.append_atom(Atom("Cl"))), ("del_atom", lambda: obj.del_atom(0) if obj.n_atoms > 1 else None)]
    elif cname == "Connectivity":
        muts += [("connect", lambda: connect_new(obj)), ("del_bond", lambda: obj.del_bond(obj.bonds[0]) if obj.n_bonds else None),
                 ("del_atom", lambda: obj.del_atom(0) if obj.n_atoms > 1 else None)]
    elif cname == "CartesianGeometry":
        muts += [("add_atom", lambda: obj.add_atom(Atom("Cl"), [9.0, 9.0, 9.0])), ("scale", lambda: obj.scale(2.0)),
                 ("translate", lambda: obj.translate([1.0, 2.0, 3.0])), ("del_atom", lambda: obj.del_atom(0) if obj.n_atoms > 1 else None)]
    elif cname == "ConformerEnsemble":
        muts += [("connect", lambda: connect_new(obj)), ("scale", lambda: obj.scale(2.0)),
                 ("translate", lambda: obj.translate([1.0, 2.0, 3.0]) if obj.n_conformers else None)]
    return muts


def nested_edit(d):
    """edit the first nested container found inside an attrib dict"""
    for k, v in list(d.items()):
        if isinstance(v, dict):
            for k2, v2 in list(v.items()):
                if isinstance(v2, list):
                    v2.append("deep-mutation")
                    return
                if isinstance(v2, dict):
                    v2["deep"] = "mutation"
                    return
            v["shallow-nested"] = 1
            return
        if isinstance(v, list):
            v.append("deep-mutation")
            return
    d["__no_nested__"] = 1


def connect_new(obj):
    n = obj.n_atoms
    have = {frozenset((id(b.a1), id(b.a2))) for b in obj.bonds}
    for i in range(n):
        for j in range(i + 1, n):
            if frozenset((id(obj.atoms[i]), id(obj.atoms[j]))) not in have:
                obj.connect(i, j)
                return


def safe(fn):
    try:
        fn()
    except Exception:  # noqa  (degenerate random geometry; C16's subject)
        pass


def walk_ids(x, out, depth=0):
    """identities of every mutable container reachable through attribs"""
    import numpy as np

    if isinstance(x, (dict, list, np.ndarray, bytearray)):
        out.add(id(x))
    if depth > 6:
        return
    if isinstance(x, dict):
        for v in x.values():
            walk_ids(v, out, depth + 1)
    elif isinstance(x, (list, tuple)):
        for v in x:
            walk_ids(v, out, depth + 1)


def mutable_ids(obj):
    ids = set()
    keep = []
    for a in obj.atoms:
        ids.add(id(a))
        walk_ids(a.attrib, ids)
    for b in getattr(obj, "bonds", ()) or ():
        ids.add(id(b))
        walk_ids(b.attrib, ids)
    walk_ids(obj.attrib, ids)
    return ids


def arrays_of(obj):
    out = []
    for f in ("coords", "atomic_charges", "weights"):
        try:
            v = getattr(obj, f)
        except AttributeError:
            continue
        if v is not None and hasattr(v, "shape"):
            out.append((f, v))
    return out


# ------------------------------------------------------------------------------------------------

def make_copy(route, target, src, rng, extra):
    """-> (copy, expected snapshot or None (= snapshot(src) restricted), note)"""
    import copy as _copy
    import pickle
    import molli as ml
    from molli.chem import Promolecule, Connectivity, CartesianGeometry, Structure, Molecule, ConformerEnsemble

    classes = {"Promolecule": Promolecule, "Connectivity": Connectivity, "CartesianGeometry": CartesianGeometry,
               "Structure": Structure, "Molecule": Molecule, "ConformerEnsemble": ConformerEnsemble}
    if route == "ctor":
        return classes[target](src)
    if route == "ctor-subclass":
        # a user-defined subclass of the target class is a copy route like any other
        sub = type("User" + target, (classes[target],), {})
        return sub(src)
    if route == "atoms-copy":
        return classes[target if target != "Conformer" else "Molecule"](list(src.atoms), copy_atoms=True)
    if route == "pickle":
        return pickle.loads(pickle.dumps(src))
    if route == "deepcopy":
        return _copy.deepcopy(src)
    raise ValueError(route)


def restrict(sa, sb):
    """fields both snapshots have (cls excluded)"""
    keys = (set(sa) & set(sb)) - {"cls"}
    return {k: sa[k] for k in keys}, {k: sb[k] for k in keys}


def run_chunk(spec, ctx):
    import numpy as np
    import molli as ml
    from molli.chem import Atom, AtomType, Bond, Structure, Molecule
    from vmon import gen
    from vmon.snap import snap, diff, snap_hash, parent_report

    for j in range(spec["n"]):
        for kind in KINDS:
            for route, target in routes_for(kind):
                case = (spec["chunk"], j, kind, route, target)
                if not ctx.want(case):
                    continue
                rng = ctx.rng(spec["chunk"], j, kind)     # same source for all routes of a kind
                src, keep = make_source(rng, kind)
                lend(src, rng, ctx)
                s0 = snap(src)
                ctx.count(f"route.{route.split('-')[0] if route.startswith('evolve') else route}")
                if route in ("concatenate", "or", "join"):
                    pass
                ctx.case(case, dkey=(kind, route, target, snap_hash(s0)), nontrivial=True,
                         sample={"source": kind, "route": route, "target": target, "n_atoms": src.n_atoms})
                tag = f"{kind}->{route}:{target}"
                try:
                    if route in ("concatenate", "or", "concatenate-self"):
                        check_concatenate(ctx, case, tag, src, s0, kind, route, rng)
                        continue
                    if route == "join":
                        check_join(ctx, case, tag, kind, rng)
                        continue
                    if route.startswith("evolve"):
                        check_evolve(ctx, case, tag, src, route)
                        continue
                    cp = make_copy(route, target, src, rng, None)
                except Exception as e:  # noqa
                    ctx.violation(f"{tag}:copy-raises:{type(e).__name__}", case=case, err=repr(e)[:200])
                    continue
                # ---- faithful
                ctx.count("faithful.checked")
                sc = snap(cp)
                a, b = restrict(s0, sc)
                if type(cp) is type(src):
                    a, b = {k: v for k, v in s0.items() if k != "cls"}, {k: v for k, v in sc.items() if k != "cls"}
                if route == "atoms-copy":
                    a, b = {"atoms": s0["atoms"]}, {"atoms": sc["atoms"]}
                d = diff(a, b)
                if d:
                    ctx.violation(f"{tag}:not-faithful:{field_of(d[0][0])}", case=case, diff=d[:4])
                if type(cp).__name__ == "Conformer":
                    # a conformer is a view: its atoms belong to the (copied) ensemble behind it
                    par = [("atom.parent", i, None) for i, a in enumerate(cp.atoms)
                           if a.parent is None or a.parent is getattr(src, "_parent", None) or a.idx != i
                           or a.parent.atoms[i] is not a]
                else:
                    par = parent_report(cp)
                if par:
                    ctx.violation(f"{tag}:copy-parent-or-index-wrong:{par[0][0]}", case=case, bad=par[:3])
                if snap_differs(s0, snap(src)):
                    ctx.violation(f"{tag}:copying-altered-the-source", case=case)
                # ---- no shared state
                ctx.count("sharing.walked")
                shared = mutable_ids(src) & mutable_ids(cp)
                if shared:
                    ctx.violation(f"{tag}:shares-mutable-object:{shared_kind(src, shared)}", case=case, n=len(shared))
                for (fa, xa) in arrays_of(src):
                    for (fb, xb) in arrays_of(cp):
                        if np.shares_memory(xa, xb):
                            ctx.violation(f"{tag}:shares-array-memory:{fa}", case=case)
                # ---- independent: mutate the copy, watch the source; then the reverse on a second copy
                watch(ctx, case, tag, mutated=cp, watched=src, watched_snap=s0, rng=rng, direction="copy-mutated")
                rng2 = ctx.rng(spec["chunk"], j, kind)
                src2, keep2 = make_source(rng2, kind)
                lend(src2, rng2, ctx)
                try:
                    cp2 = make_copy(route, target, src2, rng, None)
                except Exception:  # noqa
                    continue
                watch(ctx, case, tag, mutated=src2 if keep2 is None or rng.random() < 0.5 else keep2, watched=cp2,
                      watched_snap=snap(cp2), rng=rng, direction="source-mutated")


_LENT = []


def lend(src, rng, ctx):
    """before it is copied, the source may have lent its atoms to another structure (a constructor given a list of
    atoms adopts them unless copy_atoms is set); that structure may still be alive or may have been dropped"""
    import gc
    from molli.chem import Promolecule

    r = rng.random()
    if type(src).__name__ in ("Conformer",) or src.n_atoms == 0 or r < 0.6:
        return
    helper = Promolecule(list(src.atoms))
    ctx.count("source.atoms-lent-before-copy")
    if r < 0.8:
        _LENT.append(helper)
        del _LENT[:-8]
    else:
        del helper
        gc.collect()


def field_of(path):
    import re

    from vmon.snap import mech_field

    return mech_field(path)


def snap_differs(a, b):
    from vmon.snap import diff

    return bool(diff(a, b))


def shared_kind(src, shared):
    for a in src.atoms:
        if id(a) in shared:
            return "atom-object"
        if id(a.attrib) in shared:
            return "atom.attrib-dict"
    for b in getattr(src, "bonds", ()) or ():
        if id(b) in shared:
            return "bond-object"
        if id(b.attrib) in shared:
            return "bond.attrib-dict"
    if id(src.attrib) in shared:
        return "mol.attrib-dict"
    return "nested-attrib-value"


def watch(ctx, case, tag, mutated, watched, watched_snap, rng, direction):
    from vmon.snap import snap, diff

    for name, fn in mutations(mutated, rng):
        try:
            fn()
        except Exception as e:  # noqa  (a mutation that is not defined for this object is skipped)
            ctx.count("mutation.skipped")
            continue
        ctx.count(f"independent.{direction}")
        if "nested" in name:
            ctx.count("mutation.nested-attrib")
        d = diff(watched_snap, snap(watched))
        if d:
            ctx.violation(f"{tag}:{direction}:{name}:changes-the-other-side:{field_of(d[0][0])}", case=case, diff=d[:3])
            return


def check_evolve(ctx, case, tag, src, route):
    from vmon.snap import atom_snap, bond_snap, diff

    if route == "evolve-atom":
        a = src.atoms[0]
        c = a.evolve()
        sa, sc = atom_snap(a), atom_snap(c)
    else:
        bonds = list(src.bonds)
        if not bonds:
            return
        a = bonds[0]
        c = a.evolve()
        idx = {id(x): i for i, x in enumerate(src.atoms)}
        sa, sc = bond_snap(a, idx), bond_snap(c, idx)
    ctx.count("faithful.checked")
    d = diff(sa, sc)
    if d:
        ctx.violation(f"{tag}:not-faithful:{field_of(d[0][0])}", case=case, diff=d[:3])
    if c.attrib is a.attrib:
        ctx.violation(f"{tag}:shares-mutable-object:attrib-dict", case=case)
    else:
        ids_a, ids_c = set(), set()
        walk_ids(a.attrib, ids_a)
        walk_ids(c.attrib, ids_c)
        if ids_a & ids_c:
            ctx.violation(f"{tag}:shares-mutable-object:nested-attrib-value", case=case)
    ctx.count("sharing.walked")
    c.attrib["evolved-only"] = 1
    nested_edit(c.attrib)
    ctx.count("independent.copy-mutated")
    ctx.count("mutation.nested-attrib")
    now = atom_snap(a) if route == "evolve-atom" else bond_snap(a, {id(x): i for i, x in enumerate(src.atoms)})
    d = diff(sa, now)
    if d:
        ctx.violation(f"{tag}:copy-mutated:attrib:changes-the-other-side:{field_of(d[0][0])}", case=case, diff=d[:3])
    ctx.count("independent.source-mutated")


def check_concatenate(ctx, case, tag, src, s0, kind, route, rng):
    import numpy as np
    from molli.chem import Structure, Molecule
    from vmon.snap import snap, diff, parent_report

    other_rng = ctx.rng(case, "other")
    okind = "Molecule" if kind in ("Molecule", "Conformer") else "Structure"
    other, keep = make_source(other_rng, okind)
    # one call may take any number of fragments
    n_more = other_rng.choice([0, 0, 0, 1, 1, 2])
    more = [make_source(other_rng, okind)[0] for _ in range(n_more)]
    if route == "concatenate-self":
        other = src                      # the same object twice (a dimer: m | m), or three times
        more = [src] * (n_more % 2)
        route = "or" if other_rng.random() < 0.5 else "concatenate"
    frags = [src, other] + more
    if len(frags) > 2:
        ctx.count("concatenate.three-or-more-fragments")
    snaps = [s0] + [snap(x) for x in frags[1:]]
    so = snaps[1]
    if route == "or":
        res = src | other
        for x in more:
            res = res | x
    elif kind in ("Molecule", "Conformer"):
        res = Molecule.concatenate(*frags)
    else:
        res = Structure.concatenate(*frags)
    sr = snap(res)
    ctx.count("faithful.checked")
    exp_atoms, exp_bonds, off = [], [], 0
    for sx in snaps:
        exp_atoms += sx["atoms"]
        exp_bonds += [{**b, "a1": b["a1"] + off, "a2": b["a2"] + off} for b in sx["bonds"]]
        off += len(sx["atoms"])
    d = diff({"atoms": exp_atoms, "bonds": exp_bonds, "coords": np.vstack([sx["coords"] for sx in snaps])},
             {"atoms": sr["atoms"], "bonds": sr["bonds"], "coords": sr["coords"]})
    if d:
        ctx.violation(f"{tag}:not-faithful:{field_of(d[0][0])}", case=case, diff=d[:3], fragments=len(frags))
    if "atomic_charges" in sr and all("atomic_charges" in sx for sx in snaps) and route != "or":
        q = np.concatenate([sx["atomic_charges"] for sx in snaps])
        if sr["atomic_charges"].shape != q.shape or not np.array_equal(sr["atomic_charges"], q):
            ctx.violation(f"{tag}:not-faithful:atomic_charges", case=case, got=sr["atomic_charges"][:4], want=q[:4])
    par = parent_report(res)
    if par:
        ctx.violation(f"{tag}:copy-parent-or-index-wrong:{par[0][0]}", case=case, bad=par[:3])
    shared = set().union(*(mutable_ids(x) for x in frags)) & mutable_ids(res)
    ctx.count("sharing.walked")
    if shared:
        ctx.violation(f"{tag}:shares-mutable-object:{shared_kind(src, shared)}", case=case)
    watch(ctx, case, tag, mutated=res, watched=src, watched_snap=s0, rng=rng, direction="copy-mutated")
    for x, sx in zip(frags[1:], snaps[1:]):
        if x is not src and snap_differs(sx, snap(x)):
            ctx.violation(f"{tag}:copy-mutated:changes-the-second-source", case=case)
    # reverse
    res2 = Molecule.concatenate(src, other) if (kind in ("Molecule", "Conformer") and route != "or") else Structure.concatenate(src, other)
    watch(ctx, case, tag, mutated=other, watched=res2, watched_snap=snap(res2), rng=rng, direction="source-mutated")


def fragment_with_ap(rng, cls, name):
    """3-D tree fragment with one attachment point (exactly one bond), rich atom/bond fields, non-zero charges"""
    import numpy as np
    from molli.chem import Atom, AtomType, Element
    from vmon import gen

    m = gen.tree3d(rng, rng.randrange(3, 8), cls=cls, name=name)
    anchor = rng.randrange(m.n_atoms)
    v = np.array([rng.gauss(0, 1) for _ in range(3)])
    v /= np.linalg.norm(v)
    ap = Atom(Element.Unknown, atype=AtomType.AttachmentPoint, label="AP")
    m.add_atom(ap, m.coords[anchor] + v * 1.1)
    m.connect(anchor, ap)
    for i, a in enumerate(m.atoms):
        a.attrib = {"i": i, "nested": {"l": [i]}}
        a.formal_charge = i % 3 - 1
        a.isotope = 10 + i
    for i, b in enumerate(m.bonds):
        b.attrib = {"j": i, "nested": [i, {"d": i}]}
        b.label = f"b{i}"
    if hasattr(m, "atomic_charges"):
        m.atomic_charges = np.array([0.125 * (i + 1) for i in range(m.n_atoms)])
    m.attrib = {"frag": name, "nested": {"x": [1]}}
    return m, ap


def check_join(ctx, case, tag, kind, rng):
    import numpy as np
    from molli.chem import Structure, Molecule
    from vmon.snap import snap, diff, parent_report

    cls = Molecule if kind == "Molecule" else Structure
    A, apA = fragment_with_ap(rng, cls, "A")
    B, apB = fragment_with_ap(rng, cls, "B")
    sA, sB = snap(A), snap(B)
    iA, iB = A.atoms.index(apA), B.atoms.index(apB)
    res = cls.join(A, B, apA, apB)
    sr = snap(res)
    ctx.count("faithful.checked")
    exp_atoms = [a for i, a in enumerate(sA["atoms"]) if i != iA] + [a for i, a in enumerate(sB["atoms"]) if i != iB]
    d = diff({"atoms": exp_atoms}, {"atoms": sr["atoms"]})
    if d:
        ctx.violation(f"{tag}:not-faithful:{field_of(d[0][0])}", case=case, diff=d[:3])
    # bonds of the fragments (not touching the attachment points) keep all their fields
    def remap(s, skip, off):
        m = {}
        k = 0
        for i in range(len(s["atoms"])):
            if i != skip:
                m[i] = k + off
                k += 1
        return [{**b, "a1": m[b["a1"]], "a2": m[b["a2"]]} for b in s["bonds"] if skip not in (b["a1"], b["a2"])]
    exp_b = remap(sA, iA, 0) + remap(sB, iB, len(sA["atoms"]) - 1)
    d = diff(exp_b, sr["bonds"][:len(exp_b)])
    if d or len(sr["bonds"]) != len(exp_b) + 1:
        ctx.violation(f"{tag}:not-faithful:bonds", case=case, diff=d[:3], n_got=len(sr["bonds"]), n_want=len(exp_b) + 1)
    if "atomic_charges" in sr and "atomic_charges" in sA:
        q = np.concatenate([np.delete(sA["atomic_charges"], iA), np.delete(sB["atomic_charges"], iB)])
        if sr["atomic_charges"].shape != q.shape or not np.array_equal(sr["atomic_charges"], q):
            ctx.violation(f"{tag}:not-faithful:atomic_charges", case=case, got=sr["atomic_charges"][:4], want=q[:4])
    par = parent_report(res)
    if par:
        ctx.violation(f"{tag}:copy-parent-or-index-wrong:{par[0][0]}", case=case, bad=par[:3])
    if snap_differs(sA, snap(A)) or snap_differs(sB, snap(B)):
        ctx.violation(f"{tag}:joining-altered-a-source", case=case)
    shared = (mutable_ids(A) | mutable_ids(B)) & mutable_ids(res)
    ctx.count("sharing.walked")
    if shared:
        ctx.violation(f"{tag}:shares-mutable-object:{shared_kind(A, shared) if mutable_ids(A) & shared else shared_kind(B, shared)}",
                      case=case)
    for (fa, xa) in arrays_of(A) + arrays_of(B):
        for (fb, xb) in arrays_of(res):
            if np.shares_memory(xa, xb):
                ctx.violation(f"{tag}:shares-array-memory:{fa}", case=case)
    watch(ctx, case, tag, mutated=res, watched=A, watched_snap=sA, rng=rng, direction="copy-mutated")
    if snap_differs(sB, snap(B)):
        ctx.violation(f"{tag}:copy-mutated:changes-the-second-source", case=case)
    res2 = cls.join(A, B, apA, apB)
    watch(ctx, case, tag, mutated=B, watched=res2, watched_snap=snap(res2), rng=rng, direction="source-mutated")
