"""
C17 -- a job runs exactly what was asked and reports exactly what happened.

Two monitors.

(1) driver binding, in-process.  Test driver classes are declared exactly like molli's XTBDriver
    (`@Job(return_files=...).prep` + `.post`, `Job.vectorize` + `.reduce`); fresh classes per history, so that
    every history starts from pristine class-level `Job` objects.  Bounded-exhaustive enumeration of the histories
    "create / use 2..3 driver instances with distinct executable, nprocs and envars" (every interleaving of
    creations and uses up to a bound, optionally preceded by a class-level access).  Every JobInput obtained
    through driver_i must carry driver_i's executable, nprocs and environment and the caller's arguments.
    The expected settings are the ones HANDED to the driver (private copies), never read back from the live driver
    after a job attribute was touched; using a driver must leave the driver (and the dict given to it) unchanged.
    Every history is run in variants: prepare at once / HOLD the bound jobs and the un-consumed generators of vectorised
    jobs until the rest of the history happened; settings of an existing instance MODIFIED between two of its uses
    (nprocs, executable, envars replaced / changed in place / set to None); instances made by copy.copy() of a used
    instance; a driver subclass that declares class-level defaults; instances that differ in every field, in exactly
    one of executable / nprocs / envars, in none, or that were given one shared envars dict.
    The real XTBDriver (every job of the class, scan_dihedral included, every keyword with a non-default value, the
    geometry and the input files looked at) is driven through the same histories (module reloaded per history), and so
    are, in one small chunk each, CrestDriver, ORCADriver and NWChemDriver (vmon/models/c17_kits.py).

(2) execution through real `_molli_run` subprocesses, invoked the way molli.pipeline.job._run_local does
    (`<bindir>/_molli_run <input> -o <outdir> -s <scratch>` with a cwd of the caller).  The commands of a job are
    `sh -c '. <log>/s<i>.sh' c17 <argv...>`: each scripted command appends its index to an order log that lives
    OUTSIDE the scratch tree and records cwd, directory listing, selected environment, argv and the bytes of the
    input files it finds, prints known stdout/stderr, creates (or not) files, exits with a chosen status / kills
    itself.  An independent model of "what was asked" gives the expected order log, captures, returned files,
    exit status; everything is compared after the process ended.  Pairs of jobs with the same jid and the same
    scratch directory are run concurrently with a rendez-vous inside their first command: the two working
    directories must differ.
    Further dimensions of a case: the commands name their program WITHOUT a directory and the job's envars put another
    directory first on PATH (the variant that ran is logged); the output directory is two levels below what exists;
    something is already where the report goes (report of another input, of a failed attempt, a truncated file); the last
    command that runs prints several MB on stdout and stderr; a requested name in a non-normalised spelling ("./x").
"""
from __future__ import annotations

import os
import shlex
import subprocess
import sys
from itertools import permutations  # noqa: F401  (kept for replay tooling)
from pathlib import Path

ID = "C17"
LEVEL = "fault_enumeration"
RULE = ("binding: every interleaving of creating and using 2..3 driver instances (settings that differ in every field / in "
        "exactly one of executable, nprocs, envars / in none / one shared envars dict; uses <= 3 quick / 4 thorough; with "
        "and without a class-level access first; plain, env-carrying, vectorised (also of the env-carrying job) and mixed "
        "jobs; test drivers declared like XTBDriver plus the real XTBDriver job by job with every keyword set, and "
        "Crest/ORCA/NWChem drivers) x (prepare at once | bound jobs and generators held until the history is over) x "
        "(nothing | a setting of an instance modified between two of its uses | instances made by copy.copy | class-level "
        "defaults on a driver subclass), non-trivial = at least two "
        "different instances are used, distinct by (driver kind, job, history, variant). execution: command lists of length "
        "1..4 x first-failure position (none, 1..n; exit codes, signals, missing executable) x named/unnamed masks x "
        "subsets of requested files missing x return_files in {None, (), names} x text/binary(all 256 byte values) "
        "input files x environment overrides (PATH included: bare program names found on the runner's PATH, the job's "
        "PATH or both) x absolute/relative paths x output directory present / absent two levels deep / holding an older "
        "report under the same name x multi-MB captures x non-normalised requested names, each run by a real _molli_run "
        "process; "
        "non-trivial = >= 2 commands and (a failure or a missing requested file or a binary input), distinct by the "
        "structural description of the case; plus concurrent same-jid pairs")
ASSUMPTIONS = [
    "the scripted commands (dash) log faithfully: order log by O_APPEND writes, one file per recorded field",
    "a command whose executable cannot be spawned is only required to make the run fail without running later commands "
    "and without residue (whether a JobOutput must then be written is not decided by the statement)",
    "stdout/stderr payloads are valid UTF-8 without carriage returns; command names and file names are file-system safe, "
    "distinct, and do not collide with the runner's capture files <name>.out/.err",
    "driver-level and job-level envars use disjoint keys (precedence between them is not judged); a Job-level "
    "executable/nprocs override (Job(nprocs=...)) is not exercised; a driver setting changed while a bound job taken "
    "before the change is still held is not judged (held jobs are prepared before the change)",
    "a returned file is accepted under the name it was requested by or under the normalised spelling of that name",
    "an explicit setting given to a driver instance must win over a class-level default of a driver subclass (the "
    "statement speaks of the driver INSTANCE's executable / processor count)",
    "JobOutput.exitcode is only required to be non-zero when a command failed",
    "concurrency of a pair is established logically (both commands observed each other's marker files), never by time",
]
EXHAUSTIVE = False
CHUNK_TIMEOUT = 900
TECHNIQUE = ("runtime monitoring: recorded command history + offline checker against a model of the requested job "
             "(real _molli_run processes, failure position enumeration); bounded-exhaustive driver-binding histories")
LEVEL_TEXT = ("Held on the executions produced: every first-failure position of command lists of length 1..4 is run through "
              "real _molli_run processes with scripted commands that log what they saw outside the scratch tree, and the "
              "JobOutput/exit status/scratch/cwd are compared with an independent model; all create/use interleavings of "
              "2..3 driver instances up to the bound are enumerated for the descriptor binding. Not a proof.")
LEVEL_NOTE = ("Trusted: dash, coreutils (cat, ls, pwd, sleep), msgpack for reading the JobOutput through JobOutput.load, "
              "the model in this module. Command-not-found is judged leniently (see assumptions).")

RUN_TIMEOUT = 90  # seconds per _molli_run process; expiry is inconclusive, not a verdict

COMBOS = [(n, f) for n in (1, 2, 3, 4) for f in [-1] + list(range(n))]  # 14 (length, first failing index | -1)


def REQUIRED(tier):
    q = tier == "quick"
    req = {
        "bind.prepare": 3000 if q else 20000,
        "bind.history": 800 if q else 5000,
        "bind.churn-rounds": 150,
        "bind.class-access-first": 100,
        "bind.vectorised": 200,
        "bind.xtb.prepare": 3000,                               # (14265)
        # -- added after the gap review (observed on the quick tier in brackets)
        "bind.mode.held": 5000,                                 # (21456) bound jobs / generators held over the history
        "bind.held.across-another-drivers-use": 3000,           # (14412)
        "bind.held.generator": 5000,                            # (23264)
        "bind.modify": 3000,                                    # (10860) a setting changed between two uses of an instance
        "bind.copy-created.of-a-used-driver": 2000,             # (7152)
        "bind.mod.clsdef": 3000,                                # (10728) class-level defaults on a driver subclass
        "bind.vectorised.job-level-envars": 5000,               # (22380)
        "bind.check.driver-unchanged": 20000,                   # (> 100000)
        "bind.xtb.arg.charge": 1500, "bind.xtb.arg.mult": 1500, "bind.xtb.arg.crit": 800,          # (9002, 8063, 4352)
        "bind.xtb.arg.accuracy": 1000, "bind.xtb.arg.maxiter": 1500, "bind.xtb.arg.misc": 1000,    # (6400, 8448, 5568)
        "bind.xtb.arg.xtbinp": 500, "bind.xtb.arg.charge-zero-on-charged-molecule": 400,           # (2807, 2133)
        "bind.xtb.arg.n_steps": 500, "bind.xtb.arg.dihedral_atoms": 500,                           # (2304, 2304)
        "bind.crest.prepare": 300, "bind.orca.prepare": 300, "bind.nwchem.prepare": 300,           # (896 each)
        "exec.path.both": 20, "exec.path.job-only": 15, "exec.path.caller-only": 20,               # (50, 42, 58)
        "exec.out.nested-absent": 20,                                                              # (48)
        "exec.out.preexisting.other-input": 15, "exec.out.preexisting.failed-attempt": 15,         # (39, 39)
        "exec.out.preexisting.garbage": 15,                                                        # (40)
        "exec.capture.large": 8,                                                                   # (21)
        "exec.rf.nonnormalised": 15,                                                               # (39)
        "exec.run": 200 if q else 2500,
        "exec.order": 150 if q else 2000,
        "exec.capture.named-command": 100,
        "exec.files.returned": 50,
        "exec.files.missing-subset": 40,
        "exec.rf.none": 20,
        "exec.rf.empty": 20,
        "exec.rf.names": 100,
        "exec.input.binary-256": 40,
        "exec.input.text": 40,
        "exec.env.override": 40,
        "exec.exit.zero-expected": 20,
        "exec.exit.nonzero-expected": 100,
        "exec.fail.signal": 10,
        "exec.fail.enoent": 5,
        "exec.hash": 100,
        "exec.residue": 200 if q else 2500,
        "exec.relative-paths": 10,
        "pair.overlapped": 6 if q else 30,
        "hash.distinct-inputs": 100,
        "hash.sensitivity": 300,
    }
    for n, f in COMBOS:
        req[f"exec.n{n}.fail{'-none' if f < 0 else f + 1}"] = 8 if q else 100
    for f in MODFIELDS:
        req[f"bind.modify.{f}"] = 500                           # (~2000 each)
    for sim in SIMS:
        req[f"bind.sim.{sim}"] = 2000                           # (~7150 each)
    for jn in XTB_JOBS[:-1]:
        req[f"bind.xtb.job.{jn}"] = 500                         # (~2000 each)
    return req


# =====================================================================================================================
# known on the unchanged tree
# =====================================================================================================================
# Violation keys (without the "C17:" prefix) that the UNCHANGED library produces; each is written up with a tested fix in
# /verif/tools/findings/C17-ext.json.  They are counted ("known.<key>") instead of reported.  REMOVE AFTER THE REPAIR
# (set VERIF_C17_REPORT_KNOWN=1 to have them reported, e.g. against a repaired worktree).
KNOWN_ON_UNCHANGED_TREE = set()      # (its five entries were repaired in the library: 34ee662, bb88d56, 339ab9c, 300f767)


def report(ctx, key, **detail):
    if key in KNOWN_ON_UNCHANGED_TREE and not os.environ.get("VERIF_C17_REPORT_KNOWN"):
        ctx.count("known." + key)
        return
    ctx.violation(key, **detail)


# =====================================================================================================================
# plan
# =====================================================================================================================
BIND_SEQ = ["calc", "calc_v", "envjob", "plain", "envjob_v"]
BIND_JOBS = ["calc", "plain", "envjob", "calc_v", "envjob_v", "mixed"]
XTB_JOBS = ["optimize_m", "energy_m", "atom_properties_m", "optimize_ens", "scan_dihedral", "mixed"]
SHIPPED = ["crest", "orca", "nwchem"]            # drivers outside the anchored files: one small chunk each
MODES = ["now", "held"]                          # prepare at once | hold the bound job / the generator of a vectorised job
MODS = ["none", "modify", "copy", "clsdef"]      # see run_history
SIMS = ["distinct", "only-envars", "only-nprocs", "only-exe", "equal", "shared-dict"]
VARIANTS = [(m, d) for m in MODES for d in MODS]
MODFIELDS = ["nprocs", "envars-replace", "executable", "envars-inplace", "envars-none"]
CLS_EXE = "c17-class-level-exe"
CLS_NPROCS = 7


def plan(tier, seed):
    q = tier == "quick"
    per = 18 if q else 216
    cases = [[n, f, v] for v in range(per) for (n, f) in COMBOS]
    nx = 16 if q else 64
    ex = [{"part": "exec", "chunk": i, "cases": cases[i::nx]} for i in range(nx)]
    npair = 2 if q else 8
    pairs = [{"part": "pair", "chunk": i, "pairs": list(range(i * 6, i * 6 + 6)) if q else list(range(i * 8, i * 8 + 8))}
             for i in range(npair)]
    bind = []
    maxuse = 3 if q else 4
    salt = 0
    for k in (2, 3):
        for job in BIND_JOBS:
            for cls in (False, True):
                shards = (1 if k == 2 else 2) if q else (2 if k == 2 else 12)
                salt += 1
                for s in range(shards):
                    bind.append({"part": "bind", "k": k, "job": job, "cls": cls, "maxuse": maxuse + (1 if k == 2 else 0),
                                 "shard": s, "nshards": shards, "salt": salt})
    xtb = [{"part": "bindxtb", "kit": "xtb", "k": 2, "job": job, "cls": cls, "maxuse": 3 if q else 4, "salt": j}
           for j, job in enumerate(XTB_JOBS) for cls in (False, True)]
    ship = [{"part": "bindxtb", "kit": kit, "k": 2, "job": "mixed", "cls": None, "maxuse": 3, "salt": j}
            for j, kit in enumerate(SHIPPED)]
    # long chunks first; one chunk of every kind among the first few so that the evidence samples show each kind
    hashes = [{"part": "hash", "chunk": i, "n": 40 if q else 200} for i in range(1 if q else 4)]
    churn = [{"part": "bindchurn", "job": job, "rounds": 60 if q else 300} for job in ("calc", "calc_v", "mixed")]
    specs = [ex[0], bind[0], pairs[0]] + ex[1:] + pairs[1:] + xtb + ship + bind[1:] + churn + hashes
    only = os.environ.get("C17_PARTS")  # debugging aid: run a subset of the chunks (the run is then INCONCLUSIVE at best)
    if only:
        specs = [s for s in specs if s["part"] in only.split(",")]
    return specs


def run_chunk(spec, ctx):
    import molli.pipeline.runner as _r

    repo = os.environ.get("VERIF_REPO", "/repo")
    here = os.path.realpath(_r.__file__)
    if not here.startswith(os.path.realpath(repo) + os.sep):
        ctx.inconclusive.append(f"molli imported from {here}, expected under {repo}")
        return
    # text files are written and captures are read by the runner in the locale encoding of ITS environment, which is
    # the one of this process; the payloads are UTF-8 unless that locale cannot represent them
    import locale
    global ENCODING, ASCII_ONLY
    ENCODING = locale.getencoding()
    ASCII_ONLY = ENCODING.lower().replace("-", "") != "utf8"
    ctx.note("locale_encoding", ENCODING)
    part = spec["part"]
    if part == "exec":
        run_exec_chunk(spec, ctx)
    elif part == "pair":
        run_pair_chunk(spec, ctx)
    elif part == "bind":
        run_bind_chunk(spec, ctx)
    elif part == "bindxtb":
        run_bindxtb_chunk(spec, ctx)
    elif part == "bindchurn":
        run_bindchurn_chunk(spec, ctx)
    elif part == "hash":
        run_hash_chunk(spec, ctx)
    else:
        raise ValueError(part)


# =====================================================================================================================
# part 1: driver binding
# =====================================================================================================================
def histories(k, maxuse):
    """every sequence of events ('n', i) = create instance i, ('u', i) = use instance i, in which every instance is
    created exactly once before its first use, all k instances get created, and which ends with a use."""
    out = []

    def rec(seq, created, uses):
        if uses >= 1 and len(created) == k and seq[-1][0] == "u":
            out.append(tuple(seq))
        if uses < maxuse:
            for i in sorted(created):
                rec(seq + [("u", i)], created, uses + 1)
        for i in range(k):
            if i not in created:
                rec(seq + [("n", i)], created | {i}, uses)

    rec([], frozenset(), 0)
    return out


def hist_str(h):
    return " ".join(f"{e}{'ABC'[i]}" for e, i in h)


def make_test_driver():
    """a fresh driver class (fresh class-level Job objects), declared the way molli.pipeline.xtb.XTBDriver is"""
    from molli.pipeline.driver import DriverBase
    from molli.pipeline.job import Job, JobInput, JobOutput  # noqa: F401

    class C17Driver(DriverBase):
        default_executable = "c17-default-exe"

        @Job(return_files=("out.dat", "aux.bin")).prep
        def calc(self, x, flag=None, *, level="lo", misc=None):
            """calc job"""
            return JobInput(
                str(x),
                commands=[(f"{self.executable} {x}.in --flag {flag} --level {level} -P {self.nprocs} {misc or ''}", "calc")],
                files={f"{x}.in": f"input of {x}".encode()},
                return_files=self.return_files,
                envars=self.envars,
            )

        @calc.post
        def calc(self, out, x, *args, **kwargs):
            return (x, out.files)

        calc_v = Job.vectorize(calc)

        @calc_v.reduce
        def calc_v(self, outputs, xs, *args, **kwargs):
            """vectorised calc job"""
            return list(outputs)

        @Job().prep
        def plain(self, x, flag=None, *, level="lo", misc=None):
            return JobInput(
                str(x),
                commands=[(f"{self.executable} {x}.in --flag {flag} --level {level} -P {self.nprocs} {misc or ''}", "plain"),
                          (f"{self.executable} --second {x} -P {self.nprocs}", None)],
                files={f"{x}.in": f"input of {x}"},
                return_files=self.return_files,
                envars=self.envars,
            )

        @plain.post
        def plain_result(self, out, x, *args, **kwargs):
            return out.stdouts

        @Job(return_files=(), envars={"C17_JOBLEVEL": "job-level"}).prep
        def envjob(self, x, flag=None, *, level="lo", misc=None):
            return JobInput(
                str(x),
                commands=[(f"{self.executable} {x}.in --flag {flag} --level {level} -P {self.nprocs} {misc or ''}", None)],
                files={f"{x}.in": f"input of {x}".encode()},
                return_files=self.return_files,
                envars=self.envars,
            )

        @envjob.post
        def envjob(self, out, x, *args, **kwargs):
            return out.exitcode

        # the vectorised twin of a job that declares an environment variable of its own
        envjob_v = Job.vectorize(envjob)

        @envjob_v.reduce
        def envjob_v(self, outputs, xs, *args, **kwargs):
            return list(outputs)

    decl = {"calc": ("out.dat", "aux.bin"), "calc_v": ("out.dat", "aux.bin"), "plain": None, "envjob": (), "envjob_v": ()}
    jl = {"C17_JOBLEVEL": "job-level"}
    joblevel = {"calc": {}, "calc_v": {}, "plain": {}, "envjob": jl, "envjob_v": jl}
    return C17Driver, decl, joblevel


PROCS = [1, 2, 3, 4, 6, 8, 12, 16, 24, 48]
PROCS_MOD = [5, 10, 20, 32, 64, 96, 128, 192]     # values given to an existing instance later (disjoint from PROCS, CLS_NPROCS)


def driver_settings(rng, k, bindir, sim="distinct"):
    """k settings (executable, nprocs, memory, envars).  sim: in which fields the instances differ --
    distinct: in every field; only-envars / only-nprocs / only-exe: in exactly that field; equal: in none (separate but
    equal dicts); shared-dict: executable and nprocs differ, ONE dict object is handed to every constructor"""
    procs = rng.sample(PROCS, k)
    mems = rng.sample([500, 2000, 4000, 8000, 16000], k)
    names = rng.sample(["exeA", "exeB", "exeC", "xtb-6.4", "orca_5", "prog.sh"], k)
    envs = [{"C17_DRV": f"drv{i}", f"C17_ONLY_{'ABC'[i]}": f"v{i} with space"} for i in range(k)]
    if sim in ("distinct", "only-envars"):
        if sim == "only-envars":     # same variables, other values (plus, sometimes, one more variable)
            envs = [{"OMP_STACKSIZE": ["1G", "8G", "2G"][i], "C17_SCRATCH": f"/scr/{'abc'[i]}"} for i in range(k)]
            if rng.random() < 0.5:
                envs[rng.randrange(k)]["C17_EXTRA"] = "1"
        if k == 3:
            envs[rng.randrange(3)] = None  # one driver without envars
        elif rng.random() < 0.3:
            envs[rng.randrange(2)] = None
    else:
        base = rng.choice([{"C17_DRV": "same", "OMP_STACKSIZE": "4G"}, {"C17_DRV": "same"}])
        envs = [base if sim == "shared-dict" else dict(base) for _ in range(k)]
    if sim in ("only-envars", "only-nprocs", "equal"):
        names = [names[0]] * k
    if sim in ("only-envars", "only-exe", "equal"):
        procs = [procs[0]] * k
    if sim != "distinct":
        mems = [mems[0]] * k
    out = []
    for i in range(k):
        p = bindir / names[i]
        if not p.exists():
            p.write_text("#!/bin/sh\nexit 0\n")
            p.chmod(0o755)
        out.append({"exe": str(p), "bare": names[i], "nprocs": procs[i], "memory": mems[i], "envars": envs[i]})
    return out


def _after(tok, flag, off=1):
    if flag in tok and tok.index(flag) + off < len(tok):
        return tok[tok.index(flag) + off]
    return None


def check_input(ctx, inp, exp, want, others, prevs, clsvals, hist, pos, where, case, drop_key=None):
    """inp: a JobInput prepared through a driver instance whose settings, as the USER configured them, are exp =
    {executable, nprocs, envars} (a private copy, never read back from the live driver after a job attribute was touched).
    want: what the caller's arguments must leave in the input.  others: settings of the other instances (and their
    earlier values) + what a class-level access binds.  prevs: earlier settings of this very instance (before it was
    modified).  clsvals: class-level defaults declared on the driver class, if any."""
    import re as _re
    import shlex as _sh

    ctx.count("bind.prepare")
    exe, nprocs = exp["executable"], exp["nprocs"]
    denv = dict(exp["envars"] or {})
    cmds = list(inp.commands)
    witness = {"history": hist, "use": pos, "job": where, "driver": {"executable": exe, "nprocs": nprocs, "envars": denv},
               "commands": [c[0] for c in cmds][:3], "input_envars": inp.envars}
    joblevel = want["joblevel"]

    def V(key, **d):
        report(ctx, key, case=case, **d, **witness)

    def classify(field, observed):
        """name the mechanism by where the wrong value comes from"""
        if field != "envars":
            if clsvals and observed == clsvals.get(field):
                return f"binding:{field}-class-level-default-beats-the-instance"
            if any(p[field] == observed for p in prevs):
                return f"binding:{field}-stale-after-the-driver-was-modified"
            if any(o[field] == observed and observed != exp[field] for o in others):
                return "job-descriptor-binds-first-driver"     # the value of ANOTHER driver (or of a class-level access)
            return f"binding:{field}-not-the-drivers"
        obs = observed or {}
        if any(obs == {**(p["envars"] or {}), **joblevel} and obs != {**denv, **joblevel} for p in prevs):
            return "binding:envars-stale-after-the-driver-was-modified"
        for o in others:    # an entry of another driver's environment shows up although this driver does not have it
            if any(obs.get(a) == b and denv.get(a) != b for a, b in (o["envars"] or {}).items()):
                return "job-descriptor-binds-first-driver"
        return "binding:envars-not-the-drivers"

    loc = want.get("loc", "P")
    toks = [_sh.split(cmd) for cmd, _ in cmds]
    for ci, tok in enumerate(toks):
        if loc in ("P", "T"):
            obs_exe, obs_np = (tok[0] if tok else None), _after(tok, "-" + loc)
        elif loc == "orca":
            txt = (inp.files or {}).get("m_orca.inp", b"")
            txt = txt.decode() if isinstance(txt, bytes) else txt
            m = _re.search(r"%pal\s+nprocs\s+(\S+)", txt)
            obs_exe, obs_np = (tok[0] if tok else None), (m.group(1) if m else None)
        else:   # nwchem: mpirun -np N <exe> esp.inp
            obs_exe, obs_np = _after(tok, "-np", 2), _after(tok, "-np")
        ctx.count("bind.check.executable")
        if obs_exe != str(exe):
            V(classify("executable", obs_exe), field="executable", expected=str(exe), observed=obs_exe)
        ctx.count("bind.check.nprocs")
        if obs_np != str(nprocs):
            try:
                obs_i = int(obs_np)
            except Exception:
                obs_i = obs_np
            V(classify("nprocs", obs_i), field="nprocs", expected=nprocs, observed=obs_np)
    tok = toks[0] if toks else []
    ctx.count("bind.check.arguments")
    for t in want["tokens"]:
        if t not in tok:
            V("binding:caller-argument-missing", field="arguments", expected=t, observed=tok)
            break
    for flag, expected, kind, alt in want.get("pairs", ()):
        ctx.count("bind.check.argument-value")
        obs = _after(tok, flag)
        if kind == "float":
            try:
                ok = obs is not None and abs(float(obs) - expected) <= 1e-9
            except ValueError:
                ok = False
        else:
            ok = obs == expected
        if not ok:
            if alt and alt[0] == "zero-charge" and obs == alt[1]:
                V("binding:caller-argument-ignored:charge-zero-replaced-by-the-molecules-charge", field=flag,
                  expected=expected, observed=obs)
            else:
                V(f"binding:caller-argument-wrong-in-command:{flag.lstrip('-')}", field=flag, expected=expected, observed=obs)
    files = dict(inp.files or {})

    def text_of(fn):
        b = files.get(fn)
        return b.decode(errors="replace") if isinstance(b, bytes) else b

    if "param" in want:      # a text handed over by the caller that the command refers to by file name
        ctx.count("bind.check.argument-file")
        fn, content = want["param"]
        if _after(tok, "--input") != fn:
            V("binding:caller-argument-missing", field="arguments", expected=["--input", fn], observed=tok)
        elif text_of(fn) != content:
            V("binding:caller-argument-ignored:xtbinp-content-not-materialised", file=fn, expected=content,
              observed=text_of(fn), input_files=sorted(files))
    for fn, rules in want.get("filetext", ()):
        ctx.count("bind.check.argument-in-file")
        txt = text_of(fn)
        if txt is None:
            V("binding:input-files-not-from-arguments", expected=fn, observed=sorted(files))
            continue
        for label, rx in rules:
            if not _re.search(rx, txt, _re.M):
                V(f"binding:caller-argument-missing-in-input-file:{label}", file=fn, pattern=rx, text=txt[:400])
    if "xyz" in want:        # the geometry handed over by the caller, whatever the number format
        import molli as ml

        ctx.count("bind.check.geometry")
        fn, sym, coords = want["xyz"]
        txt = text_of(fn)
        if txt is None:
            V("binding:input-files-not-from-arguments", expected=fn, observed=sorted(files))
        else:
            try:
                g = ml.Molecule.loads_xyz(txt)
                gs = [a.element.symbol for a in g.atoms]
                dev = max((abs(float(a) - b) for r1, r2 in zip(g.coords, coords) for a, b in zip(r1, r2)), default=0.0)
                bad = gs != sym or len(g.coords) != len(coords) or dev > 1e-3
            except Exception as e:  # noqa
                bad, gs, dev = True, repr(e)[:100], None
            if bad:
                V("binding:input-geometry-not-the-callers", file=fn, expected_elements=sym, observed_elements=gs,
                  max_deviation=dev)
    for fn in want.get("need_files", ()):
        if fn not in files:
            V("binding:input-files-not-from-arguments", expected=fn, observed=sorted(files))
    ctx.count("bind.check.envars")
    expect_env = dict(denv)
    expect_env.update(joblevel)
    got_env = dict(inp.envars or {})
    if got_env != expect_env:
        if drop_key and not got_env and expect_env:
            key = drop_key
        else:
            key = classify("envars", got_env)
        V(key, field="envars", expected=expect_env, observed=got_env)
    if "return_files" in want:
        ctx.count("bind.check.return_files")
        rf, erf = inp.return_files, want["return_files"]
        if (rf is None) != (erf is None) or (rf is not None and list(rf) != list(erf)):
            V("binding:return-files-not-as-declared", expected=erf, observed=rf)
    if "need_return" in want:
        ctx.count("bind.check.return_files")
        if not set(want["need_return"]) <= set(inp.return_files or ()):
            V("binding:return-files-lack-what-the-job-reads-back", expected=want["need_return"], observed=inp.return_files)
    if "files" in want:
        ctx.count("bind.check.files")
        if files != want["files"]:
            V("binding:input-files-not-from-arguments", expected=sorted(want["files"]), observed=sorted(files))


class TestKit:
    """the test driver classes declared like XTBDriver"""
    name = "test"
    drop_key = None
    jobs = BIND_SEQ

    def fresh(self, clsdef):
        Drv, self.decl, self.joblevel = make_test_driver()
        if not clsdef:
            return Drv, {}
        # a driver subclass that declares class-level defaults; its instances are still constructed with explicit settings
        sub = type("C17SubDriver", (Drv,), {"executable": CLS_EXE, "nprocs": CLS_NPROCS})
        return sub, {"executable": CLS_EXE, "nprocs": CLS_NPROCS}

    def construct(self, Drv, s, found):
        if found:
            return Drv(s["exe"], nprocs=s["nprocs"], memory=s["memory"], envars=s["envars"])
        return Drv(s["bare"], nprocs=s["nprocs"], memory=s["memory"], envars=s["envars"], check_exe=False, find=False)

    def take(self, ctx, drv, jn, pos, i, rng):
        x, flag, level = f"mol{pos}", f"f{pos}{'ABC'[i]}", rng.choice(["lo", "hi", "x-y"])
        misc = rng.choice([None, "--extra", "--k v"])
        want = {"loc": "P", "tokens": [f"{x}.in", "--flag", flag, "--level", level] + (misc.split() if misc else []),
                "joblevel": self.joblevel[jn], "return_files": self.decl[jn]}
        job = getattr(drv, jn)                  # the attribute access is the binding event
        if jn.endswith("_v"):
            ctx.count("bind.vectorised")
            if jn == "envjob_v":
                ctx.count("bind.vectorised.job-level-envars")
            xs = [f"{x}a", f"{x}b", f"{x}c"][: 2 + pos % 2]
            gen = job.prepare(xs, flag, level=level, misc=misc)      # lazily evaluated
            wants = [dict(want, tokens=[f"{xi}.in"] + want["tokens"][1:], files={f"{xi}.in": f"input of {xi}".encode()})
                     for xi in xs]
            return (lambda: list(gen)), wants
        body = f"input of {x}"
        want["files"] = {f"{x}.in": body if jn == "plain" else body.encode()}
        return (lambda: [job.prepare(x, flag, level=level, misc=misc)]), [want]


def run_history(ctx, kit, h, hstr, case, rng, sets, found, jobsel, cls_first, mode, mod):
    """one create/use history through one pristine driver class.

    mode  now:    every use is `getattr(driver, job)` immediately followed by prepare (and consumption of the generator)
          held:   a use only TAKES the bound job (for a vectorised job: the un-consumed generator of prepare); what was
                  taken is prepared / consumed after the rest of the history (other drivers created, their job attributes
                  touched) -- what `ja = a.job; jb = b.job; jobmap(ja, ...)` does
    mod   none
          modify: whenever an instance is used again, one of its public settings (nprocs, executable, envars replaced /
                  changed in place / set to None) was changed since its previous use
          copy:   every instance after the first is a copy.copy() of a live (preferably used) instance whose settings
                  are then assigned
          clsdef: the driver class is a subclass declaring class-level defaults `executable` / `nprocs`
    """
    import copy

    from molli.pipeline.job import JobInput

    Drv, clsvals = kit.fresh(mod == "clsdef")
    seq = kit.jobs
    if cls_first:
        ctx.count("bind.class-access-first")
        for jn in (seq if jobsel == "mixed" else [jobsel]):
            getattr(Drv, jn)  # what help(), inspect.getmembers(), jobmap(Driver.job, ...) do
    inst, exp, prevs, given, given0 = {}, {}, {}, {}, {}
    used, lastused, nuse = set(), [], {}
    pending = []
    modn = [rng.randrange(len(MODFIELDS))]

    def others_for(i):
        out = []
        for j in inst:
            if j != i:
                out.append(exp[j])
                out.extend(prevs[j])
        out.append({"executable": None, "nprocs": 1, "envars": None})  # what a class-level access binds
        return out

    def fire(entry):
        i, pos, jn, thunk, wants, e = entry
        where = (kit.name + "." if kit.name != "test" else "") + jn
        try:
            got = thunk()
            if len(got) != len(wants):
                ctx.violation("binding:vectorised-input-count-differs", case=case, expected=len(wants), observed=len(got))
            for inp, w in zip(got, wants):
                if not isinstance(inp, JobInput):
                    ctx.violation("binding:prepare-does-not-return-jobinput", case=case, observed=repr(inp)[:100])
                    continue
                check_input(ctx, inp, e, w, others_for(i), prevs[i], clsvals, hstr, pos, where, case, drop_key=kit.drop_key)
        except Exception as ex:  # noqa
            ctx.violation(f"binding:prepare-raises:{type(ex).__name__}", case=case, history=hstr, use=pos, job=where,
                          mode=mode, mod=mod, err=repr(ex)[:300])
        # using a driver must not change the driver (nor the dict the user handed to its constructor)
        ctx.count("bind.check.driver-unchanged")
        drv, cur = inst[i], exp[i]
        for field, live in (("executable", drv.executable), ("nprocs", drv.nprocs), ("envars", drv.envars)):
            same = (live or None) == (cur[field] or None) if field == "envars" else live == cur[field]
            if not same:
                ctx.violation(f"binding:use-changes-the-drivers-{field}", case=case, history=hstr, use=pos, job=where,
                              configured=cur[field], now=live)
        if given.get(i) is not None and given[i] != given0[i]:
            ctx.violation("binding:use-changes-the-dict-given-to-the-constructor", case=case, history=hstr, use=pos,
                          job=where, given=given0[i], now=given[i])

    def flush():
        todo = list(pending)
        del pending[:]
        if todo and rng.random() < 0.5:
            todo.reverse()
        for entry in todo:
            fire(entry)

    def resync_shared(d):
        for j in inst:
            if inst[j].envars is d:
                exp[j]["envars"] = copy.deepcopy(d)
                if given.get(j) is d:
                    given0[j] = copy.deepcopy(d)

    def modify(i):
        drv = inst[i]
        f = MODFIELDS[modn[0] % len(MODFIELDS)]
        if f == "envars-inplace" and not isinstance(drv.envars, dict):
            f = "envars-replace"
        n = modn[0]
        modn[0] += 1
        ctx.count("bind.modify")
        ctx.count(f"bind.modify.{f}")
        if f == "envars-inplace":
            d = drv.envars
            for j in inst:
                if inst[j].envars is d:
                    prevs[j].append(copy.deepcopy(exp[j]))
            d["C17_INPLACE"] = f"p{n}"
            resync_shared(d)
            return
        prevs[i].append(copy.deepcopy(exp[i]))
        if f == "nprocs":
            taken = {e["nprocs"] for e in exp.values()} | {p["nprocs"] for ps in prevs.values() for p in ps}
            new = next(p for p in PROCS_MOD if p not in taken)
            drv.nprocs = new
            exp[i]["nprocs"] = new
        elif f == "executable":
            drv.executable = f"exeM{n}"
            exp[i]["executable"] = f"exeM{n}"
        elif f == "envars-replace":
            new = dict(drv.envars or {})
            if new:
                new.pop(sorted(new)[0])
            new["C17_MOD"] = f"m{n}"
            drv.envars = new
            exp[i]["envars"] = copy.deepcopy(new)
            given[i], given0[i] = new, copy.deepcopy(new)
        else:
            drv.envars = None
            exp[i]["envars"] = None
            given[i] = None

    for pos, (ev, i) in enumerate(h):
        s = sets[i]
        if ev == "n":
            if mod == "copy" and inst:
                src = lastused[-1] if lastused else max(inst)
                ctx.count("bind.copy-created")
                if src in used:
                    ctx.count("bind.copy-created.of-a-used-driver")
                drv = copy.copy(inst[src])
                drv.executable = s["exe"] if found else s["bare"]
                drv.nprocs, drv.memory, drv.envars = s["nprocs"], s["memory"], s["envars"]
            else:
                drv = kit.construct(Drv, s, found)
            inst[i] = drv
            # the instance's settings as the user configured them: a private copy taken before any job attribute of this
            # instance is touched
            exp[i] = {"executable": drv.executable, "nprocs": s["nprocs"], "envars": copy.deepcopy(s["envars"])}
            prevs[i] = []
            given[i], given0[i] = s["envars"], copy.deepcopy(s["envars"])
            continue
        if mod == "modify" and nuse.get(i):
            flush()
            modify(i)
        used.add(i)
        lastused.append(i)
        nuse[i] = nuse.get(i, 0) + 1
        jn = seq[(pos + i) % len(seq)] if jobsel == "mixed" else jobsel
        try:
            thunk, wants = kit.take(ctx, inst[i], jn, pos, i, rng)
        except Exception as ex:  # noqa
            ctx.violation(f"binding:prepare-raises:{type(ex).__name__}", case=case, history=hstr, use=pos, job=jn,
                          mode=mode, mod=mod, err=repr(ex)[:300])
            continue
        entry = (i, pos, jn, thunk, wants, copy.deepcopy(exp[i]))
        if mode == "now":
            fire(entry)
        else:
            ctx.count("bind.held")
            if len(wants) > 1 or jn.endswith(("_v", "_ens")):
                ctx.count("bind.held.generator")
            pending.append(entry)
    if pending:
        if len({e[0] for e in pending}) >= 2:
            ctx.count("bind.held.across-another-drivers-use")
        flush()
    return used


def variants_of(hi, salt, half=False):
    """(mode, mod, sim) triples run for history number hi: all 8 (mode, mod) variants (half: 4 of them, alternating with
    the history), the similarity class of the settings rotating with the history and the variant"""
    return [(m, d, SIMS[(hi + vi + salt) % len(SIMS)]) for vi, (m, d) in enumerate(VARIANTS)
            if not half or (hi + salt + vi + vi // 4) % 2 == 0]


def run_bind_like(ctx, kit, spec, part, hs, cls_of):
    bindir = ctx.tmp / "bin"
    bindir.mkdir(exist_ok=True)
    k, jobsel = spec["k"], spec["job"]
    for hi, h in hs:
        hstr = hist_str(h)
        cls_first = cls_of(hi)
        for mode, mod, sim in variants_of(hi, spec.get("salt", 0), half=(k >= 3 and ctx.tier == "quick")):
            case = [part, kit.name, k, jobsel, int(cls_first), hstr, mode, mod, sim]
            if not ctx.want(case):
                continue
            rng = ctx.rng(*case)
            sets = driver_settings(rng, k, bindir, sim)
            found = rng.random() < 0.5  # existing absolute executables (default checks) or unchecked bare names
            used = run_history(ctx, kit, h, hstr, case, rng, sets, found, jobsel, cls_first, mode, mod)
            ctx.count("bind.history")
            ctx.count(f"bind.mode.{mode}")
            ctx.count(f"bind.mod.{mod}")
            ctx.count(f"bind.sim.{sim}")
            ctx.case(case, dkey=tuple(case), nontrivial=len(used) >= 2,
                     sample={"kind": "binding", "driver": kit.name, "drivers": k, "job": jobsel,
                             "class_access_first": cls_first, "history": hstr, "mode": mode, "mod": mod, "settings_differ": sim,
                             "settings": [{a: s[a] for a in ("bare", "nprocs", "envars")} for s in sets]})


def run_bind_chunk(spec, ctx):
    hs = list(enumerate(histories(spec["k"], spec["maxuse"])))[spec["shard"]::spec["nshards"]]
    run_bind_like(ctx, TestKit(), spec, "bind", hs, lambda hi: spec["cls"])


def run_bindxtb_chunk(spec, ctx):
    """the same histories through molli's own driver classes (module reloaded per history => pristine Job objects):
    XTBDriver (anchored) job by job, CrestDriver / ORCADriver / NWChemDriver (outside the anchored files) mixed"""
    from vmon.models.c17_kits import KITS

    kit = KITS[spec["kit"]]()
    Drv, _ = kit.fresh(False)
    found = kit.discovered_jobs(Drv)
    ctx.note(f"jobs.{kit.name}.without-oracle", sorted(set(found) - set(kit.jobs)))
    if set(kit.jobs) - set(found):
        ctx.inconclusive.append(f"{kit.clsname} lacks the jobs {sorted(set(kit.jobs) - set(found))} this check drives")
        return
    hs = list(enumerate(histories(spec["k"], spec["maxuse"])))
    before = ctx.counters.get("bind.prepare", 0)
    cls = spec["cls"]
    run_bind_like(ctx, kit, spec, "bindxtb", hs, (lambda hi: hi % 2 == 1) if cls is None else (lambda hi: cls))
    ctx.count(f"bind.{kit.name}.prepare", ctx.counters.get("bind.prepare", 0) - before)


def run_bindchurn_chunk(spec, ctx):
    """drivers that are created, used and DISCARDED one after another (e.g. one driver per loop iteration): a later
    driver must not inherit anything from an earlier, dead one"""
    import copy
    import gc

    jobsel = spec["job"]
    bindir = ctx.tmp / "bin"
    bindir.mkdir(exist_ok=True)
    kit = TestKit()
    Drv, clsvals = kit.fresh(False)
    seq = kit.jobs
    rng = ctx.rng("bindchurn", jobsel)
    sets = driver_settings(rng, 3, bindir)
    case = ["bindchurn", jobsel]
    if not ctx.want(case):
        return
    dead = []
    for it in range(spec["rounds"]):
        i = (it * 2 + it // 3) % 3
        s_ = sets[i]
        drv = kit.construct(Drv, s_, False)
        e = {"executable": drv.executable, "nprocs": s_["nprocs"], "envars": copy.deepcopy(s_["envars"])}
        jn = seq[it % len(seq)] if jobsel == "mixed" else jobsel
        others = list(dead[-3:]) + [{"executable": None, "nprocs": 1, "envars": None}]
        thunk = None
        try:
            thunk, wants = kit.take(ctx, drv, jn, it, i, rng)
            for inp, w in zip(thunk(), wants):
                check_input(ctx, inp, e, w, others, [], clsvals, f"churn{it}", it, jn, case)
        except Exception as ex:  # noqa
            ctx.violation(f"binding:prepare-raises:{type(ex).__name__}", case=case, history=f"churn{it}", job=jn,
                          err=repr(ex)[:300])
        ctx.count("bind.churn-rounds")
        dead.append(e)
        del drv, thunk
        if it % 2:
            gc.collect()
    ctx.case(case, dkey=("bindchurn", jobsel), nontrivial=True,
             sample={"kind": "binding-churn", "job": jobsel, "rounds": spec["rounds"]})


def run_hash_chunk(spec, ctx):
    """the hash reported with a result must identify the request: equal requests hash equally (also after dump/load),
    a request that differs in any one field hashes differently"""
    import copy

    from molli.pipeline.job import JobInput

    for j in range(spec["n"]):
        case = ["hash", spec["chunk"], j]
        if not ctx.want(case):
            continue
        rng = ctx.rng("hash", spec["chunk"], j)
        c = build_case(rng.randrange(1, 5), -1, rng.randrange(1000), rng)
        base = dict(jid=c["jid"], commands=[(f"prog{i} --x {rng.randrange(99)}", x["name"]) for i, x in enumerate(c["cmds"])],
                    files=dict(c["infiles"]) or {"in.dat": b"\x00\x01"}, return_files=tuple(c["req"] or ("r.out",)),
                    envars=dict(c["envars"] or {"A": "1"}), timeout=c["timeout"])
        h0 = JobInput(**copy.deepcopy(base)).hash
        ctx.count("hash.equal-inputs")
        if JobInput(**copy.deepcopy(base)).hash != h0:
            ctx.violation("hash:equal-inputs-hash-differently", case=case)
        fn = ctx.tmp / "h.inp"
        JobInput(**copy.deepcopy(base)).dump(fn)
        if JobInput.load(fn).hash != h0:
            ctx.violation("exec:input-hash-changes-under-dump-load", case=case)
        variants = {}
        v = copy.deepcopy(base); v["jid"] += "x"; variants["jid"] = v
        v = copy.deepcopy(base); v["commands"][-1] = (v["commands"][-1][0] + " --more", v["commands"][-1][1]); variants["command-text"] = v
        v = copy.deepcopy(base); v["commands"][0] = (v["commands"][0][0], "other" if v["commands"][0][1] is None else None)
        variants["command-name"] = v
        if len(base["commands"]) > 1:
            v = copy.deepcopy(base); v["commands"].reverse(); variants["command-order"] = v
        k0 = sorted(base["files"])[0]
        v = copy.deepcopy(base); d = v["files"][k0]
        v["files"][k0] = d + ("!" if isinstance(d, str) else b"!"); variants["file-content"] = v
        v = copy.deepcopy(base); v["files"]["renamed-" + k0] = v["files"].pop(k0); variants["file-name"] = v
        v = copy.deepcopy(base); v["return_files"] = v["return_files"] + ("one-more",); variants["return_files"] = v
        k1 = sorted(base["envars"])[0]
        v = copy.deepcopy(base); v["envars"][k1] += "2"; variants["envars-value"] = v
        v = copy.deepcopy(base); v["envars"]["C17_ADDED"] = "1"; variants["envars-key"] = v
        for field, var in variants.items():
            ctx.count("hash.sensitivity")
            if JobInput(**var).hash == h0:
                ctx.violation(f"hash:insensitive-to:{field}", case=case, base={k: repr(x)[:80] for k, x in base.items()})
        ctx.case(case, dkey=("hash", repr(h0)), nontrivial=True,
                 sample={"kind": "hash-sensitivity", "fields": sorted(variants), "commands": len(base["commands"])})


# =====================================================================================================================
# part 2: execution
# =====================================================================================================================
ENV_LOGGED = ["C17_NEW", "C17_OVR", "C17_KEEP", "C17_WEIRD", "C17_NEVER", "C17_TOOLDIR"]
TOOL = "c17tool"     # a program the commands name WITHOUT a directory: which one runs is decided by PATH
TOOL_FROM = {"both": "job", "job-only": "job", "caller-only": "caller"}
TEXTS = ["", "plain line\n", "no trailing newline", "two\nlines\n", "héllo wörld ✓ 𝛼\n", "\ttabs\tand  spaces \n\n\n",
         " | TOTAL ENERGY      -5.070544 Eh |\n", "$HOME `id` $(id) ; * ? [a-z] \\n \\ '\"\n"]
NAMES = ["xtb", "step2", "orca_main", "crest-1", "näme 2", "C", "post.proc", "x"]
INFILES = ["input.xyz", "param.inp", "data 1.txt", "ünï.dat", "mol.xyz", ".hidden"]
RETFILES = ["xtbopt.xyz", "result.bin", "sub/deep.out", "esp.grid", "crest conformers.xyz", "wbo"]
JIDS = ["mol1", "a.b", "x_y-z", "ü1", "unnamed"]
INPNAMES = ["job", "key.3", "mol_17.0", "ü"]
ARGS = [[], ["a b"], ["$HOME", "*", "~"], ["--opt", "tight", "x=1"], ["'single'", '"double"', "back\\slash"],
        ["ünï", "", "tab\there"], ["-c", "--", "-"]]


def _blob(rng, kind):
    if kind == "all256":
        r = rng.randrange(256)
        b = bytes(range(256))
        return b[r:] + b[:r] + bytes(rng.randrange(256) for _ in range(rng.randrange(0, 40)))
    if kind == "empty":
        return b""
    if kind == "big":
        return bytes(rng.randrange(256) for _ in range(1024)) * rng.choice([70, 200])
    return bytes(rng.randrange(256) for _ in range(rng.randrange(1, 300)))


ENCODING = "utf-8"   # set by run_chunk from the locale the runner will see
ASCII_ONLY = False


def _ascii(t):
    return t.encode("ascii", "replace").decode() if ASCII_ONLY else t


def _text(rng, big=False):
    t = _ascii("".join(rng.choice(TEXTS) for _ in range(rng.randrange(0, 4))))
    if big:
        t += "line of a long output 0123456789 é\n" * rng.choice([3000, 9000])
    return t


def _huge(kind, nlines):
    """the log of a long calculation: several MB, every line different"""
    return _ascii("".join(f"{kind} {j:07d}  SCF ITERATION   -1234.567890123456   0.000012 é\n" for j in range(nlines)))


def build_case(n, f, v, rng, tag="", rendezvous=None):
    """the requested job + the model of what must happen.  n commands, f = index of the first failing command (-1: none),
    v = variant number (drives the structural dimensions deterministically; rng supplies contents)."""
    ci = COMBOS.index((n, f)) if (n, f) in COMBOS else 0
    rf_kind = ["names", "names", "empty", "none", "names", "names"][(v + ci) % 6]
    mask = (v * 5 + ci * 3 + (v // 16)) % (1 << n)          # bit i set => command i is named
    if v % 9 == 0:
        mask = (1 << n) - 1
    file_kind = ["both", "binary", "text", "none"][(v + ci // 2) % 4]
    env_kind = ["override", "none", "new-only", "empty", "override"][(v // 2 + ci) % 5]
    rel = (v + ci) % 9 == 4
    fail_mode = None
    if f >= 0:
        fail_mode = [("exit", 1), ("exit", 2), ("sig", 9), ("exit", 77), ("exit", 255), ("enoent",), ("sig", 15),
                     ("exit", 127), ("exit", 1)][(v + ci) % 9]
    # the commands name a program without a directory; where it is found: on the PATH of the runner's environment only,
    # on both that and (first) the PATH the job's envars ask for, or only on the job's PATH
    path_kind = [None, "both", None, "job-only", None, "caller-only"][(v + 2 * ci) % 6]
    # the last command that runs prints several MB on stdout AND stderr (and is named)
    huge = v % 18 == 7
    huge_cmd = (n - 1) if f < 0 else (f - 1 if fail_mode == ("enoent",) else f)
    if huge and huge_cmd >= 0:
        mask |= 1 << huge_cmd
    # what is already there where the report will be written: the report of another input under the same name, of an
    # earlier failed attempt of this input, or a truncated file
    stale_out = [None, "other-input", None, "garbage", None, "failed-attempt", None][(v // 2 + ci) % 7]

    # ---- input files
    infiles = {}
    if file_kind in ("both", "binary"):
        infiles[tag + rng.choice(INFILES[:4])] = _blob(rng, "all256")
        if rng.random() < 0.4:
            infiles[tag + "extra.bin"] = _blob(rng, rng.choice(["empty", "rand", "big" if v % 11 == 0 else "rand"]))
    if file_kind in ("both", "text"):
        infiles[tag + rng.choice(INFILES[4:])] = _ascii(rng.choice(["", "3\ncomment\nO 0 0 0\r\nH 0 0 1\n", "ünï ✓\n",
                                                                    "a\n\nb"])) + _text(rng)
    # ---- requested files
    if rf_kind == "names":
        nreq = 1 + (v // 3 + ci) % 3
        req = [tag + r for r in rng.sample(RETFILES, nreq)]
        if infiles and rng.random() < 0.25:
            req[rng.randrange(nreq)] = rng.choice(sorted(infiles))  # an input file asked back
        sub = (v // 2 + ci) % (1 << nreq)   # bit j set => requested file j is never created
        if v % 7 == 3:
            sub = 0
    elif rf_kind == "empty":
        req, sub = [], 0
    else:
        req, sub = None, 0
    # a requested name that is a relative path in a non-normalised spelling ("./r.txt", "sub//deep.out")
    nonnorm = None
    if not tag and rf_kind == "names" and (v // 3 + ci) % 4 == 1:
        cand = [j for j, r in enumerate(req) if r not in infiles]
        if cand:
            j = rng.choice(cand)
            r = req[j]
            req[j] = nonnorm = r.replace("/", rng.choice(["//", "/./"])) if "/" in r else "./" + r
    # ---- commands
    names = rng.sample(NAMES, n)
    cmds = []
    for i in range(n):
        c = {"idx": i, "name": (tag + names[i]) if mask >> i & 1 else None,
             "stdout": _text(rng, big=(v % 13 == 5 and i == 0)), "stderr": _text(rng),
             "creates": [], "argv": list(rng.choice(ARGS)), "fail": fail_mode if i == f else None}
        if huge and i == huge_cmd:
            c["stdout"] += _huge("OUT", 52000)
            c["stderr"] += _huge("ERR", 31000)
        cmds.append(c)
    never = set()
    for j, r in enumerate(req or []):
        if r in infiles:
            continue
        if sub >> j & 1:
            never.add(r)
            continue
        who = rng.randrange(n)
        cmds[who]["creates"].append((r, _blob(rng, rng.choice(["all256", "rand", "empty", "rand"]))))
        if rng.random() < 0.2 and who + 1 < n:     # a later command overwrites it: the final content is what counts
            cmds[rng.randrange(who + 1, n)]["creates"].append((r, _blob(rng, "rand")))
    if rng.random() < 0.5:                         # a file nobody asked for
        cmds[rng.randrange(n)]["creates"].append((tag + "not-requested.tmp", _blob(rng, "rand")))
    # ---- environment
    base_env = {"C17_KEEP": "kept from the caller", "C17_OVR": "value of the caller"}
    if env_kind == "none":
        envars = None
    elif env_kind == "empty":
        envars = {}
    elif env_kind == "new-only":
        envars = {"C17_NEW": rng.choice(["1", "new value", "a=b=c"])}
    else:
        envars = {"C17_NEW": rng.choice(["1", "x y", ""]), "C17_OVR": rng.choice(["overridden", "ö v 2", "4"]),
                  "C17_WEIRD": "quote' dq\" $X ; \\ ü"}
    case = {
        "n": n, "f": f, "v": v, "rf_kind": rf_kind, "mask": mask, "file_kind": file_kind, "env_kind": env_kind,
        "rel": rel, "fail_mode": fail_mode, "infiles": infiles, "req": req, "never": sorted(never), "cmds": cmds,
        "envars": envars, "base_env": base_env, "jid": rng.choice(JIDS), "inpname": rng.choice(INPNAMES),
        "timeout": rng.choice([None, None, 3600.0]), "make_scratch": v % 3 != 0, "make_out": v % 4 != 1,
        "foreign": v % 5 == 2, "rendezvous": rendezvous,
        "path_kind": path_kind, "huge": huge_cmd if huge and huge_cmd >= 0 else None, "stale_out": stale_out,
        "nonnorm": nonnorm,
    }
    # ---- the model
    ran, failed = [], None
    exists = {k: val for k, val in infiles.items()}
    for c in cmds:
        if c["fail"] == ("enoent",):
            failed = c["idx"]
            break
        ran.append(c["idx"])
        for fn, data in c["creates"]:
            exists[fn] = data
        if c["fail"] is not None:
            failed = c["idx"]
            break
    case["model"] = {
        "ran": ran, "failed": failed,
        "files": {r: exists[r] for r in (req or []) if r in exists},
        "ok": failed is None and all(r in exists for r in (req or [])),
    }
    return case


def structural_key(c):
    return ("exec", c["n"], c["f"], c["fail_mode"], c["mask"], c["rf_kind"], len(c["req"] or []), tuple(c["never"]),
            tuple(sorted(c["model"]["files"])), c["file_kind"], c["env_kind"], c["rel"], c["make_scratch"], c["foreign"],
            c["path_kind"], c["huge"], c["stale_out"], c["nonnorm"] is not None)


def is_nontrivial(c):
    missing = c["req"] is not None and len(c["model"]["files"]) < len(c["req"])
    return c["n"] >= 2 and (c["f"] >= 0 or missing or c["file_kind"] in ("both", "binary"))


def describe(c):
    return {"kind": "execution", "commands": c["n"], "first_failure": None if c["f"] < 0 else c["f"] + 1,
            "fail_mode": c["fail_mode"], "named": [x["name"] for x in c["cmds"]],
            "return_files": c["req"], "never_created": c["never"], "input_files": {k: len(b) for k, b in c["infiles"].items()},
            "envars": c["envars"], "relative_paths": c["rel"], "expect_exit_zero": c["model"]["ok"],
            "expect_ran": [i + 1 for i in c["model"]["ran"]], "program_found_on": c["path_kind"],
            "large_capture_command": None if c["huge"] is None else c["huge"] + 1, "already_in_output_dir": c["stale_out"],
            "output_dir_exists": c["make_out"] or bool(c["stale_out"])}


def write_scripts(c, logdir):
    """s<i>.sh (sourced by `sh -c`), payload files; returns the JobInput command strings"""
    q = shlex.quote
    L = q(str(logdir))
    out = []
    for cmd in c["cmds"]:
        i = cmd["idx"]
        if cmd["fail"] == ("enoent",):
            out.append(shlex.join([f"c17-no-such-executable-{i}", "input"] + cmd["argv"]))
            continue
        (logdir / f"p{i}.out").write_bytes(cmd["stdout"].encode())
        (logdir / f"p{i}.err").write_bytes(cmd["stderr"].encode())
        ln = [f"L={L}", f"i={i}", 'echo "$i" >> "$L/order"', 'pwd -P > "$L/c$i.cwd"', 'ls -A1 > "$L/c$i.ls"',
              'printf %s "$0" > "$L/c$i.argv0"', 'echo "$#" > "$L/c$i.argc"',
              'k=0; for a in "$@"; do printf %s "$a" > "$L/c$i.argv.$k"; k=$((k+1)); done']
        for e in ENV_LOGGED:
            ln.append(f'printf %s "${{{e}-__C17_UNSET__}}" > "$L/c$i.env.{e}"')
        for j, fn in enumerate(sorted(c["infiles"])):
            ln.append(f'if [ -f {q(fn)} ]; then cat {q(fn)} > "$L/c$i.in.{j}"; fi')
        if c["rendezvous"] and i == 0:
            P = q(str(c["rendezvous"]))
            ln += [f"P={P}", ': > "$L/here"',
                   'k=0; while [ ! -e "$P/here" ] && [ $k -lt 300 ]; do sleep 0.05; k=$((k+1)); done',
                   'if [ -e "$P/here" ]; then : > "$L/met"; fi', 'ls -A1 > "$L/ls.met"', ': > "$L/lsdone"',
                   'k=0; while [ ! -e "$P/lsdone" ] && [ $k -lt 300 ]; do sleep 0.05; k=$((k+1)); done',
                   'if [ -e "$P/lsdone" ]; then : > "$L/met2"; fi']
        ln.append('cat "$L/p$i.out"')
        ln.append('cat "$L/p$i.err" >&2')
        for j, (fn, data) in enumerate(cmd["creates"]):
            (logdir / f"mk{i}.{j}").write_bytes(data)
            if "/" in fn:
                ln.append(f"mkdir -p {q(os.path.dirname(fn))}")
            ln.append(f'cat "$L/mk{i}.{j}" > {q(fn)}')
        ln.append(': > "$L/c$i.done"')
        fm = cmd["fail"]
        if fm is None:
            ln.append("exit 0")
        elif fm[0] == "exit":
            ln.append(f"exit {fm[1]}")
        else:
            ln.append(f"kill -{fm[1]} $$; sleep 5; exit 0")
        (logdir / f"s{i}.sh").write_text("\n".join(ln) + "\n")
        out.append(shlex.join([TOOL if c["path_kind"] else "sh", "-c", f". {q(str(logdir / f's{i}.sh'))}", "c17"]
                              + cmd["argv"]))
    return out


def molli_run_path():
    # the way molli.pipeline.job computes MOLLI_RUN
    return Path(sys.executable).with_name("_molli_run")


def listing(d):
    out = {}
    d = Path(d)
    if not d.exists():
        return None
    for root, dirs, files in os.walk(d):
        for x in dirs:
            out[os.path.relpath(os.path.join(root, x), d) + "/"] = None
        for x in files:
            p = os.path.join(root, x)
            out[os.path.relpath(p, d)] = os.path.getsize(p)
    return out


def prepare_case(c, root):
    """directories, scripts, the JobInput file; returns the launch description"""
    from molli.pipeline.job import JobInput

    root = Path(root)
    logdir, work = root / "log", root / "caller cwd"
    for d in (logdir, work, root / "in"):
        d.mkdir(parents=True)
    (work / "sentinel.txt").write_bytes(b"caller's file\n")
    cmds = write_scripts(c, logdir)
    env = dict(os.environ)
    env.update(c["base_env"])
    for e in ("C17_NEW", "C17_WEIRD", "C17_NEVER", "C17_TOOLDIR"):
        env.pop(e, None)
    envars = c["envars"]
    if c["path_kind"]:
        # two directories that may hold a program of the same bare name; each variant tells the command which one it is
        pc, pj = root / "tools of the caller", root / "tools of the job"
        for d, who in ((pc, "caller"), (pj, "job")):
            d.mkdir()
            if (who == "caller" and c["path_kind"] != "job-only") or (who == "job" and c["path_kind"] != "caller-only"):
                (d / TOOL).write_text(f'#!/bin/sh\nC17_TOOLDIR={who}\nexport C17_TOOLDIR\nexec sh "$@"\n')
                (d / TOOL).chmod(0o755)
        env["PATH"] = f"{pc}{os.pathsep}{env.get('PATH', os.defpath)}"
        if c["path_kind"] != "caller-only":      # module-style: the job's environment puts its own tool directory first
            envars = dict(envars or {})
            envars["PATH"] = f"{pj}{os.pathsep}{env['PATH']}"
    inp = JobInput(c["jid"], commands=[(s, x["name"]) for s, x in zip(cmds, c["cmds"])],
                   files=dict(c["infiles"]) if c["infiles"] or c["v"] % 2 else None,
                   return_files=None if c["req"] is None else tuple(c["req"]),
                   envars=envars, timeout=c["timeout"])
    fn = c["inpname"] + ".inp"
    # the output directory is, like the scratch directory, more than one level below what exists
    if c["rel"]:
        ifn, odir, sdir = work / fn, work / "out rel" / "deep", work / "scr/rel"
        argv = [fn, "-o", "out rel/deep", "-s", "scr/rel"]
        expect_work = {"sentinel.txt", fn}
    else:
        ifn, odir, sdir = root / "in" / fn, root / "out" / "deep", root / "scratch" / "lvl"
        argv = [str(ifn), "-o", str(odir), "-s", str(sdir)]
        expect_work = {"sentinel.txt"}
    inp.dump(ifn)
    ofile = odir / (c["inpname"] + ".out")
    stale = None
    if c["stale_out"]:
        from molli.pipeline.job import JobOutput

        odir.mkdir(parents=True, exist_ok=True)
        if c["stale_out"] == "other-input":
            JobOutput(input_hash=b"hash-of-the-input-that-had-this-name-before", exitcode=0, stdouts={"old": "old stdout\n"},
                      stderrs={"old": ""}, files={"old.file": b"old"}).dump(ofile)
        elif c["stale_out"] == "failed-attempt":
            JobOutput(input_hash=inp.hash, exitcode=1, stdouts={"c17-earlier-attempt": "died\n"}, stderrs={}, files={}).dump(ofile)
        else:
            ofile.write_bytes(b"\x85\xa7stdouts\x81\xa1x")     # a truncated report
        stale = ofile.read_bytes()
    if c["make_scratch"]:
        sdir.mkdir(parents=True, exist_ok=True)
        if c["foreign"]:
            (sdir / f"{c['jid']}__other").mkdir(exist_ok=True)
            (sdir / f"{c['jid']}__other" / "keep.me").write_bytes(b"another job's file")
    if c["make_out"]:
        odir.mkdir(parents=True, exist_ok=True)
    return {"inp": inp, "ifn": ifn, "odir": odir, "sdir": sdir, "argv": [str(molli_run_path())] + argv, "env": env,
            "work": work, "logdir": logdir, "expect_work": expect_work, "ofile": ofile, "stale": stale,
            "out_existed": odir.exists(), "scratch_before": listing(sdir) or {}}


def launch(L):
    return subprocess.Popen(L["argv"], cwd=str(L["work"]), env=L["env"], stdin=subprocess.DEVNULL,
                            stdout=subprocess.PIPE, stderr=subprocess.PIPE)


def _rd(p):
    try:
        return Path(p).read_bytes()
    except OSError:
        return None


def _rdt(p, default="<no log>"):
    b = _rd(p)
    return default if b is None else b.decode(errors="replace")


def judge(ctx, c, L, rc, stderr, case):
    """compare what the scripted commands logged and what _molli_run reported with the model"""
    from molli.pipeline.job import JobInput, JobOutput

    m = c["model"]
    logdir = L["logdir"]
    wit = {"job": describe(c), "exit_status": rc, "runner_stderr": stderr[-400:]}

    def V(key, **d):
        report(ctx, key, case=case, **d, **wit)

    norm = os.path.normpath
    # the report as found after the run; a file that is byte for byte what was there before the run was not written
    written = L["ofile"].exists() and (L["stale"] is None or _rd(L["ofile"]) != L["stale"])
    ctx.count("exec.run")
    if c["path_kind"]:
        ctx.count(f"exec.path.{c['path_kind']}")
    if c["stale_out"]:
        ctx.count("exec.out.preexisting")
        ctx.count(f"exec.out.preexisting.{c['stale_out']}")
    if not L["out_existed"]:
        ctx.count("exec.out.nested-absent")
    if c["nonnorm"] is not None:
        ctx.count("exec.rf.nonnormalised")
    ctx.count(f"exec.n{c['n']}.fail{'-none' if c['f'] < 0 else c['f'] + 1}")
    ctx.count(f"exec.rf.{c['rf_kind']}")
    if c["rel"]:
        ctx.count("exec.relative-paths")
    if c["fail_mode"]:
        ctx.count({"exit": "exec.fail.exit-code", "sig": "exec.fail.signal", "enoent": "exec.fail.enoent"}[c["fail_mode"][0]])
    enoent = c["fail_mode"] == ("enoent",)

    # ---- order: commands in order, each once, nothing after the first failure
    ctx.count("exec.order")
    raw = _rd(logdir / "order")
    order = [int(x) for x in raw.decode().split()] if raw else []
    if order != m["ran"]:
        if m["failed"] is not None and any(i > m["failed"] for i in order):
            V("exec:command-ran-after-first-failure", expected_order=m["ran"], observed_order=order)
        elif sorted(order) != sorted(set(order)):
            V("exec:command-ran-more-than-once", expected_order=m["ran"], observed_order=order)
        elif set(order) < set(m["ran"]):
            V("exec:command-not-run", expected_order=m["ran"], observed_order=order)
        else:
            V("exec:command-order-wrong", expected_order=m["ran"], observed_order=order)
    ran = [i for i in m["ran"] if i in order]
    for i in ran:
        if c["cmds"][i]["fail"] is None and not (logdir / f"c{i}.done").exists():
            V("exec:command-did-not-complete", command=i)

    # ---- working directory: one directory for all commands, under the scratch directory, private
    cwds = {i: _rdt(logdir / f"c{i}.cwd").rstrip("\n") for i in ran}
    sreal = os.path.realpath(L["sdir"])
    if ran:
        ctx.count("exec.cwd")
        if len(set(cwds.values())) != 1:
            V("exec:commands-ran-in-different-directories", cwds=cwds)
        for i, d in cwds.items():
            if not d.startswith(sreal + os.sep):
                V("exec:cwd-not-a-private-directory-under-scratch", command=i, cwd=d, scratch=sreal)
                break
        # entries that belong to ANOTHER job (the concurrent partner's files carry its tag)
        if c.get("foreign_prefix"):
            for i in ran:
                ls = _rdt(logdir / f"c{i}.ls", "").split("\n") + _rdt(logdir / "ls.met", "").split("\n")
                extra = [e for e in ls if e.startswith(c["foreign_prefix"])]
                if extra:
                    V("exec:working-directory-shared-by-concurrent-jobs", command=i, foreign=extra[:5])
                    break

    # ---- input files materialised before command 1, exact bytes (and still there for later commands)
    if ran and c["infiles"]:
        for i in ran:
            for j, fn in enumerate(sorted(c["infiles"])):
                exp = c["infiles"][fn]
                expb = exp.encode(ENCODING) if isinstance(exp, str) else exp
                kind = "text" if isinstance(exp, str) else "binary"
                if i == 0:
                    ctx.count("exec.input.materialised")
                    if kind == "binary" and len(set(expb)) == 256:
                        ctx.count("exec.input.binary-256")
                    if kind == "text":
                        ctx.count("exec.input.text")
                got = _rd(logdir / f"c{i}.in.{j}")
                overwritten = any(fn == f2 for x in c["cmds"][:i] for f2, _ in x["creates"])
                if overwritten:
                    continue
                if got is None:
                    V(f"exec:input-file-missing:{'before-first-command' if i == 0 else 'for-later-command'}", file=fn,
                      command=i)
                elif got != expb:
                    V(f"exec:input-file-bytes-differ:{kind}", file=fn, command=i, expected_len=len(expb),
                      observed_len=len(got), first_diff=_first_diff(expb, got))

    # ---- environment and argv of every command that ran
    exp_env = dict(c["base_env"])
    exp_env.update(c["envars"] or {})
    if c["path_kind"]:
        exp_env["C17_TOOLDIR"] = TOOL_FROM[c["path_kind"]]
    for i in ran:
        ctx.count("exec.env")
        for e in ENV_LOGGED:
            got = _rdt(logdir / f"c{i}.env.{e}")
            exp = exp_env.get(e, "__C17_UNSET__")
            if got != exp:
                if e == "C17_TOOLDIR":
                    # the program named by the command was not the one found first on the PATH of the job's environment
                    key = "exec:program-not-looked-up-in-the-jobs-environment"
                elif e in (c["envars"] or {}) and e in c["base_env"]:
                    key = "exec:env-override-not-applied"
                elif e in (c["envars"] or {}):
                    key = "exec:env-job-variable-missing"
                elif e in c["base_env"]:
                    key = "exec:env-inherited-variable-lost"
                else:
                    key = "exec:env-unexpected-variable"
                V(key, command=i, variable=e, expected=exp, observed=got)
        if c["env_kind"] == "override":
            ctx.count("exec.env.override")
        ctx.count("exec.argv")
        exp_argv = c["cmds"][i]["argv"]
        argc = _rdt(logdir / f"c{i}.argc", "-1").strip()
        got_argv = [_rdt(logdir / f"c{i}.argv.{k}") for k in range(len(exp_argv))]
        a0 = _rdt(logdir / f"c{i}.argv0")
        if argc != str(len(exp_argv)) or got_argv != exp_argv or a0 != "c17":
            V("exec:argv-differs", command=i, expected=exp_argv, observed=got_argv, argc=argc, argv0=a0)

    # ---- exit status
    if m["ok"]:
        ctx.count("exec.exit.zero-expected")
    else:
        ctx.count("exec.exit.nonzero-expected")
    crashed = "Traceback (most recent call last)" in stderr
    rf_none_crash = c["req"] is None and crashed and not written and "TypeError" in stderr
    if rf_none_crash:
        V("return-files-none-crashes-runner", output_file_exists=False)
    else:
        if m["ok"] and rc != 0:
            key = "exec:exit-nonzero-although-all-succeeded"
            if c["nonnorm"] is not None and written and not crashed and order == m["ran"]:
                # every command ran, the report itself holds every requested file -- and still a failure is signalled
                try:
                    have = {norm(k) for k in (JobOutput.load(L["ofile"]).files or {})}
                except Exception:  # noqa
                    have = set()
                if have == {norm(r) for r in c["req"]}:
                    key += ":requested-name-not-normalised"
            V(key, crashed=crashed)
        if not m["ok"] and rc == 0:
            if m["failed"] is not None:
                V("exec:exit-zero-although-a-command-failed", failed_command=m["failed"])
            else:
                V("exec:exit-zero-although-requested-file-missing",
                  missing=[r for r in c["req"] if r not in m["files"]])

    # ---- the report
    out = None
    if not written:
        if not rf_none_crash and not enoent:
            where = sorted(listing(L["odir"]) or {})[:5]
            V("exec:output-file-missing-where-o-says", expected=str(L["ofile"]), crashed=crashed, found=where)
    else:
        ctx.count("exec.outfile")
        try:
            out = JobOutput.load(L["ofile"])
        except Exception as e:  # noqa
            V("exec:output-file-unreadable", err=repr(e)[:200])
    if out is not None:
        # hash
        ctx.count("exec.hash")
        h = L["inp"].hash
        if out.input_hash != h:
            V("exec:input-hash-differs", expected=repr(h), observed=repr(out.input_hash))
        if JobInput.load(L["ifn"]).hash != h:
            V("exec:input-hash-changes-under-dump-load")
        # captures
        so, se = out.stdouts or {}, out.stderrs or {}
        for i, x in enumerate(c["cmds"]):
            nm = x["name"]
            if nm is None:
                continue
            if i in ran:
                ctx.count("exec.capture.named-command")
                if c["huge"] == i:
                    ctx.count("exec.capture.large")
                go, ge = so.get(nm), se.get(nm)
                if go != x["stdout"] or ge != x["stderr"]:
                    if go == x["stderr"] and ge == x["stdout"] and x["stdout"] != x["stderr"]:
                        V("exec:capture-stdout-stderr-swapped", command=i, name=nm)
                    else:
                        if go != x["stdout"]:
                            V("exec:capture-stdout-differs", command=i, name=nm, expected=x["stdout"][:200],
                              observed=None if go is None else go[:200], failing=x["fail"] is not None)
                        if ge != x["stderr"]:
                            V("exec:capture-stderr-differs", command=i, name=nm, expected=x["stderr"][:200],
                              observed=None if ge is None else ge[:200], failing=x["fail"] is not None)
            elif not enoent or i != m["failed"]:
                if so.get(nm) or se.get(nm):
                    V("exec:capture-for-command-that-never-ran", command=i, name=nm)
        known = {x["name"] for x in c["cmds"] if x["name"] is not None}
        if set(so) - known or set(se) - known:
            V("exec:capture-for-unknown-name", extra=sorted((set(so) | set(se)) - known)[:5])
        # files
        ctx.count("exec.files")
        # a file is accepted under the name it was requested by or under the normalised spelling of that name
        gf = {norm(k): val for k, val in (out.files or {}).items()}
        mf = {norm(k): val for k, val in m["files"].items()}
        if c["req"] is not None and len(m["files"]) < len(c["req"]):
            ctx.count("exec.files.missing-subset")
        if set(gf) != set(mf) or len(gf) != len(out.files or {}):
            V("exec:returned-file-set-differs", expected=sorted(m["files"]), observed=sorted(out.files or {}),
              lost=sorted(set(mf) - set(gf)), extra=sorted(set(gf) - set(mf)))
        for fn, data in mf.items():
            if fn in gf:
                ctx.count("exec.files.returned")
                expb = data.encode(ENCODING) if isinstance(data, str) else data
                if gf[fn] != expb:
                    V("exec:returned-file-bytes-differ", file=fn, expected_len=len(expb),
                      observed_len=len(gf[fn]) if hasattr(gf[fn], "__len__") else None,
                      first_diff=_first_diff(expb, gf[fn]) if isinstance(gf[fn], bytes) else "not bytes")
        # exit code in the report
        if m["failed"] is not None and not enoent:
            ctx.count("exec.report.exitcode")
            if not out.exitcode:
                V("exec:report-exitcode-zero-although-a-command-failed", observed=out.exitcode)

    # ---- no residue, caller's cwd untouched
    ctx.count("exec.residue")
    after = listing(L["sdir"])
    if after is None:
        V("exec:scratch-directory-removed")
    elif after != L["scratch_before"]:
        gone = sorted(set(L["scratch_before"]) - set(after))
        if gone:
            V("exec:foreign-scratch-content-removed", removed=gone[:5])
        else:
            V("exec:scratch-residue", residue=sorted(set(after) - set(L["scratch_before"]))[:8])
    for d in set(cwds.values()):
        if d and os.path.exists(d):
            V("exec:working-directory-left-behind", cwd=d)
    ctx.count("exec.caller-cwd")
    wl = listing(L["work"]) or {}
    top = {k.split("/")[0] for k in wl}
    exp_top = set(L["expect_work"]) | ({"out rel", "scr"} if c["rel"] else set())
    if top != exp_top or _rd(L["work"] / "sentinel.txt") != b"caller's file\n":
        V("exec:callers-cwd-modified", expected=sorted(exp_top), observed=sorted(top))


def _first_diff(a, b):
    for i, (x, y) in enumerate(zip(a, b)):
        if x != y:
            return {"offset": i, "expected": x, "observed": y}
    return {"offset": min(len(a), len(b)), "expected": None, "observed": None}


def run_one(ctx, c, root, case):
    L = prepare_case(c, root)
    p = launch(L)
    try:
        so, se = p.communicate(timeout=RUN_TIMEOUT)
    except subprocess.TimeoutExpired:
        p.kill()
        p.communicate()
        ctx.inconclusive.append(f"_molli_run did not end within {RUN_TIMEOUT}s for case {case}")
        return None
    err = se.decode(errors="replace")
    if never_started(err):
        ctx.inconclusive.append(f"_molli_run died before reaching run_local for case {case}: {err[-300:]}")
        return None
    judge(ctx, c, L, p.returncode, err, case)
    return L


def never_started(stderr):
    """the interpreter died with a traceback that does not pass through the entry point run_local (e.g. molli could not be
    imported because the working tree was being edited): nothing about the property was observed"""
    return "Traceback (most recent call last)" in stderr and "run_local" not in stderr


def run_exec_chunk(spec, ctx):
    import shutil

    seen_hash = {}
    for n, f, v in spec["cases"]:
        case = ["exec", n, f, v]
        if not ctx.want(case):
            continue
        rng = ctx.rng("exec", n, f, v)
        c = build_case(n, f, v, rng)
        root = ctx.tmp / f"x{n}_{f}_{v}"
        ctx.case(case, dkey=structural_key(c), nontrivial=is_nontrivial(c), sample=describe(c))
        L = run_one(ctx, c, root, case)
        if L is not None:
            # distinct requests must have distinct hashes, equal requests equal hashes (what caches key on)
            h = L["inp"].hash
            from molli.pipeline.job import JobInput
            import attrs
            content = repr(attrs.asdict(L["inp"]))
            ctx.count("hash.distinct-inputs")
            for h2, content2 in seen_hash.items():
                if (h2 == h) != (content2 == content):
                    ctx.violation("hash:does-not-identify-the-input", case=case, same_hash=h2 == h)
                    break
            seen_hash[h] = content
            twin = JobInput(**{k: val for k, val in attrs.asdict(L["inp"]).items()})
            if twin.hash != h:
                ctx.violation("hash:equal-inputs-hash-differently", case=case)
        shutil.rmtree(root, ignore_errors=True)


def run_pair_chunk(spec, ctx):
    """two jobs, same jid, same scratch directory, concurrently; they meet inside their first command"""
    import shutil

    for pi in spec["pairs"]:
        case = ["pair", pi]
        if not ctx.want(case):
            continue
        rng = ctx.rng("pair", pi)
        root = ctx.tmp / f"pair{pi}"
        roots = [root / "A", root / "B"]
        n = 1 + pi % 3
        cs = []
        for t, r in zip("AB", roots):
            c = build_case(n, -1, 1 + 6 * pi + (0 if t == "A" else 12), rng, tag=f"{t}-",
                           rendezvous=(roots[1] if t == "A" else roots[0]) / "log")
            c["jid"] = "samejid"
            c["foreign_prefix"] = "B-" if t == "A" else "A-"
            c["rel"] = False
            c["foreign"] = False
            cs.append(c)
        ctx.case(case, dkey=("pair", n, pi), nontrivial=True,
                 sample={"kind": "concurrent-pair", "jid": "samejid", "commands": n, "A": describe(cs[0]), "B": describe(cs[1])})
        Ls = [prepare_case(c, r) for c, r in zip(cs, roots)]
        # same scratch directory for both
        shared = root / "shared scratch"
        shared.mkdir(parents=True, exist_ok=True)
        for L in Ls:
            L["argv"][L["argv"].index("-s") + 1] = str(shared)
            L["sdir"] = shared
            L["scratch_before"] = {}
        ps = [launch(L) for L in Ls]
        res = []
        for p in ps:
            try:
                so, se = p.communicate(timeout=RUN_TIMEOUT)
                res.append((p.returncode, se.decode(errors="replace")))
            except subprocess.TimeoutExpired:
                p.kill()
                p.communicate()
                res.append(None)
        if None in res:
            ctx.inconclusive.append(f"_molli_run pair {pi} did not end within {RUN_TIMEOUT}s")
            shutil.rmtree(root, ignore_errors=True)
            continue
        if any(never_started(r[1]) for r in res):
            ctx.inconclusive.append(f"_molli_run died before reaching run_local in pair {pi}")
            shutil.rmtree(root, ignore_errors=True)
            continue
        met = all((L["logdir"] / "met").exists() and (L["logdir"] / "met2").exists() for L in Ls)
        if met:
            ctx.count("pair.overlapped")
            cw = [(_rd(L["logdir"] / "c0.cwd") or b"").decode(errors="replace").strip() for L in Ls]
            if cw[0] == cw[1]:
                ctx.violation("exec:working-directory-shared-by-concurrent-jobs", case=case, cwd=cw[0])
        else:
            ctx.count("pair.not-overlapped")
        for c, L, r in zip(cs, Ls, res):
            judge(ctx, c, L, r[0], r[1], case)
        shutil.rmtree(root, ignore_errors=True)
