"""
C12 -- joining fragments at attachment points builds exactly the intended molecule.

Monitor shape: a hand-written runtime contract on the real `Structure.join` (the classmethod object in the class
dictionary is replaced, so `Structure.join`, `Molecule.join`, the CDXML parser and `molli combine` all go through it).
At entry both inputs are snapshotted (vmon.snap) and the global numpy generator is fingerprinted; at exit a list of
*named* post-conditions, each with its own error class, is evaluated against the product.  The contract records
(it does not abort) so that iterated workloads keep running; the harness drains the record after every call.

On top of the contract the harness
  * executes every case three times (two different `numpy.random` seeds, and the first seed again after unrelated
    draws) and requires identical products,
  * edits the fragments in place (re-pose, attachment direction, conformation, anchor element, charge / multiplicity,
    labels, partial charges, another joinable atom) and joins the SAME objects again: the contract judges that call against
    its own entry snapshots and the product must equal that of fresh copies (nothing remembered from earlier joins),
  * edits the product afterwards and re-compares the inputs (the product is a new molecule),
  * passes the same structure on both sides (same atom / two different joinable atoms) and two conformers of one
    ensemble (fragments sharing their Atom and Bond objects),
  * decouples "attachment point" from AtomType.AttachmentPoint: fragments with 0..3 atoms of that type, joined at one
    of them or at an ordinary one-bond atom,
  * runs the real `molli combine` on core libraries with 2..3 cores whose attachment points stand at different indices,
    with -a labels that name several atoms, in every mode, with and without -b,
  * drives the real `molli.scripts.combine._ml_assemble` on cores with 2..4 attachment points with the attachment
    indices computed exactly as the command line does (default order and `-a LABEL` order) and compares the product
    with an independently computed constitution.
"""
from __future__ import annotations

import json
import math
import sys

ID = "C12"
LEVEL = "exploration"
RULE = ("seeded random 3-D tree/ring fragments (2..15 atoms incl. the attachment point; rich atom/bond fields; attachment "
        "point = Atom(Unknown, AttachmentPoint) with exactly one bond, placed at any index and on any atom), random poses, "
        "dist in {None, 0.3..9.0 as Python float / int / numpy scalar}, optimize_rotation off/on, charges -2..2, mult 1..3, overrides incl. 0, requested bond "
        "type/stereo/order; attachment vectors in general position, exactly parallel, exactly antiparallel, within 1e-7 of "
        "those, along coordinate axes and at the switch of the rotation's antiparallel branch; every case run 3x under "
        "different global numpy.random states; plus iterated joins through the real _ml_assemble on cores with 2..4 "
        "attachment points (indices in ascending and in user label order, sub-selections, repeated substituents) and the "
        "joins issued by the CDXML parser for nested fragments of the bundled drawings. "
        "Added after the gap review: fragments with 0..3 AttachmentPoint-typed atoms joined at one of them or at an ordinary "
        "one-bond atom; the same structure on both sides (same / different join atoms) and two conformers of one ensemble; "
        "every direct case joined once more after random in-place edits of the fragments (and compared with the join of "
        "fresh copies), then the product is edited and the inputs re-compared; distinct partial charges on 60 % of the "
        "molecules; `molli combine` on libraries of 2..3 cores with attachment points at different indices, repeated "
        "attachment labels, modes same/permutns/combns/combns_repl, -b 1..3. "
        "non-trivial = both fragments have >= 3 atoms and B has a centre with >= 3 neighbours (assemblies: core >= 3 atoms "
        "and a substituent with such a centre); distinct by hash of both input snapshots and the call parameters")
ASSUMPTIONS = [
    "geometry is compared at 1e-9 * scale (scale = max(1, largest |coordinate| among inputs and product)); direction by "
    "cos >= 1 - 1e-9; when the two attachment vectors are within 1.5e-2 rad of the rotation's branch switch "
    "(1e-6*0.9 < 1 + cos <= 1e-4) the Rodrigues formula divides by 1+cos and loses up to 1.5e-9 of orthogonality "
    "(measured): the tolerance there is 1e-7 * scale",
    "the default bond length is the sum of the single-bond covalent radii of the two anchors (carbon's radius when an "
    "element has none), as Bond.expected_length documents; dist=0 or negative is not exercised; a requested length is "
    "any positive number (int, float, numpy scalar), compared after float()",
    "an atom join may be asked to join at is any atom with exactly one bond (join's own assertion), whatever its "
    "AtomType; attachment points elsewhere in the fragment are ordinary atoms of the product",
    "partial charges are compared only when the product and both inputs expose atomic_charges (exact to 1e-12)",
    "the comparison with fresh copies trusts the copy constructors Molecule(m) / Structure(s) (C06) and is skipped when "
    "the copy's snapshot differs from the original's",
    "combns / combns_repl product names are compared per product as a multiset of substituents (the order inside one "
    "name follows the order in which the library lists the substituents, which the statement does not fix); "
    "--hadd, --obopt and -n > 1 are not exercised (hydrogen completion is C16's subject, worker processes are outside "
    "the in-process contract)",
    "mult=0 as an override is accepted as either 0 or what the class constructor makes of mult=0 (molli normalises it to 1)",
    "bonds are compared as a multiset with unordered endpoints (bond order in the table is not part of the statement)",
    "the end-to-end geometry of assembled products (several joins in sequence) is compared at 1e-7 * scale; every "
    "single join inside is still held to the contract's tolerance",
    "the wrong-assembly classifier uses the labels of the atoms join was asked to join at (recorded by the contract): "
    "the known index-shift mechanism is named only when a join was issued for an atom other than the listed attachment "
    "point and the indices were not ascending",
    "handedness is decided where it is defined: centres whose normalised triple product exceeds 1e-3 and, globally, "
    "fragments whose smallest principal extent exceeds 0.05 A",
]
CHUNK_TIMEOUT = 600
EXHAUSTIVE = False
TECHNIQUE = ("runtime monitoring: hand-written contract (entry snapshots, named post-conditions, explicit error classes) on "
             "the real Structure.join + hidden-state replicas + constitution oracle for molli combine's iterated join")
LEVEL_TEXT = ("Held on the executions produced: every call of Structure.join made by the workload (direct calls in nine "
              "attachment-vector regimes and the calls issued by the real _ml_assemble) is checked at exit against 20 named "
              "post-conditions computed from snapshots taken at entry; products of three runs under different global RNG "
              "states are compared; the same objects are joined again after in-place edits and compared with fresh copies; "
              "`molli combine` is run on multi-core libraries against a name/constitution oracle. "
              "Not a proof: reach is that of the generator.")
LEVEL_NOTE = ("Trusted: vmon/snap.py, numpy, molli's element table (covalent radii) and public accessors "
              "(atoms, bonds, coords, charge, mult, get_atom, index_atom, attachment_points, yield_atoms_by_label).")


def REQUIRED(tier):
    k = 1 if tier == "quick" else 10
    return {
        "contract.join.evaluations": 1500 * k,
        "contract.join.route.direct": 1200 * k,
        "contract.join.route.assemble": 150 * k,
        "contract.join.route.cdxml": 20,
        "replicas.compared": 800 * k,
        "reach.rotation.antiparallel-branch": 100 * k,
        "reach.optimize_rotation": 300 * k,
        "case.vectors.general": 100 * k,
        "case.vectors.parallel-exact": 30 * k,
        "case.vectors.antiparallel-exact": 30 * k,
        "case.vectors.parallel-near": 20 * k,
        "case.vectors.antiparallel-near": 20 * k,
        "case.vectors.axis": 30 * k,
        "case.vectors.switch": 10 * k,
        "case.override.charge-zero": 15 * k,
        "case.override.charge-none": 50 * k,
        "case.dist.default": 50 * k,
        "case.dist.given": 50 * k,
        "assemble.order.ascending": 30 * k,
        "assemble.order.non-ascending": 20 * k,
        "case.fragment-atoms-lent": 50 * k, "combine-cli.runs": 10 * k, "combine-cli.products": 30 * k,
        # --- added after the gap review
        # the same structure on both sides / fragments sharing their Atom objects (conformers of one ensemble)
        "contract.join.same-object-on-both-sides": 150 * k,
        "contract.join.fragments-share-atom-objects": 150 * k,
        "case.self.same-structure-same-atom": 50 * k,
        "case.self.same-structure-different-atoms": 30 * k,
        # join atom decoupled from AtomType.AttachmentPoint; fragments with 0 / 2 / 3 atoms of that type
        "case.join-atom.A.ordinary-while-typed-attachment-point-elsewhere": 50 * k,
        "case.join-atom.B.ordinary-while-typed-attachment-point-elsewhere": 50 * k,
        "case.typed-attachment-points.B.0": 50 * k,
        "case.typed-attachment-points.B.2": 50 * k,
        "case.typed-attachment-points.B.3": 25 * k,
        # requested length of any size / numeric type
        "case.dist.outside-0.9-2.5": 60 * k,
        "case.dist.above-3": 30 * k,
        "case.dist.not-a-python-float": 50 * k,
        # partial charges follow their atoms
        "contract.join.partial-charges-nonzero-checked": 1500 * k,
        # the same objects joined again after in-place edits; product edited afterwards
        "rejoin.calls": 500 * k,
        "rejoin.compared-with-fresh-copies": 400 * k,
        "rejoin.edit.repose": 100 * k,
        "rejoin.edit.repose-in-place": 100 * k,
        "rejoin.edit.move-join-atom": 100 * k,
        "rejoin.edit.other-join-atom": 200 * k,
        "assemble.calls-after-re-pose": 30 * k,
        "product-edit.inputs-compared": 500 * k,
        # molli combine on libraries with several cores, labels naming several atoms, every mode, batching
        "combine-cli.multi-core.runs": 20 * k,
        "combine-cli.multi-core.cores-with-different-attachment-indices": 15 * k,
        "combine-cli.constitution-ok.second-or-later-core": 50 * k,
        "combine-cli.label-naming-several-atoms": 6 * k,
        "combine-cli.mode.same": 3 * k, "combine-cli.mode.combns": 3 * k, "combine-cli.mode.combns_repl": 3 * k,
        "combine-cli.mode.permutns": 8 * k,
        "combine-cli.batchsize-given": 8 * k,
    }


# ---------------------------------------------------------------------------------------------------------------
# plan

def plan(tier, seed):
    if tier == "quick":
        nj, perj, na, pera, ns, pers, nc, perc = 32, 36, 12, 12, 8, 24, 8, 5
    else:
        nj, perj, na, pera, ns, pers, nc, perc = 150, 200, 60, 50, 40, 120, 32, 20
    joins = [{"kind": "join", "chunk": i, "n": perj} for i in range(nj)]
    asms = [{"kind": "assemble", "chunk": i, "n": pera} for i in range(na)]
    selfs = [{"kind": "self", "chunk": i, "n": pers} for i in range(ns)]
    clis = [{"kind": "cli", "chunk": i, "n": perc} for i in range(nc)]
    # (order only matters for which samples the evidence shows first)
    return ([joins[0], asms[0], {"kind": "cdxml", "chunk": 0}, selfs[0], clis[0]] + clis[1:] + joins[1:] + asms[1:]
            + selfs[1:])


# ---------------------------------------------------------------------------------------------------------------
# the contract: error classes (explicit, one per named condition)

class JoinContractError(AssertionError):
    """a post-condition of Structure.join does not hold; .key names the mechanism, .detail is the witness"""
    key = "join:contract"

    def __init__(self, condition, detail, key=None):
        super().__init__(f"{condition}: {detail}")
        self.condition = condition
        self.detail = detail
        if key is not None:
            self.key = key


class JoinRaised(JoinContractError):
    key = "join:raises-on-valid-input"


class ResultNotNew(JoinContractError):
    key = "join:result-not-a-new-object-of-cls"


class AtomCountWrong(JoinContractError):
    key = "join:atom-count"


class BondCountWrong(JoinContractError):
    key = "join:bond-count"


class AtomsDiffer(JoinContractError):
    key = "join:atoms-differ"


class BondsMissing(JoinContractError):
    key = "join:fragment-bond-missing-or-altered"


class BondsExtra(JoinContractError):
    key = "join:unexpected-bond"


class NewBondWrong(JoinContractError):
    key = "join:new-bond"


class FragmentADistorted(JoinContractError):
    key = "join:fragment-A-internal-geometry-changed"


class FragmentBDistorted(JoinContractError):
    key = "join:fragment-B-internal-geometry-changed"


class FragmentBMirrored(JoinContractError):
    key = "join:fragment-B-mirrored"


class NewBondLengthWrong(JoinContractError):
    key = "join:new-bond-length"


class NewBondDirectionWrong(JoinContractError):
    key = "join:new-bond-not-along-A-attachment-vector"


class AMovedRelativeToAnchor(JoinContractError):
    key = "join:A-coordinates-relative-to-anchor-changed"


class BNotAttachedAlongItsVector(JoinContractError):
    key = "join:B-not-attached-along-its-attachment-vector"


class ChargeWrong(JoinContractError):
    key = "join:charge"


class MultWrong(JoinContractError):
    key = "join:mult"


class InputAMutated(JoinContractError):
    key = "join:input-A-mutated"


class InputBMutated(JoinContractError):
    key = "join:input-B-mutated"


class GlobalRngAdvanced(JoinContractError):
    key = "join:global-rng-state-changed"


class _Monitor:
    """what the contract recorded since the last drain"""

    def __init__(self):
        self.installed = False
        self.routes = []
        self.counts = {}
        self.failures = []
        self.antipar_calls = 0
        self.depth = 0
        self.route = "direct"
        self.last = None  # observation of the last evaluated call (for samples / classification)
        self.calllog = []  # label of the atom of struct1 each call was asked to join at

    def count(self, name, n=1):
        self.counts[name] = self.counts.get(name, 0) + n

    def fail(self, err):
        self.failures.append(err)

    def drain(self):
        f, self.failures = self.failures, []
        return f


MON = _Monitor()
SKIP = object()


# ---------------------------------------------------------------------------------------------------------------
# the contract: observations

class _Obs:
    pass


def _rng_fingerprint():
    import numpy as np

    st = np.random.get_state(legacy=False)
    s = st["state"]
    return (st["bit_generator"], bytes(memoryview(s["key"])), int(s["pos"]), int(st["has_gauss"]), float(st["gauss"]))


def _unit(v):
    import numpy as np

    return v / np.linalg.norm(v)


def _bonds_at(s, i):
    return [b for b in s["bonds"] if b["a1"] == i or b["a2"] == i]


def _other(b, i):
    return b["a2"] if b["a1"] == i else b["a1"]


def _bond_key(b, a1, a2):
    lo, hi = (a1, a2) if a1 <= a2 else (a2, a1)
    return json.dumps([lo, hi, b["label"], b["btype"], b["stereo"], b["f_order"], b["attrib"]], sort_keys=True,
                      default=repr)


OPTION_NAMES = ("dist", "optimize_rotation", "name", "charge", "mult", "btype", "bstereo", "bforder")


def _observe_entry(cls, args, kwargs):
    """snapshot of everything the post-conditions need; None when the pre-conditions of join are not met"""
    import numpy as np
    from vmon.snap import snap

    names = ("struct1", "struct2", "_a1", "_a2")
    vals = list(args[:4])
    for n in names[len(vals):]:
        if n not in kwargs:
            return None
        vals.append(kwargs[n])
    A, B, ra, rb = vals
    # A may be B (a dimer of one object) and A, B may share their Atom objects (two conformers of one ensemble):
    # everything below is computed by position inside each fragment, never through an atom -> atom map over both
    o = _Obs()
    o.cls, o.A, o.B = cls, A, B
    o.opts = {k: kwargs[k] for k in OPTION_NAMES if k in kwargs}
    try:
        a = A.get_atom(ra)
        b = B.get_atom(rb)
        o.iA = [i for i, x in enumerate(A.atoms) if x is a][0]
        o.iB = [i for i, x in enumerate(B.atoms) if x is b][0]
        o.sA = snap(A, parents=True)
        o.sB = snap(B, parents=True)
    except Exception:  # not a valid call: join has no obligations
        return None
    if "bonds" not in o.sA or "bonds" not in o.sB or "coords" not in o.sA or "coords" not in o.sB:
        return None
    ba, bb = _bonds_at(o.sA, o.iA), _bonds_at(o.sB, o.iB)
    if len(ba) != 1 or len(bb) != 1:
        return None  # "attachment point has exactly one bond" is join's own pre-condition
    o.kA, o.kB = _other(ba[0], o.iA), _other(bb[0], o.iB)
    if o.kA == o.iA or o.kB == o.iB or o.kA < 0 or o.kB < 0:
        return None
    A0, B0 = o.sA["coords"], o.sB["coords"]
    if not (np.isfinite(A0).all() and np.isfinite(B0).all()):
        return None
    o.v1 = A0[o.iA] - A0[o.kA]
    o.v2 = B0[o.iB] - B0[o.kB]
    if not (np.linalg.norm(o.v1) > 1e-6 and np.linalg.norm(o.v2) > 1e-6):
        return None
    o.nA, o.nB = len(o.sA["atoms"]), len(o.sB["atoms"])
    o.keepA = [i for i in range(o.nA) if i != o.iA]
    o.keepB = [i for i in range(o.nB) if i != o.iB]
    o.mapA = {i: n for n, i in enumerate(o.keepA)}
    o.mapB = {i: o.nA - 1 + n for n, i in enumerate(o.keepB)}
    o.cosj = float(np.dot(_unit(o.v2), -_unit(o.v1)))  # cosine seen by the rotation v2 -> -v1
    o.rng0 = _rng_fingerprint()
    o.antipar0 = MON.antipar_calls
    return o


def _observe_exit(o, result):
    import numpy as np
    from vmon.snap import snap

    o.R = result
    o.rng1 = _rng_fingerprint()
    o.antipar = MON.antipar_calls > o.antipar0 or (1.0 + o.cosj) <= 2e-6
    o.sA2 = snap(o.A, parents=True)
    o.sB2 = snap(o.B, parents=True)
    try:
        o.sR = snap(result)
    except Exception as e:  # noqa
        o.sR = None
        o.sR_err = repr(e)
    o.geom_ok = False
    if o.sR is not None and "coords" in o.sR and "bonds" in o.sR:
        P = np.asarray(o.sR["coords"], dtype=float)
        if P.shape == (o.nA + o.nB - 2, 3):
            o.geom_ok = True
            o.P = P
            o.PA, o.PB = P[:o.nA - 1], P[o.nA - 1:]
            o.A0k, o.B0k = o.sA["coords"][o.keepA], o.sB["coords"][o.keepB]
            o.scale = max(1.0, float(np.abs(o.sA["coords"]).max()), float(np.abs(o.sB["coords"]).max()),
                          float(np.nanmax(np.abs(P))) if np.isfinite(P).any() else 1.0)
            o.band = 0.9e-6 < (1.0 + o.cosj) <= 1e-4
            o.tol = (1e-7 if o.band else 1e-9) * o.scale
            o.pa, o.pb = o.P[o.mapA[o.kA]], o.P[o.mapB[o.kB]]


# ---------------------------------------------------------------------------------------------------------------
# the contract: named post-conditions.  Each returns None (holds), SKIP (not evaluable) or a witness dict.

def post_result_is_new_object_of_cls(o):
    if o.R is o.A or o.R is o.B or not isinstance(o.R, o.cls):
        return {"type": type(o.R).__name__, "cls": o.cls.__name__}
    if o.sR is None:
        return {"unreadable": getattr(o, "sR_err", "?")}


def post_atom_count(o):
    if o.sR is None:
        return SKIP
    n = len(o.sR["atoms"])
    if n != o.nA + o.nB - 2:
        return {"observed": n, "expected": o.nA + o.nB - 2, "nA": o.nA, "nB": o.nB}


def post_bond_count(o):
    if o.sR is None or "bonds" not in o.sR:
        return SKIP
    n = len(o.sR["bonds"])
    e = len(o.sA["bonds"]) + len(o.sB["bonds"]) - 1
    if n != e:
        return {"observed": n, "expected": e}


def post_atoms_same_fields_same_order(o):
    if o.sR is None:
        return SKIP
    exp = [o.sA["atoms"][i] for i in o.keepA] + [o.sB["atoms"][i] for i in o.keepB]
    got = o.sR["atoms"]
    if len(exp) != len(got):
        return SKIP  # reported by atom-count
    for n, (e, g) in enumerate(zip(exp, got)):
        if e != g:
            f = [k for k in e if e[k] != g.get(k)]
            return {"index": n, "fields": f, "expected": {k: e[k] for k in f}, "observed": {k: g.get(k) for k in f},
                    "_key": "join:atoms-differ:" + (f[0] if f else "?")}


def _expected_old_bonds(o):
    from collections import Counter

    exp = Counter()
    for b in o.sA["bonds"]:
        if o.iA not in (b["a1"], b["a2"]):
            exp[_bond_key(b, o.mapA[b["a1"]], o.mapA[b["a2"]])] += 1
    for b in o.sB["bonds"]:
        if o.iB not in (b["a1"], b["a2"]):
            exp[_bond_key(b, o.mapB[b["a1"]], o.mapB[b["a2"]])] += 1
    return exp


def _new_bond_endpoints(o):
    x, y = o.mapA[o.kA], o.mapB[o.kB]
    return (x, y) if x <= y else (y, x)


def _observed_bonds(o):
    from collections import Counter

    got = Counter()
    for b in o.sR["bonds"]:
        got[_bond_key(b, b["a1"], b["a2"])] += 1
    return got


def post_fragment_bonds_present(o):
    if o.sR is None or "bonds" not in o.sR:
        return SKIP
    miss = _expected_old_bonds(o) - _observed_bonds(o)
    if miss:
        return {"missing": sorted(miss)[:4], "n_missing": sum(miss.values())}


def post_new_bond_between_former_neighbours(o):
    if o.sR is None or "bonds" not in o.sR:
        return SKIP
    from molli.chem import BondType, BondStereo

    lo, hi = _new_bond_endpoints(o)
    residual = _observed_bonds(o) - _expected_old_bonds(o)
    cands = []
    for k in residual:
        d = json.loads(k)
        if (d[0], d[1]) == (lo, hi):
            cands.append(d)
    if not cands:
        return {"expected_between": [lo, hi], "residual": sorted(residual)[:4], "_key": "join:new-bond:absent"}
    want = {"btype": int(o.opts.get("btype", BondType.Single)),
            "stereo": int(o.opts.get("bstereo", BondStereo.Unknown)),
            "f_order": float(o.opts.get("bforder", 1.0))}
    for d in cands:
        got = {"btype": d[3], "stereo": d[4], "f_order": d[5]}
        if got == want:
            return None
    bad = [k for k in want if want[k] != got[k]]
    return {"expected": want, "observed": got, "_key": "join:new-bond:" + bad[0] + "-not-as-requested"}


def post_no_other_bonds(o):
    if o.sR is None or "bonds" not in o.sR:
        return SKIP
    lo, hi = _new_bond_endpoints(o)
    residual = _observed_bonds(o) - _expected_old_bonds(o)
    extra = []
    seen_new = False
    for k, n in residual.items():
        d = json.loads(k)
        for _ in range(n):
            if (d[0], d[1]) == (lo, hi) and not seen_new:
                seen_new = True
            else:
                extra.append(k)
    if extra:
        return {"extra": sorted(extra)[:4], "n_extra": len(extra)}


def _dm(X):
    import numpy as np

    return np.sqrt(((X[:, None, :] - X[None, :, :]) ** 2).sum(-1))


def _maxdev(a, b):
    import numpy as np

    d = np.abs(a - b)
    if d.size == 0:
        return 0.0
    m = float(np.max(d)) if np.isfinite(d).all() else float("inf")
    return m


def post_fragment_A_distances_unchanged(o):
    if not o.geom_ok:
        return SKIP
    dev = _maxdev(_dm(o.A0k), _dm(o.PA))
    if not dev <= o.tol:
        return {"max_deviation": dev, "tol": o.tol}


def post_fragment_B_distances_unchanged(o):
    if not o.geom_ok:
        return SKIP
    dev = _maxdev(_dm(o.B0k), _dm(o.PB))
    if not dev <= o.tol:
        return {"max_deviation": dev, "tol": o.tol}


def _ntp(c, p, q, r):
    """normalised triple product of the three directions c->p, c->q, c->r"""
    import numpy as np

    m = np.array([p - c, q - c, r - c])
    n = np.linalg.norm(m, axis=1)
    if not (n > 1e-9).all():
        return 0.0
    return float(np.linalg.det(m / n[:, None]))


def post_fragment_B_not_mirrored(o):
    """signed volumes at B's centres keep their sign; globally the best-fit orthogonal map is proper"""
    if not o.geom_ok:
        return SKIP
    import numpy as np
    from itertools import combinations

    B0 = o.sB["coords"]
    nb = {i: [] for i in range(o.nB)}
    for b in o.sB["bonds"]:
        if 0 <= b["a1"] < o.nB and 0 <= b["a2"] < o.nB:
            nb[b["a1"]].append(b["a2"])
            nb[b["a2"]].append(b["a1"])

    def new(i):  # position in the product of what stands where atom i of B stood (the AP is replaced by A's anchor)
        return o.pa if i == o.iB else o.P[o.mapB[i]]

    checked = 0
    for c in o.keepB:
        if len(nb[c]) < 3:
            continue
        for p, q, r in list(combinations(sorted(set(nb[c])), 3))[:10]:
            t0 = _ntp(B0[c], B0[p], B0[q], B0[r])
            if abs(t0) < 1e-3:
                continue
            t1 = _ntp(new(c), new(p), new(q), new(r))
            checked += 1
            if not t0 * t1 > 0:
                junction = o.iB in (p, q, r)  # the triple involves the replaced attachment point
                return {"centre": c, "neighbours": [p, q, r], "triple_before": t0, "triple_after": t1,
                        "_key": "join:handedness-at-junction-changed" if junction else "join:fragment-B-mirrored:centre"}
    o.centres_checked = checked
    # global handedness: B's own atoms, then B plus the point where its attachment point stood (scaled onto the
    # new bond), which A's anchor replaces
    w = float(np.linalg.norm(o.pb - o.pa))
    for X0, X1, key in ((o.B0k, o.PB, "join:fragment-B-mirrored:global"),
                        (np.vstack([o.B0k, B0[o.kB] + _unit(o.v2) * w]), np.vstack([o.PB, o.pa]),
                         "join:handedness-at-junction-changed")):
        X0 = X0 - X0.mean(0)
        X1 = X1 - X1.mean(0)
        if len(X0) >= 4 and np.isfinite(X1).all():
            sv = np.linalg.svd(X0, compute_uv=False)
            if sv[-1] > 0.05:
                o.global_handedness = True
                dh = float(np.linalg.det(X0.T @ X1))
                if not dh > 0:
                    return {"det_covariance": dh, "smallest_extent": float(sv[-1]), "_key": key}


def _expected_dist(o):
    d = o.opts.get("dist")
    if d is None:
        from molli.chem import Element

        def rad(s, i):
            el = Element(s["atoms"][i]["element"])
            return el.cov_radius_1 or Element.C.cov_radius_1

        return rad(o.sA, o.kA) + rad(o.sB, o.kB)
    try:
        d = float(d)
    except Exception:
        return None
    return d if d > 0 else None


def post_new_bond_length(o):
    if not o.geom_ok:
        return SKIP
    import numpy as np

    d = _expected_dist(o)
    if d is None:
        return SKIP
    w = float(np.linalg.norm(o.pb - o.pa))
    if not abs(w - d) <= 1e-9 * max(1.0, o.scale):
        return {"observed": w, "expected": d, "dist_argument": _js(o.opts.get("dist")),
                "_key": "join:new-bond-length:" + ("requested" if o.opts.get("dist") is not None else "default")}


def post_new_bond_along_A_attachment_vector(o):
    if not o.geom_ok:
        return SKIP
    import numpy as np

    w = o.pb - o.pa
    n = float(np.linalg.norm(w))
    if not n > 1e-9:
        return {"new_bond_vector": w.tolist()}
    c = float(np.dot(w / n, _unit(o.v1)))
    if not c >= 1 - 1e-9:
        return {"cos": c, "new_bond_vector": w.tolist(), "A_attachment_vector": o.v1.tolist()}


def post_A_coordinates_relative_to_anchor_unchanged(o):
    if not o.geom_ok:
        return SKIP
    dev = _maxdev(o.PA - o.pa, o.A0k - o.sA["coords"][o.kA])
    if not dev <= 1e-9 * o.scale:
        return {"max_deviation": dev, "tol": 1e-9 * o.scale}


def post_B_attached_along_its_attachment_vector(o):
    """A's anchor stands on the ray anchor(B) -> former attachment point of B (the new bond replaces that bond)"""
    if not o.geom_ok:
        return SKIP
    import numpy as np

    w = float(np.linalg.norm(o.pb - o.pa))
    if not (w > 1e-9 and math.isfinite(w)):
        return SKIP
    T0 = o.sB["coords"][o.kB] + _unit(o.v2) * w
    d0 = np.linalg.norm(o.B0k - T0, axis=1)
    d1 = np.linalg.norm(o.PB - o.pa, axis=1)
    dev = _maxdev(d0, d1)
    if not dev <= 2 * o.tol:
        return {"max_deviation": dev, "tol": 2 * o.tol}


def post_charge(o):
    got = getattr(o.R, "charge", None)
    given = o.opts.get("charge")
    if given is None:
        exp = o.sA["charge"] + o.sB["charge"]
        if got != exp:
            return {"observed": _js(got), "expected": _js(exp), "_key": "join:charge-not-sum"}
    elif got != given:
        zero = given == 0
        return {"observed": _js(got), "given": _js(given), "qA": _js(o.sA["charge"]), "qB": _js(o.sB["charge"]),
                "field": "charge", "_key": "override-zero-ignored" if zero else "join:charge-override-ignored"}


def post_mult(o):
    got = getattr(o.R, "mult", None)
    given = o.opts.get("mult")
    if given is None:
        exp = o.sA["mult"] + o.sB["mult"] - 1
        if got != exp:
            return {"observed": _js(got), "expected": _js(exp), "mA": _js(o.sA["mult"]), "mB": _js(o.sB["mult"]),
                    "_key": "join:mult-not-mA+mB-1"}
        return None
    ok = [given]
    if not given:
        try:
            ok.append(type(o.R)(n_atoms=0, mult=given).mult)  # what the constructor makes of this value
        except Exception:
            pass
    if got not in ok:
        return {"observed": _js(got), "given": _js(given), "accepted": [_js(x) for x in ok], "field": "mult",
                "_key": "override-zero-ignored" if not given else "join:mult-override-ignored"}


def post_partial_charges_follow_their_atoms(o):
    """per-atom data held by the molecule: when the product and both inputs carry partial charges, every atom of the
    product carries the value it had in its fragment"""
    if o.sR is None:
        return SKIP
    import numpy as np

    qa, qb, qr = o.sA.get("atomic_charges"), o.sB.get("atomic_charges"), o.sR.get("atomic_charges")
    if qa is None or qb is None or qr is None:
        return SKIP
    qa, qb, qr = (np.asarray(x, dtype=float) for x in (qa, qb, qr))
    if qa.shape != (o.nA,) or qb.shape != (o.nB,):
        return SKIP
    exp = np.concatenate([qa[o.keepA], qb[o.keepB]])
    if qr.shape != exp.shape:
        return {"shape_observed": list(qr.shape), "shape_expected": list(exp.shape),
                "_key": "join:partial-charges:wrong-shape"}
    bad = np.flatnonzero(~(np.abs(qr - exp) <= 1e-12))
    if len(bad):
        n = int(bad[0])
        return {"first_atom": n, "observed": float(qr[n]), "expected": float(exp[n]), "n_wrong": int(len(bad)),
                "atom_is_from": "A" if n < o.nA - 1 else "B", "_key": "join:partial-charges:not-following-their-atoms"}
    if np.any(exp != 0):
        o.pcharge_informative = True


class PartialChargesWrong(JoinContractError):
    key = "join:partial-charges"


def _input_diff(before, after):
    from vmon.snap import diff

    return [(p, a, b) for p, a, b in diff(before, after)]


def post_input_A_unchanged(o):
    d = _input_diff(o.sA, o.sA2)
    if d:
        return {"diff": [list(map(str, x)) for x in d[:4]]}


def post_input_B_unchanged(o):
    d = _input_diff(o.sB, o.sB2)
    if d:
        return {"diff": [list(map(str, x)) for x in d[:4]]}


def post_global_rng_state_unchanged(o):
    if o.rng0 != o.rng1:
        return {"pos_before": o.rng0[2], "pos_after": o.rng1[2], "same_key": o.rng0[1] == o.rng1[1],
                "antiparallel_rotation_branch": bool(o.antipar), "cos_v2_minus_v1": o.cosj,
                "_key": "antiparallel-join-uses-global-rng" if o.antipar else "join:global-rng-state-changed"}


POSTCONDITIONS = [
    (post_result_is_new_object_of_cls, ResultNotNew),
    (post_atom_count, AtomCountWrong),
    (post_bond_count, BondCountWrong),
    (post_atoms_same_fields_same_order, AtomsDiffer),
    (post_fragment_bonds_present, BondsMissing),
    (post_new_bond_between_former_neighbours, NewBondWrong),
    (post_no_other_bonds, BondsExtra),
    (post_fragment_A_distances_unchanged, FragmentADistorted),
    (post_fragment_B_distances_unchanged, FragmentBDistorted),
    (post_fragment_B_not_mirrored, FragmentBMirrored),
    (post_new_bond_length, NewBondLengthWrong),
    (post_new_bond_along_A_attachment_vector, NewBondDirectionWrong),
    (post_A_coordinates_relative_to_anchor_unchanged, AMovedRelativeToAnchor),
    (post_B_attached_along_its_attachment_vector, BNotAttachedAlongItsVector),
    (post_charge, ChargeWrong),
    (post_mult, MultWrong),
    (post_partial_charges_follow_their_atoms, PartialChargesWrong),
    (post_input_A_unchanged, InputAMutated),
    (post_input_B_unchanged, InputBMutated),
    (post_global_rng_state_unchanged, GlobalRngAdvanced),
]


def _js(x):
    """small JSON-able rendering"""
    try:
        import numpy as np

        if isinstance(x, np.generic):
            return x.item()
        if isinstance(x, np.ndarray):
            return x.tolist()
    except Exception:
        pass
    if isinstance(x, (int, float, str, bool, type(None))):
        return x
    return repr(x)


def _call_summary(o):
    return {"nA": o.nA, "nB": o.nB, "apA": o.iA, "apB": o.iB, "anchorA": o.kA, "anchorB": o.kB,
            "cls": o.cls.__name__, "options": {k: _js(v) for k, v in o.opts.items()},
            "cos_v2_minus_v1": o.cosj}


def _make_contracted_join(func):
    import functools

    @functools.wraps(func)
    def contracted_join(cls, *args, **kwargs):
        if MON.depth:  # re-entrant call from inside join: the outer evaluation covers it
            return func(cls, *args, **kwargs)
        MON.depth += 1
        try:
            MON.count("contract.join.calls")
            try:
                MON.calllog.append(args[0].get_atom(args[2]).label)
            except Exception:
                MON.calllog.append("<unresolvable>")
            del MON.calllog[:-64]
            o = _observe_entry(cls, args, kwargs)
            if o is None:
                MON.count("contract.join.precondition-unmet")
            try:
                result = func(cls, *args, **kwargs)
            except Exception as e:
                if o is not None:
                    MON.count("contract.join.evaluations")
                    MON.fail(JoinRaised("join-returns-on-valid-input",
                                        {"error": repr(e)[:300], "call": _call_summary(o)},
                                        key=f"join:raises-on-valid-input:{type(e).__name__}"))
                raise
            if o is not None:
                _observe_exit(o, result)
                MON.count("contract.join.evaluations")
                MON.count("contract.join.route." + MON.route)
                if o.antipar:
                    MON.count("contract.join.antiparallel-rotation")
                if getattr(o, "band", False):
                    MON.count("contract.join.ill-conditioned-band")
                for cond, err in POSTCONDITIONS:
                    name = cond.__name__[5:]
                    try:
                        w = cond(o)
                    except Exception as e:  # the oracle must never take the workload down silently
                        MON.fail(JoinContractError(name, {"oracle_error": repr(e)[:300]}, key="ORACLE-ERROR:" + name))
                        continue
                    if w is SKIP:
                        MON.count("contract.join.skipped." + name)
                        continue
                    MON.count("contract.join.cond." + name)
                    if w is not None:
                        key = w.pop("_key", None)
                        w["call"] = _call_summary(o)
                        MON.fail(err(name, w, key=key))
                if getattr(o, "centres_checked", 0):
                    MON.count("contract.join.handedness-centres", o.centres_checked)
                if getattr(o, "global_handedness", False):
                    MON.count("contract.join.handedness-global")
                if getattr(o, "pcharge_informative", False):
                    MON.count("contract.join.partial-charges-nonzero-checked")
                if o.A is o.B:
                    MON.count("contract.join.same-object-on-both-sides")
                elif o.nA and o.nB and o.A.atoms[0] is o.B.atoms[0]:
                    MON.count("contract.join.fragments-share-atom-objects")
                MON.last = o
            return result
        finally:
            MON.depth -= 1

    contracted_join.__vmon_contract__ = True
    return contracted_join


def _install_everywhere(orig, wrapper, prefix="molli"):
    n = 0
    for name, mod in list(sys.modules.items()):
        if mod is None or not (name == prefix or name.startswith(prefix + ".")):
            continue
        for attr, val in list(vars(mod).items()):
            if val is orig:
                setattr(mod, attr, wrapper)
                n += 1
    return n


def install_contract():
    """put the contract on every `join` in the class tree of Structure and observers on the two anchored helpers"""
    if MON.installed:
        return
    import functools
    import numpy as np
    import molli  # noqa
    from molli.chem import Structure
    import molli.math.rotation as mrot
    import molli.math.distance as mdist

    def walk(c):
        yield c
        for s in c.__subclasses__():
            yield from walk(s)

    for c in walk(Structure):
        raw = c.__dict__.get("join")
        if raw is None:
            continue
        func = raw.__func__ if isinstance(raw, (classmethod, staticmethod)) else raw
        if getattr(func, "__vmon_contract__", False):
            continue
        setattr(c, "join", classmethod(_make_contracted_join(func)))
        MON.routes.append(c.__name__)

    rot = mrot.rotation_matrix_from_vectors

    @functools.wraps(rot)
    def rot_observer(*a, **k):
        MON.count("reach.rotation_matrix_from_vectors")
        try:
            v1 = np.asarray(a[0] if len(a) > 0 else k["_v1"], dtype=float)
            v2 = np.asarray(a[1] if len(a) > 1 else k["_v2"], dtype=float)
            tol = a[2] if len(a) > 2 else k.get("tol", 1.0e-8)
            c = float(np.dot(v1 / np.linalg.norm(v1), v2 / np.linalg.norm(v2)))
            if c <= -1 + tol:
                MON.count("reach.rotation.antiparallel-branch")
                MON.antipar_calls += 1
        except Exception:
            pass
        return rot(*a, **k)

    _install_everywhere(rot, rot_observer)

    opt = getattr(mdist, "_optimize_rotation", None)
    if opt is not None:
        @functools.wraps(opt)
        def opt_observer(*a, **k):
            MON.count("reach.optimize_rotation")
            return opt(*a, **k)

        _install_everywhere(opt, opt_observer)
    MON.installed = True


# ---------------------------------------------------------------------------------------------------------------
# workload: fragments

ELEMS = ("C", "C", "C", "N", "O", "S", "P", "Si", "B", "F", "Cl", "Br", "H", "I", "Fe", "Se")
GRID = 65536.0


def _runit(rng):
    import numpy as np

    while True:
        v = np.array([rng.gauss(0, 1) for _ in range(3)])
        n = np.linalg.norm(v)
        if n > 1e-3:
            return v / n


def _perp(rng, b):
    import numpy as np

    while True:
        t = _runit(rng)
        n = t - b * np.dot(t, b)
        if np.linalg.norm(n) > 0.2:
            return n / np.linalg.norm(n)


def rot_align(a, b, rng):
    """proper rotation M (row convention, x @ M) with unit(a) @ M == unit(b): two Householder reflections"""
    import numpy as np

    a, b = _unit(np.asarray(a, float)), _unit(np.asarray(b, float))
    d = a - b
    n = _perp(rng, b)
    H2 = np.eye(3) - 2 * np.outer(n, n)
    if np.linalg.norm(d) < 1e-12:
        m = _perp(rng, b)
        H1 = np.eye(3) - 2 * np.outer(m, m)
    else:
        H1 = np.eye(3) - 2 * np.outer(d, d) / np.dot(d, d)
    return H1 @ H2


def frag_spec(rng, n_real, n_ap=1, ring=False, prefix="a", ap_labels=("AP",), name="frag", rich=True):
    """a fragment as plain data: atoms (field dicts), coords, bonds (i, j, field dict), ap indices, anchors"""
    import numpy as np
    from vmon import gen
    from molli.chem import AtomType, AtomStereo, AtomGeom, BondType, BondStereo, Element

    m = gen.tree3d(rng, n_real, elements=ELEMS, ring=ring)
    n = m.n_atoms
    X = np.array(m.coords, dtype=float).reshape(n, 3)
    atoms = []
    for i, a in enumerate(m.atoms):
        f = {"element": a.element, "label": f"{prefix}{i}"}
        if rich and rng.random() < 0.6:
            f.update(isotope=rng.choice([None, None, 2, 13]),
                     atype=rng.choice([AtomType.Regular, AtomType.Aromatic, AtomType.sp3, AtomType.sp2, AtomType.Dummy]),
                     stereo=rng.choice([AtomStereo.Unknown, AtomStereo.R, AtomStereo.S, AtomStereo.NotStereogenic]),
                     geom=rng.choice([AtomGeom.Unknown, AtomGeom.R4_Tetrahedral, AtomGeom.R3_Planar]),
                     formal_charge=rng.choice([0, 0, 1, -1]), formal_spin=rng.choice([0, 0, 1]),
                     attrib=rng.choice([{}, {"k": 1}, {"tag": "x", "v": [1.5, 2]}]))
        atoms.append(f)
    bonds = []
    for b in m.bonds:
        i, j = m.atoms.index(b.a1), m.atoms.index(b.a2)
        if rng.random() < 0.5:
            i, j = j, i
        kw = {"btype": b.btype}
        if rich and rng.random() < 0.5:
            kw.update(label=rng.choice([None, "b", "bond x"]), stereo=rng.choice([BondStereo.Unknown, BondStereo.E, BondStereo.Z]),
                      f_order=rng.choice([1.0, 1.5, 2.0]), attrib=rng.choice([{}, {"w": 2}]))
        bonds.append((i, j, kw))
    aps, anchors = [], []
    pts = [x for x in X]
    for t in range(n_ap):
        for attempt in range(60):
            k = rng.randrange(n)
            p = X[k] + _runit(rng) * rng.uniform(0.8, 1.6)
            if all(np.linalg.norm(p - q) > 0.6 for q in pts) or attempt == 59:
                break
        pts.append(p)
        atoms.append({"element": Element.Unknown, "label": ap_labels[t], "atype": AtomType.AttachmentPoint})
        ij = (k, n + t) if rng.random() < 0.5 else (n + t, k)
        bonds.append((ij[0], ij[1], {"btype": BondType.Single}))
        aps.append(n + t)
        anchors.append(k)
    X = np.array(pts)
    # attachment points may stand at any index: insert them at random places
    order = list(range(n))
    for t in range(n_ap):
        order.insert(rng.randrange(len(order) + 1), n + t)
    new_of = {old: new for new, old in enumerate(order)}
    rng.shuffle(bonds)
    return {
        "name": name,
        "atoms": [atoms[o] for o in order],
        "coords": X[order],
        "bonds": [(new_of[i], new_of[j], kw) for i, j, kw in bonds],
        "aps": [new_of[a] for a in aps],
        "anchors": [new_of[a] for a in anchors],
        "charge": rng.choice([0, 0, 1, -1, 2, -2]),
        "mult": rng.choice([1, 1, 2, 3]),
    }


def build(spec, cls, rng=None):
    import numpy as np
    from molli.chem import Atom, Molecule

    atoms = [Atom(**f) for f in spec["atoms"]]
    m = cls(atoms, name=spec["name"], charge=spec["charge"], mult=spec["mult"], coords=np.array(spec["coords"]))
    for i, j, kw in spec["bonds"]:
        m.connect(i, j, **{k: (dict(v) if isinstance(v, dict) else v) for k, v in kw.items()})
    if rng is not None and isinstance(m, Molecule) and rng.random() < 0.6:
        # distinct values: any permutation, shift or mix-up of the two fragments' rows shows in the product
        m.atomic_charges = np.array([round(rng.uniform(-1.0, 1.0), 4) + 0.0001 * (i + 1) for i, _ in enumerate(atoms)])
    return m


def pick_join(rng, spec, ordinary=False):
    """choose the atom join will be asked to join at.  join is specified for 'individual atoms' with exactly one bond:
    that is an atom of type AttachmentPoint or (ordinary=True) any other one-bond atom (a hydrogen / halogen to be
    replaced), whatever attachment points the fragment carries elsewhere.  Returns False if the spec offers none."""
    deg, nb = {}, {}
    for i, j, _ in spec["bonds"]:
        for x, y in ((i, j), (j, i)):
            deg[x] = deg.get(x, 0) + 1
            nb[x] = y
    aps = set(spec["aps"])
    leaves = [i for i in range(len(spec["atoms"])) if deg.get(i) == 1 and i not in aps]
    spec["joinable"] = sorted(set(leaves) | aps)
    if ordinary and leaves:
        i = rng.choice(leaves)
    elif spec["aps"]:
        i = rng.choice(spec["aps"])
    elif leaves:
        i = rng.choice(leaves)
    else:
        return False
    spec["join"], spec["janchor"] = i, nb[i]
    spec["nb1"] = {i: nb[i] for i in spec["joinable"]}
    return True


def pose(rng, X, spread=15.0):
    import numpy as np
    from vmon import gen

    R = gen.random_rotation(rng)
    t = np.array([rng.uniform(-spread, spread) for _ in range(3)])
    return X @ R + t


def has_centre3(spec, exclude=()):
    deg = {}
    for i, j, _ in spec["bonds"]:
        if i in exclude or j in exclude:
            continue
        deg[i] = deg.get(i, 0) + 1
        deg[j] = deg.get(j, 0) + 1
    return any(v >= 3 for v in deg.values())


CATEGORIES = (["general"] * 8 + ["parallel-exact"] * 3 + ["antiparallel-exact"] * 2 + ["parallel-near"] * 2 +
              ["antiparallel-near"] * 1 + ["axis"] * 2 + ["switch"] * 1 + ["general-small"] * 1)


def make_pair(rng, cat):
    """two fragment specs posed according to the category of their attachment vectors v1 (A) and v2 (B)"""
    import numpy as np

    def size():
        r = rng.random()
        if cat == "general-small" or r < 0.12:
            return rng.randrange(1, 3)
        return rng.randrange(2, 15)

    def one(prefix, name):
        # 60 %: the classic fragment (one atom of type AttachmentPoint, joined there); otherwise 0..3 atoms of that
        # type and the join atom either one of them or an ordinary one-bond atom
        for _ in range(50):
            if rng.random() < 0.6:
                n_ap, ordinary = 1, False
            else:
                n_ap, ordinary = rng.choice([0, 0, 1, 2, 2, 3]), rng.random() < 0.6
            n_real = size()
            if n_ap == 0:
                n_real = max(2, n_real)
            sp = frag_spec(rng, n_real, n_ap=n_ap, ring=rng.random() < 0.35, prefix=prefix, name=name,
                           ap_labels=("AP", "AP2", "AP3"))
            if pick_join(rng, sp, ordinary):
                return sp
        raise RuntimeError("no joinable fragment generated")

    sa, sb = one("a", "A"), one("b", "B")
    XA, XB = pose(rng, sa["coords"]), pose(rng, sb["coords"])
    iA, kA, iB, kB = sa["join"], sa["janchor"], sb["join"], sb["janchor"]
    sub = cat
    if cat not in ("general", "general-small"):
        q = lambda X: np.round(X * GRID) / GRID  # noqa: E731  (differences and small multiples stay exact)
        if cat == "axis":
            e = np.zeros(3)
            e[rng.randrange(3)] = rng.choice([1.0, -1.0])
            M = rot_align(XA[iA] - XA[kA], e, rng)
            XA = q((XA - XA[kA]) @ M + XA[kA])
            XA[iA] = XA[kA] + rng.choice([1.0, 1.25, 0.875, 1.5]) * e
        else:
            XA = q(XA)
        v1 = XA[iA] - XA[kA]
        lam = rng.choice([1.0, 0.5, 2.0, 0.75])
        if cat == "axis":
            how = rng.choice(["parallel", "antiparallel", "perpendicular"])
            sub = "axis-" + how
            if how == "perpendicular":
                e2 = np.zeros(3)
                e2[(int(np.argmax(np.abs(v1))) + rng.choice([1, 2])) % 3] = rng.choice([1.0, -1.0])
                target = e2 * np.linalg.norm(v1)
            else:
                target = v1 if how == "parallel" else -v1
        elif cat.startswith("parallel") or cat == "switch":
            target = v1
        else:
            target = -v1
        M = rot_align(XB[iB] - XB[kB], target, rng)
        XB = q((XB - XB[kB]) @ M + XB[kB])
        XB[iB] = XB[kB] + lam * target  # exact: v2 == lam * target bit for bit
        if cat.endswith("near"):
            L = float(np.linalg.norm(lam * target))
            XB[iB] = XB[iB] + _perp(rng, _unit(target)) * (1e-7 * L * rng.uniform(0.05, 1.0))
        if cat == "switch":
            L = float(np.linalg.norm(lam * target))
            th = math.sqrt(2e-6) * rng.choice([rng.uniform(0.8, 1.0), rng.uniform(1.0, 1.5), rng.uniform(0.99, 1.01)])
            XB[iB] = XB[kB] + L * (math.cos(th) * _unit(target) + math.sin(th) * _perp(rng, _unit(target)))
    sa["coords"], sb["coords"] = XA, XB
    return sa, sb, sub


def make_params(rng):
    from molli.chem import BondType, BondStereo

    p = {}
    r = rng.random()
    if r < 0.4:
        pass
    elif r < 0.5:
        p["dist"] = None
    elif r < 0.8:
        p["dist"] = rng.choice([0.9, 2.5, round(rng.uniform(0.9, 2.5), 3), rng.uniform(0.9, 2.5)])
    elif r < 0.9:
        # "the requested length" has no chemical bounds in the statement: short and long bonds
        p["dist"] = rng.choice([rng.uniform(0.3, 0.9), rng.uniform(2.5, 4.0), rng.uniform(4.0, 9.0), 3.0, 3.2, 5.0, 0.5])
    else:
        # ... and no type beyond "a number": Python int, numpy scalars
        import numpy as np
        p["dist"] = rng.choice([1, 2, 3, np.float32(1.25), np.float32(rng.uniform(0.9, 2.5)), np.float64(1.75),
                                np.float64(rng.uniform(0.5, 4.0)), np.int64(2), np.float16(1.5), 4])
    r = rng.random()
    if r < 0.45:
        p["optimize_rotation"] = rng.choice([True, True, 1, 12])
    elif r < 0.6:
        p["optimize_rotation"] = False
    r = rng.random()
    if r < 0.25:
        p["charge"] = 0
    elif r < 0.45:
        p["charge"] = rng.choice([1, -1, 2, -2, 3])
    elif r < 0.55:
        p["charge"] = None
    r = rng.random()
    if r < 0.08:
        p["mult"] = 0
    elif r < 0.35:
        p["mult"] = rng.choice([1, 2, 3, 4])
    elif r < 0.45:
        p["mult"] = None
    if rng.random() < 0.4:
        p["btype"] = rng.choice([BondType.Single, BondType.Double, BondType.Triple, BondType.Aromatic])
    if rng.random() < 0.2:
        p["bstereo"] = rng.choice([BondStereo.Unknown, BondStereo.E, BondStereo.Z])
    if rng.random() < 0.2:
        p["bforder"] = rng.choice([1.0, 1.5, 2.0])
    if rng.random() < 0.3:
        p["name"] = rng.choice(["product", "p-1"])
    return p


def _report(ctx, case, failures, seen, **extra):
    for e in failures:
        k = e.key
        if k in seen:
            continue
        seen.add(k)
        ctx.violation(k, case=case, condition=e.condition, error=type(e).__name__, witness=_jsd(e.detail), **extra)


def _jsd(d):
    try:
        return json.loads(json.dumps(d, default=_js))
    except Exception:
        return repr(d)[:500]


def _flush_counts(ctx):
    for k, v in MON.counts.items():
        ctx.count(k, v)
    MON.counts = {}


# ---------------------------------------------------------------------------------------------------------------
# workload: direct joins

EDITS = ("repose", "repose-in-place", "move-join-atom", "flex", "anchor-element", "charge-mult", "relabel",
         "partial-charges")


def edit_fragment(rng, F, i, k, what):
    """edit fragment F in place through public accessors, the way a user re-poses / re-types a substituent between two
    joins; i = join atom, k = its neighbour.  True if the edit was applied."""
    import numpy as np
    from vmon import gen
    from molli.chem import Element

    X = np.array(F.coords, dtype=float)
    if what in ("repose", "repose-in-place"):
        X = X @ gen.random_rotation(rng) + np.array([rng.uniform(-8, 8) for _ in range(3)])
        if what == "repose":
            F.coords = X
        else:
            F.coords[...] = X          # written through the array the accessor hands out
            if not np.array_equal(np.asarray(F.coords), X):
                F.coords = X
    elif what == "move-join-atom":     # the attachment direction alone changes
        X[i] = X[k] + _runit(rng) * rng.uniform(0.8, 1.6)
        F.coords = X
    elif what == "flex":               # a new conformation
        F.coords = X + np.array([[rng.uniform(-0.08, 0.08) for _ in range(3)] for _ in range(len(X))])
    elif what == "anchor-element":     # the default bond length changes
        F.atoms[k].element = rng.choice([Element.N, Element.S, Element.Si, Element.Br, Element.C, Element.H, Element.Fe])
    elif what == "charge-mult":
        F.charge = F.charge + rng.choice([1, -1])
        F.mult = rng.choice([1, 2, 3])
    elif what == "relabel":
        for n, a in enumerate(F.atoms):
            if n != i and rng.random() < 0.5:
                a.label = f"{a.label}~"
    elif what == "partial-charges":
        if getattr(F, "atomic_charges", None) is None:
            return False
        F.atomic_charges = np.array([round(rng.uniform(-1, 1), 4) for _ in range(len(X))])
    return True


def _ref(F, form, i, spec_label):
    return {"atom": F.atoms[i], "index": i, "label": spec_label}[form]


def execute_case(ctx, case, rng, jcls, A, B, iA, iB, kA, kB, formA, formB, params, sub, pj, alt=None):
    """one case of the direct route: three executions under different global generator states, then a join of the SAME
    objects after in-place edits (compared with the join of fresh copies), then edits of the product"""
    import numpy as np
    from molli.chem import Molecule, Structure
    from vmon.snap import snap, diff, mech_field

    labA, labB = A.atoms[iA].label, B.atoms[iB].label
    refA, refB = _ref(A, formA, iA, labA), _ref(B, formB, iB, labB)
    s1, s2, k = rng.randrange(2**31), rng.randrange(2**31), rng.randrange(1, 40)
    seen = set()
    prods = []
    antipar = False
    last = None
    for r, (sd, draws) in enumerate([(s1, 0), (s2, 0), (s1, k)]):
        np.random.seed(sd)
        if draws:
            np.random.rand(draws)
            np.random.normal(size=3)
        try:
            R = jcls.join(A, B, refA, refB, **params)
        except Exception as e:  # noqa
            fails = MON.drain()
            _report(ctx, case, fails, seen, replica=r, vectors=sub)
            if not fails:
                ctx.violation(f"join:raises:{type(e).__name__}", case=case, error=repr(e)[:300], vectors=sub)
            prods.append(None)
            continue
        if MON.last is not None and MON.last.R is R:
            antipar = antipar or bool(MON.last.antipar)
        _report(ctx, case, MON.drain(), seen, replica=r, vectors=sub)
        prods.append(snap(R))
        last = R
    if all(p is not None for p in prods):
        scale = max(1.0, float(np.abs(prods[0]["coords"]).max()) if prods[0]["coords"].size else 1.0)
        for r in (1, 2):
            ctx.count("replicas.compared")
            d = diff(prods[0], prods[r], rtol=0.0, atol=1e-9 * scale)
            if d:
                # the mechanism is the known one only if the contract saw this very case consume the global
                # generator inside the rotation's antiparallel branch; any other dependence gets its own key
                rng_seen = "antiparallel-join-uses-global-rng" in seen
                key = "antiparallel-join-uses-global-rng" if rng_seen else "join:result-depends-on-hidden-state"
                if (key + "/replicas") not in seen:
                    seen.add(key + "/replicas")
                    ctx.count("replicas.differ")
                    dev = float(np.abs(prods[0]["coords"] - prods[r]["coords"]).max()) \
                        if prods[0]["coords"].shape == prods[r]["coords"].shape else None
                    ctx.violation(key, case=case, symptom="two identical calls give different products",
                                  replica=r, first_difference=[str(x) for x in d[0]], max_coord_difference=dev,
                                  vectors=sub, params=pj, antiparallel_rotation_branch=antipar)

    # --- the same objects again after the caller edited them in place: nothing remembered from the earlier joins
    # (attachment vectors, anchors, lengths, charges, labels) may leak into this one.  The contract judges the call
    # against snapshots taken at its entry; in addition the product must equal that of fresh copies of the fragments.
    clean_before = not seen
    applied = []
    shared = A is B or (len(A.atoms) and len(B.atoms) and A.atoms[0] is B.atoms[0])
    for _ in range(rng.choice([1, 1, 2, 3])):
        what = rng.choice(EDITS)
        side = rng.choice(["A", "B", "B"])
        F, i, kk = (A, iA, kA) if side == "A" else (B, iB, kB)
        try:
            ok = edit_fragment(rng, F, i, kk, what)
        except Exception:  # this container does not offer the edit (e.g. a conformer's charge)
            ok = False
            ctx.count("rejoin.edit-not-offered")
        if ok:
            applied.append(f"{what}:{side}")
            ctx.count("rejoin.edit." + what)
    if alt is not None and rng.random() < 0.5:
        # ... or asked for another of its joinable atoms
        side, j2, k2 = alt
        if side == "A":
            iA, kA = j2, k2
        else:
            iB, kB = j2, k2
        applied.append("other-join-atom:" + side)
        ctx.count("rejoin.edit.other-join-atom")
    if applied:
        labA, labB = A.atoms[iA].label, B.atoms[iB].label
        refA, refB = _ref(A, formA, iA, labA), _ref(B, formB, iB, labB)
        ctx.count("rejoin.calls")
        np.random.seed(s1)
        R2 = None
        try:
            R2 = jcls.join(A, B, refA, refB, **params)
        except Exception as e:  # noqa
            fails = MON.drain()
            _report(ctx, case, fails, seen, phase="after-in-place-edit", edits=applied, vectors=sub)
            if not fails:
                # the edited fragments may have left join's domain only through "move-join-atom"/"flex", which keep
                # it; anything else raising here is reported
                ctx.violation(f"join:raises-after-in-place-edit:{type(e).__name__}", case=case, error=repr(e)[:300],
                              edits=applied)
        else:
            fails = MON.drain()
            _report(ctx, case, fails, seen, phase="after-in-place-edit", edits=applied, vectors=sub)
            if fails and clean_before and "stale" not in seen:
                seen.add("stale")
                ctx.violation("join:wrong-only-after-fragment-was-edited-in-place", case=case, edits=applied,
                              contract_keys=sorted({e.key for e in fails}),
                              symptom="the first joins of these objects met the contract, the join after the edit does not")
            last = R2
        if R2 is not None and not shared and type(A) in (Molecule, Structure) and type(B) in (Molecule, Structure):
            A2, B2 = type(A)(A), type(B)(B)
            if not diff(snap(A2), snap(A)) and not diff(snap(B2), snap(B)):
                rA, rB = _ref(A2, formA, iA, labA), _ref(B2, formB, iB, labB)
                np.random.seed(s1)
                try:
                    R3 = jcls.join(A2, B2, rA, rB, **params)
                except Exception:  # noqa
                    R3 = None
                _report(ctx, case, MON.drain(), seen, phase="fresh-copies-of-edited-fragments", edits=applied)
                if R3 is not None:
                    ctx.count("rejoin.compared-with-fresh-copies")
                    p2, p3 = snap(R2), snap(R3)
                    scale = max(1.0, float(np.abs(p3["coords"]).max()) if p3["coords"].size else 1.0)
                    d = diff(p2, p3, rtol=0.0, atol=1e-9 * scale)
                    if d and "history" not in seen:
                        seen.add("history")
                        ctx.violation("join:result-depends-on-history-of-the-fragment-objects", case=case, edits=applied,
                                      first_difference=[str(x) for x in d[0]],
                                      symptom="objects joined before and then edited give another product than fresh "
                                              "copies with the same content")
            else:
                ctx.count("rejoin.copy-not-faithful-skipped")

    # --- the product is a NEW molecule: editing it must not reach A or B
    if last is not None:
        b0A, b0B = snap(A), snap(B)
        try:
            for a in last.atoms:
                a.attrib["_vmon_edit"] = 1
                a.label = "edited"
                a.formal_charge = 7
            for b in last.bonds:
                b.attrib["_vmon_edit"] = 1
                b.f_order = 9.0
                b.label = "edited"
            c = last.coords
            c += 1.0
            q = getattr(last, "atomic_charges", None)
            if q is not None:
                q += 0.5
            if isinstance(getattr(last, "attrib", None), dict):
                last.attrib["_vmon_edit"] = 1
            last.charge = last.charge + 1
        except Exception:  # noqa
            ctx.count("product-edit.not-offered")
        ctx.count("product-edit.inputs-compared")
        for side, b0, F in (("A", b0A, A), ("B", b0B, B)):
            d = diff(b0, snap(F))
            if d:
                key = "join:product-shares-mutable-state-with-input:" + mech_field(d[0][0])
                if key not in seen:
                    seen.add(key)
                    ctx.violation(key, case=case, input=side, first_difference=[str(x) for x in d[0]],
                                  symptom="editing the product changed a fragment")


def run_join_chunk(spec, ctx):
    import numpy as np
    from molli.chem import Molecule, Structure
    from vmon.snap import snap, snap_hash

    MON.route = "direct"
    for j in range(spec["n"]):
        case = [spec["chunk"], j]
        if not ctx.want(case):
            continue
        rng = ctx.rng("join", *case)
        cat = CATEGORIES[(j + 3 * spec["chunk"]) % len(CATEGORIES)]
        sa, sb, sub = make_pair(rng, cat)
        params = make_params(rng)
        clsA = rng.choice([Molecule, Molecule, Molecule, Structure])
        clsB = rng.choice([Molecule, Molecule, Molecule, Structure])
        jcls = rng.choice([Molecule, Molecule, Structure])
        A, B = build(sa, clsA, rng), build(sb, clsB, rng)
        iA, iB = sa["join"], sb["join"]
        # the fragments' atoms may also be listed in another container (a constructor given atoms adopts them):
        # what the atoms then report as their parent / index must not matter to join
        lent = []
        for frag, ap in ((A, iA), (B, iB)):
            if rng.random() < 0.15:
                from molli.chem import Promolecule
                pick = [a for a in frag.atoms if a is frag.atoms[ap] or rng.random() < 0.5]
                rng.shuffle(pick)
                lent.append(Promolecule(pick))
                ctx.count("case.fragment-atoms-lent")
                if rng.random() < 0.3:
                    lent.pop()
        form = rng.choice(["atom", "index", "label"])
        form2 = rng.choice(["atom", "index", "label"])

        nA, nB = len(sa["atoms"]), len(sb["atoms"])
        nontrivial = nA >= 3 and nB >= 3 and has_centre3(sb, exclude=(iB,))
        pj = {k: _js(int(v) if hasattr(v, "value") else v) for k, v in params.items()}
        pj["dist_type"] = type(params.get("dist")).__name__
        dkey = (snap_hash(snap(A)), snap_hash(snap(B)), iA, iB, sorted(pj.items()), jcls.__name__)
        ctx.case(case, dkey=dkey, nontrivial=nontrivial,
                 sample=None if len(ctx.samples) >= 2 else {
                     "route": "direct", "vectors": sub, "nA": nA, "nB": nB, "apA": iA, "apB": iB, "params": pj,
                     "cls": jcls.__name__, "elementsA": [a["element"].name for a in sa["atoms"]][:8],
                     "typed_attachment_points": [len(sa["aps"]), len(sb["aps"])],
                     "join_atom_is_typed_attachment_point": [iA in sa["aps"], iB in sb["aps"]]})
        ctx.count("case.vectors." + ("axis" if sub.startswith("axis") else "general" if sub.startswith("general") else sub))
        if sub.startswith("axis"):
            ctx.count("case.vectors." + sub)
        for side, sp, i in (("A", sa, iA), ("B", sb, iB)):
            ctx.count(f"case.join-atom.{side}." + ("typed-attachment-point" if i in sp["aps"] else "ordinary-one-bond-atom"))
            ctx.count(f"case.typed-attachment-points.{side}.{len(sp['aps'])}")
            if i not in sp["aps"] and sp["aps"]:
                ctx.count(f"case.join-atom.{side}.ordinary-while-typed-attachment-point-elsewhere")
        count_params(ctx, params, sa["charge"] + sb["charge"])
        if nontrivial:
            ctx.count("case.nontrivial")
        # another joinable atom of one of the fragments, for the second phase
        alt = None
        for side, sp, i in rng.sample([("A", sa, iA), ("B", sb, iB)], 2):
            others = [x for x in sp["joinable"] if x != i]
            if others:
                x = rng.choice(others)
                alt = (side, x, sp["nb1"][x])
                break
        execute_case(ctx, case, rng, jcls, A, B, iA, iB, sa["janchor"], sb["janchor"], form, form2, params, sub, pj, alt)
        _flush_counts(ctx)


def count_params(ctx, params, qsum):
    d = params.get("dist")
    ctx.count("case.dist." + ("given" if d is not None else "default"))
    if d is not None:
        if not 0.9 <= float(d) <= 2.5:
            ctx.count("case.dist.outside-0.9-2.5")
        if float(d) > 3.0:
            ctx.count("case.dist.above-3")
        if type(d) is not float:
            ctx.count("case.dist.not-a-python-float")
    ctx.count("case.optimize_rotation." + ("on" if params.get("optimize_rotation") else "off"))
    if "charge" in params and params["charge"] == 0 and params["charge"] is not None:
        ctx.count("case.override.charge-zero")
        if qsum != 0:
            ctx.count("case.override.charge-zero-differs-from-sum")
    elif params.get("charge") is None:
        ctx.count("case.override.charge-none")
    else:
        ctx.count("case.override.charge-nonzero")
    if params.get("mult") is not None:
        ctx.count("case.override.mult-" + ("zero" if params["mult"] == 0 else "nonzero"))


# ---------------------------------------------------------------------------------------------------------------
# workload: the same structure on both sides of the join, and fragments that share their Atom objects

SELF_VARIANTS = ("same-object-same-atom", "same-object-other-atom", "conformers-same-atom", "conformers-other-atom",
                 "one-conformer-twice", "same-object-same-atom", "conformers-same-atom", "same-object-other-atom")


def run_self_chunk(spec, ctx):
    """join(A, A, x, x) (a dimer of one object), join(A, A, x, y) for a structure with two joinable atoms, and
    join(c_p, c_q, ...) for two conformers of one ensemble (their atom and bond objects are the same)"""
    import numpy as np
    from molli.chem import Molecule, Structure, ConformerEnsemble
    from vmon.snap import snap, snap_hash

    MON.route = "direct"
    for j in range(spec["n"]):
        case = [spec["chunk"], j]
        if not ctx.want(case):
            continue
        rng = ctx.rng("self", *case)
        variant = SELF_VARIANTS[(j + 3 * spec["chunk"]) % len(SELF_VARIANTS)]
        other = variant.endswith("other-atom")
        for _ in range(50):
            n_ap = rng.choice([2, 2, 3, 1]) if other else rng.choice([1, 1, 2, 0])
            sp = frag_spec(rng, max(2, rng.randrange(1, 12)), n_ap=n_ap, ring=rng.random() < 0.35, prefix="a", name="A",
                           ap_labels=("AP", "AP2", "AP3"))
            if not pick_join(rng, sp, ordinary=rng.random() < 0.3):
                continue
            iA = sp["join"]
            others = [x for x in sp["joinable"] if x != iA]
            if other and not others:
                continue
            break
        else:
            raise RuntimeError("no fragment with two joinable atoms generated")
        iB = rng.choice(others) if other else iA
        kA, kB = sp["nb1"][iA], sp["nb1"][iB]
        sp["coords"] = pose(rng, sp["coords"])
        params = make_params(rng)
        jcls = rng.choice([Molecule, Molecule, Structure])
        if variant.startswith("same-object"):
            A = B = build(sp, rng.choice([Molecule, Molecule, Structure]), rng)
        else:
            m = build(sp, Molecule, rng)
            nc = rng.choice([2, 2, 3])
            X0 = np.asarray(sp["coords"])
            XS = []
            for c in range(nc):
                X = pose(rng, X0)
                if rng.random() < 0.6:       # conformers differ internally, too
                    X = X + np.array([[rng.uniform(-0.1, 0.1) for _ in range(3)] for _ in range(len(X))])
                XS.append(X)
            if rng.random() < 0.2:
                XS[1] = XS[0].copy()         # two conformers with one and the same pose
            ens = ConformerEnsemble(m, n_conformers=nc, coords=np.array(XS))
            if rng.random() < 0.6:
                ens.atomic_charges = np.array([[round(rng.uniform(-1, 1), 4) for _ in range(len(X0))] for _ in range(nc)])
            p = rng.randrange(nc)
            q = p if variant == "one-conformer-twice" else rng.choice([x for x in range(nc) if x != p])
            A, B = ens[p], ens[q]
        form, form2 = rng.choice(["atom", "index", "label"]), rng.choice(["atom", "index", "label"])
        n = len(sp["atoms"])
        nontrivial = n >= 3 and has_centre3(sp, exclude=(iB,))
        pj = {k: _js(int(v) if hasattr(v, "value") else v) for k, v in params.items()}
        pj["dist_type"] = type(params.get("dist")).__name__
        dkey = (variant, snap_hash(snap(A)), snap_hash(snap(B)), iA, iB, sorted(pj.items()), jcls.__name__)
        ctx.case(case, dkey=dkey, nontrivial=nontrivial,
                 sample=None if len(ctx.samples) >= 2 else {
                     "route": "direct", "variant": variant, "n_atoms": n, "apA": iA, "apB": iB, "params": pj,
                     "cls": jcls.__name__, "input_cls": [type(A).__name__, type(B).__name__],
                     "same_object": A is B, "typed_attachment_points": len(sp["aps"])})
        ctx.count("case.self." + variant)
        ctx.count("case.self.same-structure-" + ("different-atoms" if other else "same-atom"))
        count_params(ctx, params, 2 * sp["charge"])
        if nontrivial:
            ctx.count("case.nontrivial")
        execute_case(ctx, case, rng, jcls, A, B, iA, iB, kA, kB, form, form2, params, "self:" + variant, pj)
        _flush_counts(ctx)

# ---------------------------------------------------------------------------------------------------------------
# workload: iterated joins through molli combine's _ml_assemble

def import_combine():
    import types
    import importlib
    import molli.external as ext

    name = "molli.external.openbabel"
    if name not in sys.modules:
        try:
            importlib.import_module(name)
        except BaseException:  # openbabel is not installed here; combine only uses it when --obopt is given
            stub = types.ModuleType(name)
            stub.__doc__ = "stand-in for the absent openbabel bindings (never called: obopt is None)"
            sys.modules[name] = stub
            setattr(ext, "openbabel", stub)
    return importlib.import_module("molli.scripts.combine")


def call_assemble(comb, core, aps, combos):
    out = comb._ml_assemble(core, tuple(aps), combos, hadd=False, obopt=None, separator="_")
    if isinstance(out, tuple) and len(out) == 3 and callable(out[0]):  # joblib.delayed: (func, args, kwargs)
        out = out[0](*out[1], **out[2])
    return out


def cli_indices(core, labels):
    """attachment indices exactly as molli_main computes them"""
    if labels:
        return [core.index_atom(a) for lbl in labels for a in core.yield_atoms_by_label(lbl)]
    return list(map(core.index_atom, core.attachment_points))


def _atom_key(f):
    from vmon.snap import atom_snap
    from molli.chem import Atom

    return json.dumps(atom_snap(Atom(**f)), sort_keys=True, default=repr)


def expected_assembly(core_spec, ap_list, sub_specs):
    """constitution of the intended product, by labels: Counter of atoms and Counter of bonds"""
    from collections import Counter
    from vmon.snap import norm

    atoms, bonds = Counter(), Counter()

    def bkey(la, lb, kw):
        lo, hi = sorted([la, lb])
        return json.dumps([lo, hi, kw.get("label"), int(kw.get("btype", 1)), int(kw.get("stereo", 0)),
                           float(kw.get("f_order", 1.0)), norm(kw.get("attrib", {}))], sort_keys=True)

    def add(spec, removed):
        lab = [a["label"] for a in spec["atoms"]]
        for i, a in enumerate(spec["atoms"]):
            if i not in removed:
                atoms[_atom_key(a)] += 1
        for i, j, kw in spec["bonds"]:
            if i not in removed and j not in removed:
                bonds[bkey(lab[i], lab[j], kw)] += 1

    add(core_spec, set(ap_list))
    clab = [a["label"] for a in core_spec["atoms"]]
    for ap, s in zip(ap_list, sub_specs):
        add(s, {s["aps"][0]})
        anchor = core_spec["anchors"][core_spec["aps"].index(ap)]
        bonds[bkey(clab[anchor], s["atoms"][s["anchors"][0]]["label"], {})] += 1
    return atoms, bonds


def observed_assembly(prod):
    from collections import Counter
    from vmon.snap import snap

    s = snap(prod)
    atoms = Counter(json.dumps(a, sort_keys=True, default=repr) for a in s["atoms"])
    lab = [a["label"] for a in s["atoms"]]
    bonds = Counter()
    for b in s["bonds"]:
        lo, hi = sorted([str(lab[b["a1"]]), str(lab[b["a2"]])])
        bonds[json.dumps([lo, hi, b["label"], b["btype"], b["stereo"], b["f_order"], b["attrib"]], sort_keys=True)] += 1
    return s, atoms, bonds


def run_assemble_chunk(spec, ctx):
    import numpy as np
    from molli.chem import Molecule, Element
    from vmon.snap import snap, diff, snap_hash

    comb = import_combine()
    MON.route = "assemble"
    for j in range(spec["n"]):
        case = [spec["chunk"], j]
        if not ctx.want(case):
            continue
        rng = ctx.rng("assemble", *case)
        k = rng.choice([2, 2, 3, 3, 4])
        labels = [f"L{t + 1}" for t in range(k)]
        cs = frag_spec(rng, rng.randrange(3, 13), n_ap=k, ring=rng.random() < 0.4, prefix="c", ap_labels=labels,
                       name="core")
        cs["coords"] = pose(rng, cs["coords"])
        core = build(cs, Molecule, rng)
        nsub = rng.randrange(2, 5)
        subs = []
        for t in range(nsub):
            s = frag_spec(rng, rng.randrange(1, 9), ring=rng.random() < 0.3, prefix=f"s{t}_", name=f"sub{t}")
            s["coords"] = pose(rng, s["coords"])
            subs.append((s, build(s, Molecule, rng)))

        mode = ["default", "labels", "labels", "labels-subset"][j % 4]
        if mode == "default":
            given = None
        elif mode == "labels":
            given = labels[:]
            rng.shuffle(given)
        else:
            given = rng.sample(labels, rng.randrange(1, k))
        aps = cli_indices(core, given)
        ascending = all(x < y for x, y in zip(aps, aps[1:]))
        combos, combo_specs = [], []
        for c in range(rng.choice([1, 1, 2])):
            if rng.random() < 0.15:
                pick = [rng.randrange(nsub)] * len(aps)  # "same" mode: one substituent on every position
            else:
                pick = [rng.randrange(nsub) for _ in aps]
            if tuple(pick) in [tuple(p) for p in combo_specs]:
                continue
            combo_specs.append(pick)
            combos.append(tuple(subs[p][1] for p in pick))

        nontrivial = len(cs["atoms"]) - k >= 3 and any(has_centre3(subs[p][0], exclude=(subs[p][0]["aps"][0],))
                                                       for pick in combo_specs for p in pick)
        dkey = (snap_hash(snap(core)), [snap_hash(snap(m)) for _, m in subs], aps, combo_specs)
        ctx.case(case, dkey=dkey, nontrivial=nontrivial,
                 sample=None if len(ctx.samples) >= 2 else {
                     "route": "assemble", "core_atoms": len(cs["atoms"]), "n_attachment_points": k,
                     "labels_given": given, "indices": aps, "ascending": ascending,
                     "substituent_sizes": [len(s["atoms"]) for s, _ in subs], "combos": combo_specs})
        ctx.count("assemble.order." + ("ascending" if ascending else "non-ascending"))
        ctx.count("assemble.mode." + mode)
        ctx.count("assemble.aps." + str(len(aps)))

        s_core0 = snap(core)
        s_subs0 = [snap(m) for _, m in subs]
        seen = set()
        outs = []
        # the atoms of the evolving core that join must be asked to join at, in order (labels are unique in the core)
        want_labels = [cs["atoms"][ap]["label"] for ap in aps] * len(combos)

        def classify(raised):
            """mechanism of a wrong assembly: was a join issued for an atom other than the listed attachment point?"""
            log = list(MON.calllog)
            wrong_atom = any(a != b for a, b in zip(log, want_labels))
            if wrong_atom:
                ctx.count("assemble.join-issued-for-wrong-atom")
                return ("combine-index-shift-assumes-ascending" if not ascending else "assemble:join-on-wrong-atom"), log
            return ("assemble:raises" if raised else "assemble:wrong-product"), log

        for r in range(2):
            np.random.seed(rng.randrange(2**31))
            if r:
                np.random.rand(rng.randrange(1, 20))
            del MON.calllog[:]
            try:
                res = call_assemble(comb, core, aps, combos)
            except Exception as e:  # noqa
                fails = MON.drain()
                _report(ctx, case, fails, seen, replica=r)
                badkey, log = classify(True)
                if badkey not in seen:
                    seen.add(badkey)
                    ctx.violation(badkey, case=case, symptom="raises", error=repr(e)[:300], indices=aps, ascending=ascending,
                                  labels_given=given, joins_wanted_at=want_labels, joins_issued_at=log)
                outs.append(None)
                continue
            _report(ctx, case, MON.drain(), seen, replica=r, indices=aps, ascending=ascending)
            outs.append(res)
            ctx.count("assemble.calls")
            badkey, log = classify(False)
            if len(res) != len(combos) and "assemble:result-count" not in seen:
                seen.add("assemble:result-count")
                ctx.violation("assemble:result-count", case=case, expected=len(combos), observed=len(res))
            for pick, prod in zip(combo_specs, res.values()):
                ctx.count("assemble.products")
                ea, eb = expected_assembly(cs, aps, [subs[p][0] for p in pick])
                sp, oa, ob = observed_assembly(prod)
                if (ea != oa or eb != ob) and badkey not in seen:
                    seen.add(badkey)
                    ctx.violation(badkey, case=case, symptom="silently builds a different molecule", indices=aps,
                                  ascending=ascending, labels_given=given, joins_wanted_at=want_labels,
                                  joins_issued_at=log,
                                  atoms_missing=sorted((ea - oa).elements())[:3], atoms_unexpected=sorted((oa - ea).elements())[:3],
                                  bonds_missing=sorted((eb - ob).elements())[:3], bonds_unexpected=sorted((ob - eb).elements())[:3])
                    continue
                if ea == oa and eb == ob:
                    ctx.count("assemble.constitution-ok")
                    g = assembly_geometry(cs, aps, [subs[p][0] for p in pick], sp)
                    if g is not None:
                        ctx.count("assemble.geometry-checked")
                        if g and "assemble:geometry" not in seen:
                            seen.add("assemble:geometry")
                            ctx.violation("assemble:geometry:" + g["what"], case=case, **g)
        # hidden state / inputs
        if outs[0] is not None and outs[1] is not None:
            ctx.count("replicas.compared")
            for (n0, p0), (n1, p1) in zip(outs[0].items(), outs[1].items()):
                d = diff(snap(p0), snap(p1), atol=1e-8)
                if d and "assemble:result-depends-on-hidden-state" not in seen:
                    seen.add("assemble:result-depends-on-hidden-state")
                    ctx.violation("assemble:result-depends-on-hidden-state", case=case, first_difference=[str(x) for x in d[0]])
        if diff(s_core0, snap(core)) or any(diff(a, snap(m)) for a, (_, m) in zip(s_subs0, subs)):
            ctx.violation("assemble:inputs-mutated", case=case)
        ctx.count("assemble.inputs-unchanged-checked")
        # the same core and substituent objects once more after the caller re-posed them in place (a combinatorial run
        # joins one substituent object thousands of times): every join inside is judged against its entry snapshots
        if j % 2 == 0 and outs[0] is not None:
            for _, m in subs:
                m.coords = pose(rng, np.array(m.coords, dtype=float), spread=6.0)
            core.coords = pose(rng, np.array(core.coords, dtype=float), spread=6.0)
            try:
                call_assemble(comb, core, aps, combos)
            except Exception as e:  # noqa
                fails = MON.drain()
                _report(ctx, case, fails, seen, phase="after-in-place-re-pose")
                if not fails:
                    ctx.violation(f"assemble:raises-after-fragments-were-re-posed:{type(e).__name__}", case=case,
                                  error=repr(e)[:300])
            else:
                fails = MON.drain()
                clean = not seen
                _report(ctx, case, fails, seen, phase="after-in-place-re-pose")
                if fails and clean:
                    ctx.violation("join:wrong-only-after-fragment-was-edited-in-place", case=case, route="assemble",
                                  contract_keys=sorted({e.key for e in fails}), edits=["repose:core", "repose:substituents"])
                ctx.count("assemble.calls-after-re-pose")
        if j % 3 == 1 and len(aps) <= 3:
            run_combine_cli(ctx, comb, case, rng, cs, core, subs, given, seen)
        _flush_counts(ctx)


def run_combine_cli(ctx, comb, case, rng, cs, core, subs, given, seen):
    """the same assembly through the real command (`molli combine`): libraries on disk, labels on the command line; the
    product stored as core_subA_subB has the k-th substituent at the k-th label named with -a (or, without -a, at the
    k-th attachment point of the core)"""
    import itertools
    import contextlib
    import io
    import molli as ml

    d = ctx.tmp / "cli"
    d.mkdir(exist_ok=True)
    pc, ps, po = d / "cores.mlib", d / "subs.mlib", d / "out.mlib"
    for path, items in ((pc, [core]), (ps, [m for _, m in subs[:3]])):
        lib = ml.MoleculeLibrary(path, readonly=False, overwrite=True)
        with lib.writing():
            for m in items:
                lib[m.name] = m
    argv = [str(pc), "-s", str(ps), "-o", str(po), "--overwrite", "-m", "permutns"]
    for lbl in given or []:
        argv += ["-a", lbl]
    if given:
        ap_list = [i for lbl in given for i, a in enumerate(cs["atoms"]) if a["label"] == lbl]
    else:
        ap_list = sorted(cs["aps"])          # the core's attachment points in atom order
    if len(ap_list) > len(subs[:3]):
        return
    ctx.count("combine-cli.runs")
    try:
        with contextlib.redirect_stdout(io.StringIO()), contextlib.redirect_stderr(io.StringIO()):
            comb.molli_main(argv)
    except BaseException as e:  # noqa
        _report(ctx, case, MON.drain(), seen)
        if "combine-cli:raises" not in seen:
            seen.add("combine-cli:raises")
            ctx.violation(f"combine-cli:raises:{type(e).__name__}", case=case, error=repr(e)[:300], labels_given=given)
        return
    _report(ctx, case, MON.drain(), seen, route="combine-cli")
    out = ml.MoleculeLibrary(po)
    with out.reading():
        prods = {k: out[k] for k in out.keys()}
    byname = {m.name: sp for sp, m in subs[:3]}
    names = list(byname)
    want = ["_".join([core.name] + list(p)) for p in itertools.permutations(names, len(ap_list))]
    if sorted(prods) != sorted(want):
        ctx.violation("combine-cli:product-names-differ", case=case, expected=sorted(want)[:6], observed=sorted(prods)[:6])
        return
    for perm in itertools.permutations(names, len(ap_list)):
        name = "_".join([core.name] + list(perm))
        ctx.count("combine-cli.products")
        ea, eb = expected_assembly(cs, ap_list, [byname[n] for n in perm])
        sp, oa, ob = observed_assembly(prods[name])
        # what was written to and read from the library went through float32: only the constitution is compared here
        if (ea != oa or eb != ob) and "combine-cli:wrong-product" not in seen:
            seen.add("combine-cli:wrong-product")
            ctx.violation("combine-cli:product-stored-under-a-name-is-another-molecule", case=case, product=name,
                          labels_given=given, attachment_atoms=ap_list,
                          bonds_missing=sorted((eb - ob).elements())[:3], bonds_unexpected=sorted((ob - eb).elements())[:3],
                          atoms_missing=sorted((ea - oa).elements())[:2])


def assembly_geometry(cs, aps, sub_specs, sp):
    """end-to-end geometry by labels (only when labels are unique in the product): rigid pieces, bond lengths"""
    import numpy as np
    from molli.chem import Element

    lab = [a["label"] for a in sp["atoms"]]
    if len(set(lab)) != len(lab):
        return None
    at = {l: i for i, l in enumerate(lab)}
    P = sp["coords"]
    scale = max(1.0, float(np.abs(P).max()), float(np.abs(cs["coords"]).max()))
    tol = 1e-7 * scale  # several joins in sequence, possibly through the ill-conditioned band

    def piece(spec, removed):
        idx = [i for i in range(len(spec["atoms"])) if i not in removed]
        X0 = np.asarray(spec["coords"])[idx]
        X1 = P[[at[spec["atoms"][i]["label"]] for i in idx]]
        return _maxdev(_dm(X0), _dm(X1))

    dev = piece(cs, set(aps))
    if not dev <= tol:
        return {"what": "core-distorted", "max_deviation": dev}
    for ap, s in zip(aps, sub_specs):
        dev = piece(s, {s["aps"][0]})
        if not dev <= tol:
            return {"what": "substituent-distorted", "max_deviation": dev}
        ka = cs["anchors"][cs["aps"].index(ap)]
        kb = s["anchors"][0]
        r = lambda f: (Element.get(f["element"]).cov_radius_1 or Element.C.cov_radius_1)  # noqa: E731
        exp = r(cs["atoms"][ka]) + r(s["atoms"][kb])
        w = float(np.linalg.norm(P[at[cs["atoms"][ka]["label"]]] - P[at[s["atoms"][kb]["label"]]]))
        if not abs(w - exp) <= tol:
            return {"what": "new-bond-length", "observed": w, "expected": exp}
        # direction: the substituent's anchor stands on the ray core anchor -> former attachment point
        C0 = np.asarray(cs["coords"])
        T0 = C0[ka] + _unit(C0[ap] - C0[ka]) * w
        idx = [i for i in range(len(cs["atoms"])) if i not in set(aps)]
        d0 = np.linalg.norm(C0[idx] - T0, axis=1)
        d1 = np.linalg.norm(P[[at[cs["atoms"][i]["label"]] for i in idx]] - P[at[s["atoms"][kb]["label"]]], axis=1)
        dev = _maxdev(d0, d1)
        if not dev <= 2 * tol:
            return {"what": "substituent-not-on-attachment-ray", "max_deviation": dev}
    return {}


# ---------------------------------------------------------------------------------------------------------------
# workload: `molli combine` on core libraries with several cores, repeated attachment labels, every mode, batching

CLI_MODES = ("permutns", "same", "combns", "combns_repl", "permutns", "permutns")


def run_cli_chunk(spec, ctx):
    """the real command on a core library of 2..3 cores whose attachment points stand at different atom indices (and,
    with -a, carry labels that may repeat inside a core).  Oracle: the set of product names the mode defines for every
    core, and for every stored product the constitution its name stands for: the k-th substituent named sits at the
    k-th attachment atom of THAT core (k-th atom matched by the -a labels in command-line order, atoms of one label in
    atom order; without -a the k-th atom of type AttachmentPoint)."""
    import contextlib
    import io
    import itertools
    from collections import Counter
    import molli as ml
    from molli.chem import Molecule

    comb = import_combine()
    MON.route = "assemble"
    for j in range(spec["n"]):
        case = [spec["chunk"], j]
        if not ctx.want(case):
            continue
        rng = ctx.rng("cli", *case)
        seen = set()
        k = rng.choice([1, 2, 2, 3])
        ncores = rng.choice([2, 2, 3])
        scheme = "unique" if k == 1 else rng.choice(["unique", "repeated", "repeated"])
        if scheme == "unique":
            labelset = [f"L{t + 1}" for t in range(k)]
        elif k == 2:
            labelset = ["R", "R"]
        else:
            labelset = rng.choice([["R", "R", "Q"], ["R", "R", "R"], ["Q", "R", "R"]])
        use_labels = scheme == "repeated" or rng.random() < 0.6
        if use_labels:
            distinct = sorted(set(labelset))
            rng.shuffle(distinct)
            given = distinct[:rng.randrange(1, len(distinct) + 1)]
        else:
            given = None
        cores = []
        for t in range(ncores):
            labs = labelset[:]
            rng.shuffle(labs)     # which label stands on which attachment point differs from core to core
            cs = frag_spec(rng, rng.randrange(2, 9), n_ap=k, ring=rng.random() < 0.3, prefix=f"c{t}x", ap_labels=labs,
                           name=f"core{t}")
            cs["coords"] = pose(rng, cs["coords"])
            if given:
                cs["ap_list"] = [i for lbl in given for i, a in enumerate(cs["atoms"]) if a["label"] == lbl]
            else:
                cs["ap_list"] = sorted(cs["aps"])
            cores.append((cs, build(cs, Molecule, rng)))
        npos = len(cores[0][0]["ap_list"])
        mode = CLI_MODES[(j + spec["chunk"]) % len(CLI_MODES)]
        nsub = max(2, npos) + rng.choice([0, 0, 1])
        subs = []
        for t in range(nsub):
            s = frag_spec(rng, rng.randrange(1, 7), ring=rng.random() < 0.3, prefix=f"s{t}x", name=f"sub{t}")
            s["coords"] = pose(rng, s["coords"])
            subs.append((s, build(s, Molecule, rng)))
        batch = rng.choice([None, None, 1, 2, 3])
        index_lists = [tuple(cs["ap_list"]) for cs, _ in cores]
        differ = len(set(index_lists)) > 1

        d = ctx.tmp / f"cli-{spec['chunk']}-{j}"
        d.mkdir(exist_ok=True)
        pc, ps, po = d / "cores.mlib", d / "subs.mlib", d / "out.mlib"
        for path, items in ((pc, [m for _, m in cores]), (ps, [m for _, m in subs])):
            lib = ml.MoleculeLibrary(path, readonly=False, overwrite=True)
            with lib.writing():
                for m in items:
                    lib[m.name] = m
        argv = [str(pc), "-s", str(ps), "-o", str(po), "--overwrite", "-m", mode]
        for lbl in given or []:
            argv += ["-a", lbl]
        if batch:
            argv += ["-b", str(batch)]
        ctx.case(case, dkey=("cli", [snap_hash_of(m) for _, m in cores], [snap_hash_of(m) for _, m in subs], given, mode, batch),
                 nontrivial=differ and any(len(cs["atoms"]) - k >= 3 for cs, _ in cores),
                 sample=None if len(ctx.samples) >= 1 else {
                     "route": "combine-cli", "cores": ncores, "attachment_points": k, "ap_labels": labelset,
                     "labels_given": given, "indices_per_core": [list(x) for x in index_lists], "mode": mode,
                     "substituents": nsub, "batchsize": batch})
        ctx.count("combine-cli.multi-core.runs")
        ctx.count("combine-cli.mode." + mode)
        if differ:
            ctx.count("combine-cli.multi-core.cores-with-different-attachment-indices")
        if given and any(labelset.count(g) > 1 for g in given):
            ctx.count("combine-cli.label-naming-several-atoms")
        if batch:
            ctx.count("combine-cli.batchsize-given")
        try:
            with contextlib.redirect_stdout(io.StringIO()), contextlib.redirect_stderr(io.StringIO()):
                comb.molli_main(argv)
        except BaseException as e:  # noqa
            _report(ctx, case, MON.drain(), seen, route="combine-cli")
            ctx.violation(f"combine-cli:raises:{type(e).__name__}", case=case, error=repr(e)[:300], labels_given=given,
                          mode=mode, indices_per_core=[list(x) for x in index_lists], ap_labels=labelset)
            _flush_counts(ctx)
            continue
        _report(ctx, case, MON.drain(), seen, route="combine-cli")
        out = ml.MoleculeLibrary(po)
        with out.reading():
            prods = {kk: out[kk] for kk in out.keys()}
        # every name the command could legitimately give a product, and what it stands for
        meaning = {}
        for ci, (cs, cm) in enumerate(cores):
            for tup in itertools.product(range(nsub), repeat=npos):
                meaning["_".join([cm.name] + [subs[t][1].name for t in tup])] = (ci, tup)
        want = Counter()
        for ci in range(ncores):
            if mode == "same":
                combos = [(t,) * npos for t in range(nsub)]
            elif mode == "permutns":
                combos = list(itertools.permutations(range(nsub), npos))
            elif mode == "combns":
                combos = list(itertools.combinations(range(nsub), npos))
            else:
                combos = list(itertools.combinations_with_replacement(range(nsub), npos))
            for tup in combos:
                # combinations: the order inside one product follows the order in which the library lists the
                # substituents, which is not part of the statement -> compared as a multiset per product
                want[(ci, tup if mode in ("same", "permutns") else tuple(sorted(tup)))] += 1
        got = Counter()
        unknown = []
        for name in prods:
            if name not in meaning:
                unknown.append(name)
                continue
            ci, tup = meaning[name]
            got[(ci, tup if mode in ("same", "permutns") else tuple(sorted(tup)))] += 1
        if unknown or got != want:
            miss, extra = want - got, got - want
            per_core_missing = Counter(ci for (ci, _), n in miss.items() for _ in range(n))
            whole_core = [ci for ci in range(ncores) if per_core_missing.get(ci) == sum(n for (c, _), n in want.items() if c == ci)]
            key = ("combine-cli:products-of-a-core-never-built" if whole_core and not extra and not unknown
                   else "combine-cli:product-names-differ")
            ctx.violation(key, case=case, mode=mode, labels_given=given, ap_labels=labelset,
                          missing=[f"core{ci}:{list(t)}" for ci, t in sorted(miss)][:6],
                          unexpected=[f"core{ci}:{list(t)}" for ci, t in sorted(extra)][:6] + unknown[:4],
                          n_expected=sum(want.values()), n_observed=len(prods))
        for name, prod in prods.items():
            if name not in meaning:
                continue
            ci, tup = meaning[name]
            cs = cores[ci][0]
            ctx.count("combine-cli.products")
            ctx.count("combine-cli.multi-core.products")
            ea, eb = expected_assembly(cs, cs["ap_list"], [subs[t][0] for t in tup])
            sp, oa, ob = observed_assembly(prod)
            # what was written to and read from the library went through float32: only the constitution is compared
            if (ea != oa or eb != ob) and "combine-cli:wrong-product" not in seen:
                seen.add("combine-cli:wrong-product")
                ctx.violation("combine-cli:product-stored-under-a-name-is-another-molecule", case=case, product=name,
                              labels_given=given, attachment_atoms=cs["ap_list"], core_position_in_library=ci,
                              indices_per_core=[list(x) for x in index_lists], mode=mode,
                              bonds_missing=sorted((eb - ob).elements())[:3], bonds_unexpected=sorted((ob - eb).elements())[:3],
                              atoms_missing=sorted((ea - oa).elements())[:2])
            elif ea == oa and eb == ob:
                ctx.count("combine-cli.constitution-ok")
                if ci > 0:
                    ctx.count("combine-cli.constitution-ok.second-or-later-core")
        _flush_counts(ctx)


def snap_hash_of(m):
    from vmon.snap import snap, snap_hash

    return snap_hash(snap(m))


# ---------------------------------------------------------------------------------------------------------------
# workload: the joins the CDXML parser issues for nested fragments of the bundled drawings

def run_cdxml_chunk(spec, ctx):
    import warnings
    from pathlib import Path
    import molli as ml

    MON.route = "cdxml"
    files = sorted(Path(ml.files.__file__).parent.glob("*.cdxml"))
    for fi, f in enumerate(files):
        with warnings.catch_warnings():
            warnings.simplefilter("ignore")
            try:
                cd = ml.CDXMLFile(f)
                keys = list(cd.keys())
            except Exception:  # whether the bundled files parse is C13's question
                ctx.count("cdxml.unreadable-file")
                continue
            for ki, k in enumerate(keys):
                case = [f.name, k]
                if not ctx.want(case):
                    continue
                before = MON.counts.get("contract.join.evaluations", 0)
                try:
                    cd[k]
                except Exception:
                    ctx.count("cdxml.fragment-raises")
                n = MON.counts.get("contract.join.evaluations", 0) - before
                fails = MON.drain()
                if n:
                    ctx.case(case, dkey=("cdxml", f.name, k), nontrivial=True,
                             sample={"route": "cdxml", "file": f.name, "label": k, "joins": n}
                             if not ctx.samples else None)
                    ctx.count("cdxml.fragments-with-nested-joins")
                _report(ctx, case, fails, set(), file=f.name, label=k)
    _flush_counts(ctx)


# ---------------------------------------------------------------------------------------------------------------

def run_chunk(spec, ctx):
    install_contract()
    from molli.chem import Structure, Molecule

    # every route reaches the contract
    for c in (Structure, Molecule):
        if not getattr(c.join.__func__, "__vmon_contract__", False):
            raise RuntimeError(f"{c.__name__}.join is not under contract")
    for r in sorted(set(MON.routes)):
        ctx.count("contract.installed-on." + r)
    if spec["kind"] == "join":
        run_join_chunk(spec, ctx)
    elif spec["kind"] == "self":
        run_self_chunk(spec, ctx)
    elif spec["kind"] == "cli":
        run_cli_chunk(spec, ctx)
    elif spec["kind"] == "cdxml":
        run_cdxml_chunk(spec, ctx)
    else:
        run_assemble_chunk(spec, ctx)
    _flush_counts(ctx)
