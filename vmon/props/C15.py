"""
C15 -- graph queries agree with graph theory.

Monitor shape: differential oracle.  Every graph is built as a real Connectivity / Molecule /
ConformerEnsemble through the public constructors, its graph is read back through the public
accessors (`atoms`, `bonds`, `Bond.a1/a2`) and every query of the property is executed and compared
with vmon/models/graphref.py (own BFS, bridges by edge removal, brute-force induced embeddings;
networkx on plain integer graphs only as a second opinion *between the references*).

 * yield_bfsd / yield_bfs         every start atom, undirected and with every possible direction
 * is_bond_in_ring                every bond                      (<=> the bond is not a bridge)
 * connected_atoms / bonds_with_atom / n_bonds_with_atom / bonded_valence     every atom
 * match / get_substr_indices     the set of returned maps == the set of induced embeddings

Besides the graph space (complete up to 6 vertices, sampled up to 40 atoms) the 'dyn' chunks vary the other dimensions:
object state (receiver and pattern edited between two calls, also with edits that keep the numbers of atoms and bonds),
receivers that are views (Conformer, Substructure) or whose atoms were handed to another object, several traversals alive
at once, the AtomLike forms (Atom, index, numpy integer, label, Element), caller-supplied matchers, large answers and
patterns in several pieces.
"""
from __future__ import annotations

import itertools
import math
import numbers

ID = "C15"
LEVEL = "exploration"
EXHAUSTIVE = False  # the <=6-vertex part is complete (see coverage.exhaustive_part), the 7..40-atom part is sampled
RULE = ("(a) every labelled simple graph on 1..6 vertices (33 867 graphs, complete enumeration by edge mask, seeded random "
        "elements/bond types/bond order/bond orientation), each as Connectivity, Molecule and ConformerEnsemble (quick tier: "
        "6-vertex graphs on one seeded class of the three): every start atom, every (start, neighbour) direction, every "
        "bond, every atom; (b) every connected labelled pattern on <=3 (quick) "
        "/ <=4 (thorough) vertices with every element assignment over {C,N,Unknown} (wildcard bonds) against every graph on "
        "<=4 vertices with every element assignment over {C,N} (thorough: plus every 4-vertex pattern against every graph "
        "on 4 vertices with four seeded assignments and every pattern against every graph on 5 vertices with one seeded "
        "assignment); (c) thorough: 200 000 distinct seeded graphs on 7 vertices; (d) seeded random graphs of 7..40 atoms "
        "(trees, ring systems, fused rings, disconnected, G(n,p)) with random elements, bond types, stereo, labels, isotopes; "
        "patterns = random connected induced subgraphs (1..8 atoms) with some elements set to Unknown, once with wildcard "
        "bonds (deciding) and once with the target's own atom/bond attributes copied (soundness + generating embedding). "
        "(e) object state and receivers ('dyn' cases, seeded graphs of 5..13 atoms, receiver class rotating): the same receiver "
        "and the same pattern objects are queried again after every edit of a seeded sequence - target edits (bond moved = "
        "delete+add, bond end re-pointed, element / bond type changed, connect_like with as many bonds, bond / atom added / "
        "deleted) alternating with pattern edits - all queries and match / get_substr_indices being decided against the "
        "graphs the objects expose at the time of the call; then on views (Conformer of the ensemble, made before the edits; "
        "Substructure on a seeded atom subset in seeded order) and on the receiver after its atoms were handed to another "
        "live object; traversals stepped in turn with ring / adjacency queries between the steps (2..7 generators alive on "
        "the same and on another object); match with a caller's node_match alone, edge_match alone (a laxer and a stricter "
        "predicate each) and both, decided against the reference under that predicate; star / complete-bipartite targets "
        "with 1000..2200 embeddings. AtomLike arguments rotate over Atom, index, numpy integer, label and Element (the last two "
        "where they name that atom). Patterns in several pieces: every one on <=3 vertices (quick: a rotating sixth per "
        "target) and random ones in (e). Targets carry every Atom field (geom, formal_spin, attrib included). "
        "A case = one graph (resp. one target graph with all its patterns / one edit sequence); non-trivial = the graph has "
        ">= 1 cycle or >= 2 components; distinct by (vertex count, edge set[, elements]).")
ASSUMPTIONS = [
    "the graph under test is the one the receiver exposes through .atoms/.bonds (Bond.a1/.a2 by identity); it is checked "
    "to be the simple graph that was requested, otherwise the chunk is inconclusive (construction is not this property)",
    "directed traversal: the set must be exactly the component of the neighbour in G minus the start; its distance labels "
    "are accepted if they are all 1 + distance-from-the-neighbour inside G minus start, or all the true distance from the "
    "start in G (the statement fixes only the set for the directed case)",
    "bonded_valence is compared with the sum of Bond.order over the incident bonds of the bond list (rel/abs 1e-9)",
    "matching is decided only with wildcard patterns (BondType.Unknown, BondStereo.Unknown, no bond label, no isotope, "
    "AtomStereo.Unknown) and targets without Element.Unknown atoms; with typed patterns only soundness and the presence "
    "of the generating embedding are required (bond types Single/Double/Triple/Aromatic/Amide/Unknown only)",
    "reference = vmon/models/graphref.py (stdlib only); networkx bridges / GraphMatcher on integer graphs must agree with "
    "it, a disagreement aborts the chunk as a harness error",
    "a label or an Element given as AtomLike names the first atom of the receiver's own atom list that carries it (the "
    "documented rule of get_atom); Bond.a1 / Bond.a2 / Bond.btype / Atom.element are assignable public fields",
    "caller-supplied matchers: the given predicate replaces the library's rule for atoms (resp. bonds) only; the other rule "
    "stays the library's, which is exercised there only in its wildcard form (plain pattern atoms resp. BondType.Unknown "
    "bonds); the predicates used are symmetric, so nothing is assumed on the order (target, pattern) of their arguments; "
    "they read the keys 'element', 'formal_charge', 'btype' of the attribute dictionaries (to_nxgraph: all fields)",
    "a pattern bond of BondType.Single (plain connect()) against bonds of higher order is NOT decided (typed patterns: "
    "soundness + generating embedding only) - the docstrings do not state the rule",
]
CHUNK_TIMEOUT = 900
TECHNIQUE = ("runtime monitoring: differential oracle (own BFS / bridge finder / brute-force induced embeddings, networkx as "
             "second opinion) over a complete enumeration of graphs on <=6 vertices plus seeded random graphs up to 40 atoms")
LEVEL_TEXT = ("Held on the executions produced. Reach: complete for all labelled graphs on <=6 vertices (every start, direction, "
              "bond, atom, three receiver classes) and for all small pattern/target pairs stated in the rule; sampled for "
              "7..40 atoms. Not a proof beyond those bounds.")
LEVEL_NOTE = ("Trusted: vmon/models/graphref.py (cross-checked against networkx and against a second own algorithm on every "
              "case), molli's public accessors atoms/bonds/a1/a2/order, and the constructors that build the receivers.")

KINDS = ("conn", "mol", "ens")
WILD = "Unknown"
N_EXH = {1: 1, 2: 2, 3: 8, 4: 64, 5: 1024, 6: 32768}
TYPED_OK = ("Unknown", "Single", "Double", "Triple", "Aromatic", "Amide")


def REQUIRED(tier):
    q = tier == "quick"
    return {
        # the complete part: every graph on <= 6 vertices was run
        "exh.graphs": sum(N_EXH.values()), "exh.graphs.n5": 1024, "exh.graphs.n6": 32768,
        # monitor evaluations (quick: 6-vertex graphs on one receiver class each; thorough: on all three + 7 vertices)
        "bfsd.undirected": 180000 if q else 1500000, "bfsd.directed": 450000 if q else 4000000,
        "bfs.undirected": 180000 if q else 1500000, "bfs.directed": 450000 if q else 4000000,
        "ring.in-ring": 180000 if q else 1500000, "ring.bridge": 35000 if q else 250000,
        "adjacency.atom": 180000 if q else 1500000,
        "match.pairs.exhaustive": 131760 if q else 131760 + 256 * 3078 + 1024 * 3198,
        "match.decide": 131760, "substr.decide": 131760, "match.one-matcher-keyword": 20000,
        "match.expected-nonempty": 40000, "match.expected-empty": 60000,
        "recv.conn": 10000, "recv.mol": 10000, "recv.ens": 10000,
        "substr.ens": 35000,
        "rand.graphs": 300 if q else 6000,
        "rand.match.decide": 3000 if q else 60000, "rand.match.typed": 1000 if q else 20000,
        "rand.typed.generating-present": 700 if q else 14000,
        "ref.nx.bridges": 30000, "ref.nx.dist": 30000, "ref.nx.embeddings": 25000, "ref.bt-vs-brute": 25000,
        **({} if q else {"exh7.graphs": 200000}),
        # AtomLike forms other than Atom / index (start or atom argument; direction argument)
        **{k: v * (1 if q else 5) for k, v in {
            "arg-form.label": 7000, "arg-form.Element": 15000, "arg-form.numpy-int": 14000,
            "arg-form.direction.label": 20000, "arg-form.direction.Element": 40000}.items()},
        # patterns in several pieces
        "match.pairs.disconnected-pattern": 10000 if q else 120000,
        # object state, views, lent atoms, interleaved traversals, caller-supplied matchers, large answers ('dyn' cases)
        **{k: v * (1 if q else 10) for k, v in {
            "dyn.cases": 160, "dyn.match.decide": 1000, "dyn.match.after-edit": 800,
            "dyn.match.answer-changed-by-target-edit": 120, "dyn.match.answer-changed-by-pattern-edit": 90,
            "dyn.target-edit.counts-kept": 100, "dyn.target-edit.bond-moved": 25, "dyn.target-edit.bond-repointed": 25,
            "dyn.target-edit.element-changed": 15, "dyn.target-edit.connect_like": 3,
            "dyn.pattern-edit.element-changed": 25, "dyn.pattern-edit.bond-moved": 15, "dyn.pattern-edit.atom-added": 10,
            "dyn.match.disconnected-pattern": 100,
            "recv.conformer": 70, "recv.substructure": 80, "view.conformer": 30, "view.substructure": 80,
            "view.match.decide": 300, "lent-atoms.receivers": 80, "lent-atoms.match.decide": 150,
            "interleaved.traversal.with-another-alive": 600, "interleaved.ring-query": 1200,
            "user-matcher.edge_match-given-alone": 300, "user-matcher.node_match-given-alone": 300,
            "user-matcher.both-matchers-given": 150, "user-matcher.expected-nonempty": 400,
            "user-matcher.expected-empty": 120, "ref.nx.embeddings-under-predicates": 200,
            "match.large-answer": 8}.items()},
    }


# ---------------------------------------------------------------------------------------------
# plan

def _split(total, parts):
    """[lo, hi) ranges covering range(total) in at most `parts` pieces"""
    parts = max(1, min(parts, total))
    step = -(-total // parts)
    return [(lo, min(total, lo + step)) for lo in range(0, total, step)]


def plan(tier, seed):
    specs = []
    quick = tier == "quick"
    # long chunks first
    nrand, per = (300, 15) if quick else (6000, 60)
    for lo, hi in _split(nrand, nrand // per):
        specs.append({"kind": "rand", "lo": lo, "hi": hi})
    ndyn, per = (160, 10) if quick else (1600, 20)
    for lo, hi in _split(ndyn, ndyn // per):
        specs.append({"kind": "dyn", "lo": lo, "hi": hi})
    xm = {"kind": "xmatch", "pmin": 1, "pmax": 3, "elmode": "all", "calls": 2}
    if not quick:
        # (C) every pattern on <=4 vertices against every graph on 5 vertices (one seeded element assignment each)
        for lo, hi in _split(N_EXH[5], 128):
            specs.append(dict(xm, tn=5, lo=lo, hi=hi, pmax=4, elmode=1, calls=1))
        # (B) every 4-vertex pattern against every graph on 4 vertices (four seeded element assignments each)
        for lo, hi in _split(N_EXH[4], 32):
            specs.append(dict(xm, tn=4, lo=lo, hi=hi, pmin=4, pmax=4, elmode=4, calls=1))
    # (A) every pattern on <=3 vertices against every graph on <=4 vertices with every assignment over {C,N}
    for lo, hi in _split(N_EXH[4], 16):
        specs.append(dict(xm, tn=4, lo=lo, hi=hi))
    for tn in (3, 2, 1):
        specs.append(dict(xm, tn=tn, lo=0, hi=N_EXH[tn]))
    if not quick:
        for lo, hi in _split(200000, 100):
            specs.append({"kind": "exh7", "lo": lo, "hi": hi})
    for lo, hi in _split(N_EXH[6], 64):
        specs.append({"kind": "exh", "n": 6, "lo": lo, "hi": hi})
    for lo, hi in _split(N_EXH[5], 4):
        specs.append({"kind": "exh", "n": 5, "lo": lo, "hi": hi})
    for n in (4, 3, 2, 1):
        specs.append({"kind": "exh", "n": n, "lo": 0, "hi": N_EXH[n]})
    return specs


# ---------------------------------------------------------------------------------------------
# building receivers through the public API

class Lib:
    """molli names, resolved once per child"""

    def __init__(self):
        from molli.chem import (Atom, AtomStereo, AtomType, AtomGeom, BondStereo, BondType, ConformerEnsemble,
                                Connectivity, Element, Molecule)
        self.Atom, self.Connectivity, self.Molecule, self.ConformerEnsemble = Atom, Connectivity, Molecule, ConformerEnsemble
        self.Element, self.BondType, self.BondStereo = Element, BondType, BondStereo
        self.AtomStereo, self.AtomType, self.AtomGeom = AtomStereo, AtomType, AtomGeom
        self.elements = [e.name for e in Element if e != Element.Unknown]
        self.btypes = [b.name for b in BondType]
        self.bstereo = ["Unknown", "NotStereogenic", "E", "Z", "Axial_R", "Axial_S"]
        self.astereo = [s.name for s in AtomStereo]
        self.atypes = [t.name for t in AtomType]
        self.ageoms = [g.name for g in AtomGeom]
        import numpy
        self.np = numpy
        self.cls = {"conn": Connectivity, "mol": Molecule, "ens": ConformerEnsemble}


def atom_spec(rng, element, rich):
    """JSON-able description of one atom"""
    if not rich:
        return {"element": element}
    return {"element": element, "isotope": rng.choice([None, None, 1, 2, 13]),
            "label": rng.choice([None, "", "a", "C1", "x y"]), "stereo": rng.choice(LIB.astereo),
            "atype": rng.choice(LIB.atypes), "formal_charge": rng.choice([0, 0, 1, -1]),
            # fields that say nothing about elements or bonds: no query of the property may depend on them
            "geom": rng.choice(LIB.ageoms), "formal_spin": rng.choice([0, 0, 1, 2]),
            "attrib": rng.choice([{}, {}, {"k": 1}, {"note": "x", "w": [1, 2]}])}


def bond_spec(rng, i, j, rich, btypes=None):
    if rng.random() < 0.5:
        i, j = j, i
    if not rich:
        return {"i": i, "j": j, "btype": "Single"}
    return {"i": i, "j": j, "btype": rng.choice(btypes or LIB.btypes), "stereo": rng.choice(LIB.bstereo),
            "label": rng.choice([None, None, "", "b", "bond 1"]), "f_order": rng.choice([1.0, 0.5, 1.5, 2.5, 0.0])}


def mk_atom(spec):
    L = LIB
    kw = {}
    if "isotope" in spec:
        kw = dict(isotope=spec["isotope"], label=spec["label"], stereo=L.AtomStereo[spec["stereo"]],
                  atype=L.AtomType[spec["atype"]], formal_charge=spec["formal_charge"])
        if "geom" in spec:
            kw.update(geom=L.AtomGeom[spec["geom"]], formal_spin=spec["formal_spin"],
                      attrib={k: (list(v) if isinstance(v, list) else v) for k, v in spec["attrib"].items()})
    return L.Atom(L.Element[spec["element"]], **kw)


def bond_kw(b):
    L = LIB
    kw = {"btype": L.BondType[b["btype"]]}
    if "stereo" in b:
        kw.update(stereo=L.BondStereo[b["stereo"]], label=b["label"], f_order=b["f_order"])
    return kw


def build(kind, aspecs, bspecs, route=0, by_atom=False):
    """a fresh receiver of the requested class with fresh atoms; route selects a constructor path"""
    L = LIB
    atoms = [mk_atom(a) for a in aspecs]
    n = len(atoms)
    if kind == "conn":
        x = L.Connectivity(atoms)
    elif kind == "mol":
        x = L.Molecule(atoms, name="c15")
    elif route == 2:
        x = L.Molecule(atoms, name="c15")
    else:
        x = L.ConformerEnsemble(atoms, n_conformers=route % 2 + 1, name="c15")
    for b in bspecs:
        if by_atom:
            x.connect(atoms[b["i"]], atoms[b["j"]], **bond_kw(b))
        else:
            x.connect(b["i"], b["j"], **bond_kw(b))
    if kind == "ens" and route == 2:
        x = L.ConformerEnsemble(x, n_conformers=2)  # from a Molecule: atoms and bonds are copied
    elif route == 1:
        x = L.cls[kind](x)  # copy constructor
    if type(x) is not L.cls[kind] or x.n_atoms != n:
        raise RuntimeError(f"harness: built {type(x).__name__} with {x.n_atoms} atoms, wanted {kind}/{n}")
    return x


def graph_of(x):
    """(atoms, bonds, index-by-id, edge list) as exposed by the public accessors"""
    atoms = list(x.atoms)
    bonds = list(x.bonds)
    idx = {id(a): i for i, a in enumerate(atoms)}
    if len(idx) != len(atoms):
        raise RuntimeError("harness: receiver lists an atom twice")
    edges = [(idx[id(b.a1)], idx[id(b.a2)]) for b in bonds]
    return atoms, bonds, idx, edges


def same_graph(edges, bspecs):
    return sorted(tuple(sorted(e)) for e in edges) == sorted(tuple(sorted((b["i"], b["j"]))) for b in bspecs)


LIB = None
REF = None


def setup():
    global LIB, REF
    if LIB is None:
        from vmon.models import graphref
        LIB = Lib()
        REF = graphref


# ---------------------------------------------------------------------------------------------
# graph queries on one receiver

def _exc(e):
    return type(e).__name__


def take(gen, bound):
    """at most `bound` items of a generator (a broken traversal may never stop)"""
    return list(itertools.islice(gen, bound + 1))


START_FORMS = ("Atom", "int", "Atom", "int", "label", "Element", "numpy-int")
DIR_FORMS = ("int", "Atom", "Atom", "label", "Element")


def first_occurrences(atoms):
    """what a label / an Element given as AtomLike stands for: the first atom of the receiver's list that carries it"""
    first_label, first_element = {}, {}
    for i, a in enumerate(atoms):
        if isinstance(a.label, str):
            first_label.setdefault(a.label, i)
        first_element.setdefault(a.element, i)
    return first_label, first_element


def atom_arg(atoms, i, form, firsts, fallback="Atom"):
    """(form used, argument) naming atom i of the receiver in the requested AtomLike form (fallback where the form
    would name another atom)"""
    a = atoms[i]
    if form == "label" and isinstance(a.label, str) and firsts[0].get(a.label) == i:
        return "label", a.label
    if form == "Element" and firsts[1].get(a.element) == i:
        return "Element", a.element
    if form == "numpy-int":
        return "numpy-int", LIB.np.int64(i)
    if form in ("label", "Element"):
        form = fallback
    return (form, a) if form == "Atom" else ("int", i)


def judge_traversal(ctx, op, items, with_dist, idx, s, expected, alt, info):
    """items: what the generator yielded; expected: {vertex: distance} the statement requires (start excluded);
    alt: alternative admissible distance labelling (directed case) or None"""
    n = info["n"]
    seq, dists = [], []
    for it in items:
        if with_dist:
            try:
                a, d = it
            except Exception:
                ctx.violation(f"{op}:item-not-a-pair", item=repr(it)[:80], **info)
                return
        else:
            a, d = it, None
        v = idx.get(id(a))
        if v is None:
            ctx.violation(f"{op}:yields-foreign-object", item=repr(a)[:80], **info)
            return
        seq.append(v)
        dists.append(d)
    info = dict(info, yielded=[[v, d] for v, d in zip(seq, dists)] if with_dist else seq,
                expected=sorted([v, d] for v, d in expected.items()))
    if len(items) > 2 * n + 4:
        ctx.violation(f"{op}:does-not-stop", **info)
        return
    if s in seq:
        ctx.violation(f"{op}:yields-start", **info)
    if len(set(seq)) != len(seq):
        ctx.violation(f"{op}:atom-yielded-twice", **info)
    got = set(seq)
    if got - set(expected) - {s}:
        ctx.violation(f"{op}:yields-unreachable-atom", **info)
    if set(expected) - got:
        ctx.violation(f"{op}:misses-reachable-atom", **info)
    known = [(v, d) for v, d in zip(seq, dists) if v in expected]
    labellings = [expected] + ([alt] if alt is not None else [])
    if with_dist:
        def agrees(lab):
            return all((not isinstance(d, bool)) and isinstance(d, numbers.Real) and d == lab[v] for v, d in known)
        if not any(agrees(lab) for lab in labellings):
            ctx.violation(f"{op}:distance-wrong", **info)

    def ordered(lab):
        ds = [lab[v] for v, _ in known]
        return all(x <= y for x, y in zip(ds, ds[1:]))
    if not any(ordered(lab) for lab in labellings):
        ctx.violation(f"{op}:order-not-by-distance", **info)


def graph_reference(ctx, n, edges, adj, salt):
    """distances from every vertex and the bridge set: own BFS, cross-checked against a second own algorithm
    (edge relaxation) for every start and against networkx (one start, all bridges)"""
    R = REF
    dist_from = [R.bfs_dist(adj, s) for s in range(n)]
    for s in range(n):
        other = R.dist_by_relaxation(n, edges, s)
        if other != dist_from[s]:
            raise R.ReferenceDisagreement(f"distances: bfs={dist_from[s]} relaxation={other} n={n} edges={edges}")
    s0 = salt % n
    if R.nx_dist(n, edges, s0) != dist_from[s0]:
        raise R.ReferenceDisagreement(f"distances: own={dist_from[s0]} networkx differs n={n} edges={edges}")
    ctx.count("ref.nx.dist")
    br = R.bridges(n, edges)
    R.cross_check_bridges(n, edges, br)
    ctx.count("ref.nx.bridges")
    return {"dist_from": dist_from, "bridges": br}


def check_queries(ctx, x, kind, n, adj, salt, info0, gref):
    """all queries of the property except matching, on one receiver"""
    R = REF
    atoms, bonds, idx, edges = graph_of(x)
    ctx.count("recv." + kind)
    bound = 2 * n + 4
    dist_from, br = gref["dist_from"], gref["bridges"]
    bid = {id(b): k for k, b in enumerate(bonds)}
    firsts = first_occurrences(atoms)

    for s in range(n):
        # AtomLike forms rotate over the starts: Atom, index, numpy integer, label, Element
        form_s, a_s = atom_arg(atoms, s, START_FORMS[(s + salt) % len(START_FORMS)], firsts,
                               fallback="Atom" if (s + salt) % 2 == 0 else "int")
        ctx.count("arg-form." + form_s)
        info = dict(info0, start=s, arg=form_s)
        exp = {v: d for v, d in dist_from[s].items() if v != s}
        # --- undirected
        for op, with_dist in (("bfsd", True), ("bfs", False)):
            f = x.yield_bfsd if with_dist else x.yield_bfs
            ctx.count(op + ".undirected")
            try:
                items = take(f(a_s), bound)
            except Exception as e:  # noqa
                ctx.violation(f"{op}:raises:{_exc(e)}", err=repr(e)[:200], **info)
                continue
            judge_traversal(ctx, op, items, with_dist, idx, s, exp, None, info)
        # --- every direction
        for d in sorted(adj[s]):
            thr = R.through(adj, s, d)
            alt = {v: dist_from[s][v] for v in thr}
            form_d, a_d = atom_arg(atoms, d, DIR_FORMS[(d + salt) % len(DIR_FORMS)], firsts)
            if form_d in ("label", "Element"):
                ctx.count("arg-form.direction." + form_d)
            infod = dict(info, direction=d, dir_arg=form_d)
            for op, with_dist in (("bfsd-dir", True), ("bfs-dir", False)):
                f = x.yield_bfsd if with_dist else x.yield_bfs
                ctx.count(op[:-4] + ".directed")
                try:
                    items = take(f(a_s, a_d), bound)
                except Exception as e:  # noqa
                    ctx.violation(f"{op}:raises:{_exc(e)}", err=repr(e)[:200], **infod)
                    continue
                judge_traversal(ctx, op, items, with_dist, idx, s, thr, alt, infod)
        # --- adjacency of s against the bond list
        ctx.count("adjacency.atom")
        inc = [k for k, (i, j) in enumerate(edges) if i == s or j == s]
        try:
            got = [idx.get(id(a), -1) for a in take(x.connected_atoms(a_s), len(edges) + 2)]
            if sorted(got) != sorted(adj[s]):
                ctx.violation("connected_atoms:differs-from-bond-list", got=got, expected=sorted(adj[s]), **info)
            gb = take(x.bonds_with_atom(a_s), len(edges) + 2)
            gk = [bid.get(id(b), -1) for b in gb]
            if sorted(gk) != inc:
                ctx.violation("bonds_with_atom:differs-from-bond-list", got=gk, expected=inc, **info)
            nb = x.n_bonds_with_atom(a_s)
            if isinstance(nb, bool) or not isinstance(nb, numbers.Real) or nb != len(inc):
                ctx.violation("n_bonds_with_atom:differs-from-bond-list", got=repr(nb), expected=len(inc), **info)
            val = x.bonded_valence(a_s)
            ev = math.fsum(bonds[k].order for k in inc)
            if not (isinstance(val, numbers.Real) and math.isclose(val, ev, rel_tol=1e-9, abs_tol=1e-9)):
                ctx.violation("bonded_valence:differs-from-bond-list", got=repr(val), expected=ev,
                              orders=[bonds[k].order for k in inc], **info)
        except Exception as e:  # noqa
            ctx.violation(f"adjacency-query:raises:{_exc(e)}", err=repr(e)[:200], **info)

    # --- rings
    for k, b in enumerate(bonds):
        e = tuple(sorted(edges[k]))
        bridge = e in br
        ctx.count("ring.bridge" if bridge else "ring.in-ring")
        try:
            r = x.is_bond_in_ring(b)
        except Exception as ex:  # noqa
            ctx.violation(f"ring:raises:{_exc(ex)}", bond=list(edges[k]), err=repr(ex)[:200], **info0)
            continue
        if bool(r) and bridge:
            ctx.violation("ring:bridge-reported-in-ring", bond=list(edges[k]), **info0)
        if not bool(r) and not bridge:
            ctx.violation("ring:ring-bond-reported-not-in-ring", bond=list(edges[k]), **info0)


# ---------------------------------------------------------------------------------------------
# matching on one receiver

def results_of_match(ctx, op, x, pat, idx, bound, info, **kw):
    """tuples (pattern order) from x.match(pat); None if unusable"""
    try:
        maps = take(x.match(pat, **kw), bound)
    except NotImplementedError:
        raise
    except Exception as e:  # noqa
        ctx.violation(f"{op}:raises:{_exc(e)}", err=repr(e)[:200], **info)
        return None
    patoms = list(pat.atoms)
    out = []
    for m in maps:
        try:
            if len(m) != len(patoms):
                raise KeyError("size")
            img = tuple(idx[id(m[a])] for a in patoms)
        except Exception as e:  # noqa
            ctx.violation(f"{op}:invalid-embedding:not-a-map-from-pattern-atoms-to-own-atoms", err=repr(e)[:120], **info)
            return None
        out.append(img)
    return out


def results_of_substr(ctx, op, x, pat, bound, info):
    try:
        res = take(x.get_substr_indices(pat), bound)
    except NotImplementedError:
        raise
    except Exception as e:  # noqa
        ctx.violation(f"{op}:raises:{_exc(e)}", err=repr(e)[:200], **info)
        return None
    out = []
    for r in res:
        try:
            out.append(tuple(int(i) if not isinstance(i, bool) and int(i) == i else None for i in r))
        except Exception as e:  # noqa
            ctx.violation(f"{op}:invalid-embedding:not-an-index-list", err=repr(e)[:120], got=repr(r)[:80], **info)
            return None
    return out


def judge_embeddings(ctx, op, got, expected, padj, plab, tadj, tlab, decide, generating, info):
    R = REF
    info = dict(info, got=sorted(got)[:12], n_got=len(got), n_expected=len(expected))
    if len(got) > 2 * len(expected) + 8:
        ctx.violation(f"{op}:more-results-than-bound", **info)
    bad = False
    for img in got:
        why = R.embedding_defect(img, padj, plab, tadj, tlab, WILD) if None not in img else "index-out-of-range"
        if why:
            ctx.violation(f"{op}:invalid-embedding:{why}", image=list(img), **info)
            bad = True
            break
    if len(set(got)) != len(got):
        ctx.violation(f"{op}:duplicate-embedding", **info)
    if decide:
        missed = sorted(set(expected) - set(got))
        if missed:
            ctx.violation(f"{op}:missed-embedding", missed=missed[:6], **info)
    elif generating is not None and not bad:
        if tuple(generating) in set(got):
            ctx.count("rand.typed.generating-present")
        else:
            ctx.violation(f"{op}:generating-embedding-missing", generating=list(generating), **info)


CHECK_MATCH_CALLS = [0]


def check_match(ctx, x, kind, pat, idx, padj, plab, tadj, tlab, expected, info, decide=True, generating=None,
                do_match=True, do_substr=True, tolerate_nie=False):
    bound = 2 * len(expected) + 8
    sfx = "" if decide else "-typed"
    info = dict(info, receiver=kind, pattern_class=type(pat).__name__)
    try:
        if do_match:
            ctx.count("match.decide" if decide else "match.typed")
            got = results_of_match(ctx, "match" + sfx, x, pat, idx, bound, info)
            if got is not None:
                judge_embeddings(ctx, "match" + sfx, got, expected, padj, plab, tadj, tlab, decide, generating, info)
            # the two matcher keywords are independent: naming the library's own matcher for one of them (and leaving
            # the other at its default) is the same query
            CHECK_MATCH_CALLS[0] += 1
            if CHECK_MATCH_CALLS[0] % 4 == 0:
                for form, kw in (("node_match-given", {"node_match": type(x)._node_match}),
                                 ("edge_match-given", {"edge_match": type(x)._edge_match})):
                    ctx.count("match.one-matcher-keyword")
                    opk = f"match{sfx}:{form}"
                    got = results_of_match(ctx, opk, x, pat, idx, bound, info, **kw)
                    if got is not None:
                        judge_embeddings(ctx, opk, got, expected, padj, plab, tadj, tlab, decide, generating, info)
        if do_substr:
            op = ("substr-ens" if kind == "ens" else "substr") + sfx
            ctx.count("substr.decide" if decide else "substr.typed")
            if kind == "ens":
                ctx.count("substr.ens")
            got = results_of_substr(ctx, op, x, pat, bound, info)
            if got is not None:
                judge_embeddings(ctx, op, got, expected, padj, plab, tadj, tlab, decide, generating, info)
    except NotImplementedError as e:
        if tolerate_nie:
            ctx.count("match.typed.not-implemented-bond-type")
        else:
            ctx.violation(f"match{sfx}:raises:NotImplementedError", err=repr(e)[:200], **info)


def build_pattern(cls_name, plab, pedges, aspecs=None, bspecs=None):
    """pattern object: wildcard bonds/atoms unless explicit specs are given"""
    L = LIB
    if aspecs is None:
        atoms = [L.Atom(L.Element[e]) for e in plab]
    else:
        atoms = [mk_atom(a) for a in aspecs]
    p = L.Connectivity(atoms) if cls_name == "conn" else L.Molecule(atoms, name="pattern")
    if bspecs is None:
        for i, j in pedges:
            p.connect(i, j, btype=L.BondType.Unknown, stereo=L.BondStereo.Unknown, label=None)
    else:
        for b in bspecs:
            p.connect(b["i"], b["j"], **bond_kw(b))
    return p


# ---------------------------------------------------------------------------------------------
# chunk kinds

def nontrivial(n, edges, adj):
    comps = len(REF.components(n, adj))
    return (len(edges) - n + comps) >= 1 or comps >= 2


def run_graph_case(ctx, case, n, edges, rng, kinds, info_extra=None):
    """one graph: build the requested receivers, run all non-matching queries"""
    R = REF
    adj = R.adjacency(n, edges)
    order = list(edges)
    rng.shuffle(order)
    aspecs = [atom_spec(rng, rng.choice(LIB.elements), rich=True) for _ in range(n)]
    bspecs = [bond_spec(rng, i, j, rich=True) for i, j in order]
    ctx.case(case, dkey=("g", n, sorted(tuple(sorted(e)) for e in edges)), nontrivial=nontrivial(n, edges, adj),
             sample={"n": n, "edges": [list(e) for e in edges], "kinds": list(kinds),
                     "elements": [a["element"] for a in aspecs], "btypes": [b["btype"] for b in bspecs]})
    salt = rng.randrange(6)
    gref = graph_reference(ctx, n, edges, adj, salt)
    for kind in kinds:
        route = rng.randrange(3)
        x = build(kind, aspecs, bspecs, route=route, by_atom=rng.random() < 0.5)
        _, _, _, got_edges = graph_of(x)
        if not same_graph(got_edges, bspecs):
            raise RuntimeError(f"harness: receiver {kind}/route{route} exposes edges {got_edges}, requested {bspecs}")
        # adjacency in the receiver's own numbering (identical to the requested one)
        info = {"n": n, "edges": [list(e) for e in got_edges], "receiver": kind, "route": route}
        if info_extra:
            info.update(info_extra)
        check_queries(ctx, x, kind, n, adj, salt, info, gref)


def chunk_exh(spec, ctx):
    R = REF
    n = spec["n"]
    if not 0 <= spec["lo"] <= spec["hi"] <= R.n_graphs(n):
        raise ValueError(f"mask range outside the {R.n_graphs(n)} graphs on {n} vertices")
    pairs = R.pair_list(n)
    for mask in range(spec["lo"], spec["hi"]):
        case = ["g", n, mask]
        if not ctx.want(case):
            continue
        edges = R.edges_of_mask(n, mask, pairs)
        rng = ctx.rng("g", n, mask)
        # all three receiver classes up to 5 vertices (and always in the thorough tier); on 6 vertices the quick tier
        # draws one class per graph (the traversal/ring/adjacency methods are inherited, not overridden)
        kinds = KINDS if (n <= 5 or ctx.tier == "thorough") else (rng.choice(KINDS),)
        run_graph_case(ctx, case, n, edges, rng, kinds)
        ctx.count("exh.graphs")
        ctx.count(f"exh.graphs.n{n}")


def chunk_exh7(spec, ctx):
    """distinct seeded masks of the 2^21 graphs on 7 vertices: a fixed-stride walk from a seeded offset is a bijection"""
    R = REF
    n, total = 7, 1 << 21
    pairs = R.pair_list(n)
    base = ctx.rng("exh7-offset").randrange(total)
    stride = 1000003  # odd => coprime with 2^21 => the walk visits distinct masks
    for k in range(spec["lo"], spec["hi"]):
        mask = (base + k * stride) % total
        case = ["g7", k]
        if not ctx.want(case):
            continue
        edges = R.edges_of_mask(n, mask, pairs)
        rng = ctx.rng("g7", mask)
        run_graph_case(ctx, case, n, edges, rng, (KINDS[k % 3],), info_extra={"mask": mask})
        ctx.count("exh7.graphs")


def all_patterns(pmin, pmax, connected=True):
    """(pn, edges, labels) for every connected (resp. every disconnected) labelled graph on pmin..pmax vertices x every
    assignment over {C,N,Unknown}"""
    R = REF
    out = []
    for pn in range(pmin, pmax + 1):
        pairs = R.pair_list(pn)
        for mask in (R.connected_masks(pn) if connected else R.disconnected_masks(pn)):
            pedges = R.edges_of_mask(pn, mask, pairs)
            for lab in itertools.product(("C", "N", WILD), repeat=pn):
                out.append((pn, mask, pedges, lab))
    return out


def chunk_xmatch(spec, ctx):
    R = REF
    tn = spec["tn"]
    if not 0 <= spec["lo"] <= spec["hi"] <= R.n_graphs(tn):
        raise ValueError(f"mask range outside the {R.n_graphs(tn)} graphs on {tn} vertices")
    pairs = R.pair_list(tn)
    pats = []
    for pi, (pn, pmask, pedges, plab) in enumerate(all_patterns(spec["pmin"], spec["pmax"])):
        padj = R.adjacency(pn, pedges)
        pobj = build_pattern("conn" if pi % 2 == 0 else "mol", plab, pedges)
        pats.append((pi, pn, pmask, pedges, plab, padj, pobj))
    # patterns in several pieces (<= 3 vertices): the definition of an induced embedding does not need connectedness
    # (non-bonded pattern atoms go to non-bonded atoms).  Quick tier: every target meets a rotating sixth of them.
    dpats = []
    if spec["pmin"] == 1:
        for pi, (pn, pmask, pedges, plab) in enumerate(all_patterns(2, 3, connected=False)):
            dpats.append((pi, pn, pmask, pedges, plab, R.adjacency(pn, pedges),
                          build_pattern("mol" if pi % 2 == 0 else "conn", plab, pedges)))
    dstride = 6 if ctx.tier == "quick" else 1
    for mask in range(spec["lo"], spec["hi"]):
        edges = R.edges_of_mask(tn, mask, pairs)
        tadj = R.adjacency(tn, edges)
        labs = list(itertools.product(("C", "N"), repeat=tn))
        if spec["elmode"] != "all":
            labs = sorted(ctx.rng("xm-el", tn, mask).sample(labs, min(len(labs), int(spec["elmode"]))))
        for tlab in labs:
            case = ["xm", tn, mask, "".join(tlab)]
            if not ctx.want(case):
                continue
            rng = ctx.rng("xm", tn, mask, tlab)
            order = list(edges)
            rng.shuffle(order)
            aspecs = [atom_spec(rng, e, rich=True) for e in tlab]
            bspecs = [bond_spec(rng, i, j, rich=True) for i, j in order]
            ctx.case(case, dkey=("xm", tn, mask, tlab), nontrivial=nontrivial(tn, edges, tadj),
                     sample={"target_n": tn, "target_edges": [list(e) for e in edges], "target_elements": list(tlab),
                             "patterns": len(pats)})
            recv = {}
            for kind in KINDS:
                x = build(kind, aspecs, bspecs, route=rng.randrange(3))
                _, _, idx, got_edges = graph_of(x)
                if not same_graph(got_edges, bspecs):
                    raise RuntimeError(f"harness: receiver {kind} exposes edges {got_edges}")
                recv[kind] = (x, idx)
                ctx.count("recv." + kind)
            rot = rng.randrange(6)
            for (pi, pn, pmask, pedges, plab, padj, pobj) in pats:
                expected = R.embeddings_brute(padj, plab, tadj, tlab, WILD)
                ctx.count("match.pairs.exhaustive")
                ctx.count("match.expected-nonempty" if expected else "match.expected-empty")
                if (pi + rot) % 4 == 0:
                    bt = R.embeddings_bt(padj, plab, tadj, tlab, WILD)
                    if sorted(bt) != sorted(expected):
                        raise R.ReferenceDisagreement(f"brute={expected} backtracking={bt}")
                    ctx.count("ref.bt-vs-brute")
                    R.cross_check_embeddings(pn, pedges, plab, tn, edges, tlab, WILD, expected)
                    ctx.count("ref.nx.embeddings")
                info = {"target": {"n": tn, "edges": [list(e) for e in edges], "elements": list(tlab)},
                        "pattern": {"n": pn, "edges": [list(e) for e in pedges], "elements": list(plab)},
                        "expected": sorted(expected)[:12]}
                # every pair is decided through get_substr_indices on one receiver class and through match on another
                k1 = KINDS[(pi + rot) % 3]
                k2 = KINDS[(pi + rot + 1) % 3]
                # (thorough, larger sets: through one of the two, alternating)
                both = spec["calls"] == 2
                if both or (pi + rot) % 2 == 0:
                    x, idx = recv[k1]
                    check_match(ctx, x, k1, pobj, idx, padj, plab, tadj, tlab, expected, info, do_match=False)
                if both or (pi + rot) % 2 == 1:
                    x, idx = recv[k2]
                    check_match(ctx, x, k2, pobj, idx, padj, plab, tadj, tlab, expected, info, do_substr=False)
            drot = rng.randrange(dstride)
            for (pi, pn, pmask, pedges, plab, padj, pobj) in dpats:
                if (pi + drot) % dstride:
                    continue
                expected = R.embeddings_brute(padj, plab, tadj, tlab, WILD)
                ctx.count("match.pairs.disconnected-pattern")
                ctx.count("match.expected-nonempty" if expected else "match.expected-empty")
                if (pi + rot) % 4 == 0:
                    R.cross_check_embeddings(pn, pedges, plab, tn, edges, tlab, WILD, expected)
                    ctx.count("ref.nx.embeddings")
                info = {"target": {"n": tn, "edges": [list(e) for e in edges], "elements": list(tlab)},
                        "pattern": {"n": pn, "edges": [list(e) for e in pedges], "elements": list(plab),
                                    "connected": False},
                        "expected": sorted(expected)[:12]}
                k1 = KINDS[(pi + rot) % 3]
                x, idx = recv[k1]
                check_match(ctx, x, k1, pobj, idx, padj, plab, tadj, tlab, expected, info,
                            do_match=(pi + rot) % 2 == 0, do_substr=(pi + rot) % 2 == 1)


RAND_CAP = 4000  # reference enumeration limit of the random part (cases beyond it are counted as skipped)
RAND_BTYPES = ["Single"] * 40 + ["Double"] * 20 + ["Aromatic"] * 20 + ["Triple"] * 8 + ["Amide"] * 6 + ["Unknown"] * 6
PALETTES = [("C", "H"), ("C", "N", "O"), ("C", "C", "C", "N"), ("C", "N", "O", "S", "P", "F", "Cl"), ("Si", "O"),
            ("C",), ("Fe", "C", "N", "Pd")]


def chunk_rand(spec, ctx):
    R = REF
    for g in range(spec["lo"], spec["hi"]):
        case = ["rand", g]
        if not ctx.want(case):
            continue
        rng = ctx.rng("rand", g)
        n = rng.choice([7, 8, 9, 10, 12, 14, 16, 18, 20, 24, 28, 32, 36, 40]) if rng.random() < 0.7 else rng.randint(7, 40)
        style, edges = R.random_graph(rng, n)
        adj = R.adjacency(n, edges)
        pal = rng.choice(PALETTES) if rng.random() < 0.8 else LIB.elements
        tlab = [rng.choice(pal) for _ in range(n)]
        aspecs = [atom_spec(rng, e, rich=True) for e in tlab]
        bt = RAND_BTYPES + LIB.btypes if rng.random() < 0.8 else LIB.btypes
        bspecs = [bond_spec(rng, i, j, rich=True, btypes=bt) for i, j in edges]
        ctx.case(case, dkey=("g", n, sorted(tuple(sorted(e)) for e in edges)), nontrivial=nontrivial(n, edges, adj),
                 sample={"n": n, "style": style, "edges": [list(e) for e in edges], "elements": tlab,
                         "btypes": [b["btype"] for b in bspecs]})
        ctx.count("rand.graphs")
        ctx.count("rand.style." + style)
        recv = {}
        for kind in KINDS:
            route = rng.randrange(3)
            x = build(kind, aspecs, bspecs, route=route, by_atom=rng.random() < 0.5)
            _, _, idx, got_edges = graph_of(x)
            if not same_graph(got_edges, bspecs):
                raise RuntimeError(f"harness: receiver {kind} exposes edges {got_edges}")
            recv[kind] = (x, idx)
        # graph queries on one class (rotating), every start / direction / bond
        kq = KINDS[g % 3]
        salt = rng.randrange(6)
        check_queries(ctx, recv[kq][0], kq, n, adj, salt,
                      {"n": n, "edges": [list(e) for e in edges], "receiver": kq, "style": style},
                      graph_reference(ctx, n, edges, adj, salt))
        # ... and again after the graph was edited (a query must see the graph as it is now, not as it was when a
        # previous query ran): one bond added and / or one bond deleted on the same receiver
        if n <= 24:
            xq = recv[kq][0]
            cur = [tuple(e) for e in edges]
            for step in range(2):
                present = {frozenset(e) for e in cur}
                if step == 0:
                    cand = [(i, j) for i in range(n) for j in range(i + 1, n) if frozenset((i, j)) not in present]
                    if not cand:
                        continue
                    i, j = rng.choice(cand)
                    xq.connect(i, j)
                    cur = cur + [(i, j)]
                    what = "bond-added"
                else:
                    if not cur:
                        continue
                    atoms_q, bonds_q, idx_q, edges_q = graph_of(xq)
                    kdel = rng.randrange(len(bonds_q))
                    xq.del_bond(bonds_q[kdel])
                    gone = frozenset(edges_q[kdel])
                    cur = [e for e in cur if frozenset(e) != gone]
                    what = "bond-deleted"
                ctx.count("edit-between-queries." + what)
                adj2 = R.adjacency(n, cur)
                _, _, _, got2 = graph_of(xq)
                if sorted(frozenset(e) for e in got2) != sorted(frozenset(e) for e in cur):
                    raise RuntimeError(f"harness: edited receiver exposes edges {got2}, expected {cur}")
                check_queries(ctx, xq, kq, n, adj2, salt,
                              {"n": n, "edges": [list(e) for e in got2], "receiver": kq, "style": style, "after": what},
                              graph_reference(ctx, n, [tuple(e) for e in got2], adj2, salt))
            # the matching part below uses fresh receivers of the ORIGINAL graph
            route = rng.randrange(3)
            xfresh = build(kq, aspecs, bspecs, route=route, by_atom=False)
            recv[kq] = (xfresh, graph_of(xfresh)[2])
        # patterns
        made = 0
        for t in range(8):
            if made >= 4:
                break
            k = rng.randint(1, min(8, n))
            verts = R.random_connected_subset(rng, adj, k)
            pedges = R.induced(verts, adj)
            pn = len(verts)
            padj = R.adjacency(pn, pedges)
            pw = rng.choice([0.0, 0.3, 0.3, 0.6, 1.0])
            plab = [WILD if rng.random() < pw else tlab[v] for v in verts]
            try:
                expected = R.embeddings_bt(padj, plab, adj, tlab, WILD, cap=RAND_CAP)
            except R.TooMany:
                ctx.count("rand.match.skipped-too-many-embeddings")
                continue
            made += 1
            big = len(expected) > 600
            if tuple(verts) not in set(expected):
                raise R.ReferenceDisagreement(f"generating embedding {verts} not found by the reference")
            R.cross_check_embeddings(pn, pedges, plab, n, edges, tlab, WILD, expected)
            ctx.count("ref.nx.embeddings")
            if pn <= 3 and n <= 12:
                if sorted(R.embeddings_brute(padj, plab, adj, tlab, WILD)) != sorted(expected):
                    raise R.ReferenceDisagreement("brute vs backtracking")
                ctx.count("ref.bt-vs-brute")
            info = {"target": {"n": n, "edges": [list(e) for e in edges], "elements": tlab},
                    "pattern": {"n": pn, "edges": [list(e) for e in pedges], "elements": plab, "from": verts},
                    "expected": sorted(expected)[:12]}
            ctx.count("match.expected-nonempty")
            # (1) deciding: wildcard bonds
            pobj = build_pattern("conn" if t % 2 else "mol", plab, pedges)
            if big:
                # many embeddings ("none missed" has no upper limit): decided once, through one entry point
                kind = KINDS[(g + t) % 3]
                x, idx = recv[kind]
                ctx.count("rand.match.decide")
                ctx.count("rand.match.decide.more-than-600-embeddings")
                check_match(ctx, x, kind, pobj, idx, padj, plab, adj, tlab, expected, info,
                            do_match=t % 2 == 0, do_substr=t % 2 == 1)
                continue
            for kind in KINDS:
                x, idx = recv[kind]
                ctx.count("rand.match.decide")
                check_match(ctx, x, kind, pobj, idx, padj, plab, adj, tlab, expected, info)
            # (2) typed: the target's own atom and bond attributes copied onto the pattern
            pa = []
            for i, v in enumerate(verts):
                a = dict(aspecs[v])
                a["element"] = plab[i]
                pa.append(a)
            by_pair = {frozenset((b["i"], b["j"])): b for b in bspecs}
            pb = []
            for i, j in pedges:
                b = dict(by_pair[frozenset((verts[i], verts[j]))])
                b["i"], b["j"] = (i, j) if rng.random() < 0.5 else (j, i)
                pb.append(b)
            supported = all(b["btype"] in TYPED_OK for b in pb)
            tobj = build_pattern("mol" if t % 2 else "conn", plab, pedges, aspecs=pa, bspecs=pb)
            infot = dict(info, pattern_btypes=[b["btype"] for b in pb])
            for kind in (KINDS[(g + t) % 3],):
                x, idx = recv[kind]
                ctx.count("rand.match.typed")
                if supported:
                    ctx.count("rand.match.typed.supported")
                check_match(ctx, x, kind, tobj, idx, padj, plab, adj, tlab, expected, infot, decide=False,
                            generating=verts if supported else None, tolerate_nie=not supported)
        # a pattern that cannot match: one more atom than the largest component has / an absent element
        absent = "Xe" if "Xe" not in tlab else "Rn"
        if absent not in tlab:
            plab = [absent]
            pobj = build_pattern("conn", plab, [])
            info = {"target": {"n": n, "edges": [list(e) for e in edges], "elements": tlab},
                    "pattern": {"n": 1, "edges": [], "elements": plab}, "expected": []}
            ctx.count("match.expected-empty")
            x, idx = recv[KINDS[g % 3]]
            check_match(ctx, x, KINDS[g % 3], pobj, idx, [set()], plab, adj, tlab, [], info)


# ---------------------------------------------------------------------------------------------
# object state, views, interleaving, argument forms, caller-supplied matchers ("dyn" chunks)

DYN_PALETTES = [("C", "N"), ("C", "N", "O"), ("C", "C", "C", "O"), ("C", "H"), ("C",), ("C", "N", "O", "S")]
DYN_STEPS = 4


def state_of(x):
    """the graph an object exposes NOW through its public accessors"""
    atoms, bonds, idx, edges = graph_of(x)
    return {"atoms": atoms, "bonds": bonds, "idx": idx, "edges": edges, "n": len(atoms),
            "adj": REF.adjacency(len(atoms), edges), "lab": [a.element.name for a in atoms]}


def wild_kw():
    L = LIB
    return dict(btype=L.BondType.Unknown, stereo=L.BondStereo.Unknown, label=None)


def edit_graph(rng, x, palette, wild, allow_atoms, max_atoms):
    """one edit of a live object through the public API (wild: a pattern - plain atoms, wildcard bonds).
    Returns the name of the edit; the exposed graph afterwards must be the requested one (else harness error)."""
    L = LIB
    st = state_of(x)
    n, atoms, bonds, edges, adj, idx = st["n"], st["atoms"], st["bonds"], st["edges"], st["adj"], st["idx"]
    present = [frozenset(e) for e in edges]
    have = set(present)
    free = [(i, j) for i in range(n) for j in range(i + 1, n) if frozenset((i, j)) not in have]
    repoint = [(k, keep, v) for k, (i, j) in enumerate(edges) for keep in (i, j) for v in range(n)
               if v != keep and v not in adj[keep]]

    def new_bond_kw(i, j):
        return wild_kw() if wild else bond_kw(bond_spec(rng, i, j, rich=True, btypes=RAND_BTYPES))

    def new_atom(el):
        return L.Atom(L.Element[el]) if wild else mk_atom(atom_spec(rng, el, rich=True))

    menu = ["element-changed", "element-changed"]
    if bonds and free:
        menu += ["bond-moved"] * 3
    if repoint:
        menu += ["bond-repointed"] * 3
    if bonds:
        menu += ["connect_like", "bond-deleted"]
        if not wild:
            menu += ["bond-type-changed"]
    if free:
        menu += ["bond-added"]
    if allow_atoms and n >= 3:
        menu += ["atom-deleted"]
    if allow_atoms and n < max_atoms:
        menu += ["atom-added"]
    what = rng.choice(menu)
    exp_edges, exp_lab = list(present), list(st["lab"])
    if what == "element-changed":
        i = rng.randrange(n)
        new = rng.choice([e for e in list(palette) + ["S", "P"] if e != exp_lab[i]])
        atoms[i].element = new if rng.random() < 0.5 else L.Element[new]
        exp_lab[i] = new
    elif what == "bond-moved":
        # delete + add with no query in between: the numbers of atoms and bonds are the same afterwards
        k = rng.randrange(len(bonds))
        i, j = rng.choice(free)
        if rng.random() < 0.5:
            i, j = j, i
        x.del_bond(bonds[k])
        if rng.random() < 0.5:
            x.connect(i, j, **new_bond_kw(i, j))
        else:
            x.connect(atoms[i], atoms[j], **new_bond_kw(i, j))
        del exp_edges[k]
        exp_edges.append(frozenset((i, j)))
    elif what == "bond-repointed":
        k, keep, v = rng.choice(repoint)
        b = bonds[k]
        if idx[id(b.a1)] == keep:
            b.a2 = atoms[v]
        else:
            b.a1 = atoms[v]
        exp_edges[k] = frozenset((keep, v))
    elif what == "bond-type-changed":
        b = rng.choice(bonds)
        b.btype = L.BondType[rng.choice([t for t in TYPED_OK if t != b.btype.name])]
        if rng.random() < 0.3:
            b.f_order = rng.choice([0.5, 1.5, 2.0])
    elif what == "connect_like":
        # another object with the same elements and as many bonds, placed elsewhere
        perm = list(range(n))
        rng.shuffle(perm)
        other = L.Connectivity([L.Atom(L.Element[e]) for e in exp_lab])
        exp_edges = []
        for e in present:
            i, j = sorted(e)
            other.connect(perm[i], perm[j], **new_bond_kw(i, j))
            exp_edges.append(frozenset((perm[i], perm[j])))
        x.connect_like(other)
    elif what == "bond-deleted":
        k = rng.randrange(len(bonds))
        x.del_bond(bonds[k])
        del exp_edges[k]
    elif what == "bond-added":
        i, j = rng.choice(free)
        x.connect(i, j, **new_bond_kw(i, j))
        exp_edges.append(frozenset((i, j)))
    elif what == "atom-deleted":
        i = rng.randrange(n)
        x.del_atom(atoms[i] if rng.random() < 0.5 else i)
        ren = {v: v - (v > i) for v in range(n) if v != i}
        exp_edges = [frozenset(ren[v] for v in e) for e in present if i not in e]
        del exp_lab[i]
    elif what == "atom-added":
        el = rng.choice(list(palette))
        a = new_atom(el)
        x.append_atom(a)
        j = rng.randrange(n)
        x.connect(a, j, **new_bond_kw(n, j))
        exp_edges.append(frozenset((n, j)))
        exp_lab.append(el)
    st2 = state_of(x)
    got = sorted(sorted(e) for e in st2["edges"])
    if got != sorted(sorted(e) for e in exp_edges) or st2["lab"] != exp_lab:
        raise RuntimeError(f"harness: after {what} the object exposes {st2['edges']} / {st2['lab']}, "
                           f"requested {sorted(sorted(e) for e in exp_edges)} / {exp_lab}")
    return what


def subset_pattern(rng, st, k, cls_name, pw, connected=True):
    """wildcard-bond pattern object drawn from the graph as it is now (induced on a random vertex subset)"""
    R = REF
    if connected:
        verts = R.random_connected_subset(rng, st["adj"], k)
    else:
        verts = rng.sample(range(st["n"]), min(k, st["n"]))
    pedges = R.induced(verts, st["adj"])
    plab = [WILD if rng.random() < pw else st["lab"][v] for v in verts]
    return build_pattern(cls_name, plab, pedges)


def match_objects(ctx, x, kind, pats, info0, counter, cap=1500, xref=False, **kw):
    """decide match / get_substr_indices of live pattern objects on a live receiver: both are read through the public
    accessors at the time of the call.  Returns {role: expected set}"""
    R = REF
    st = state_of(x)
    answers = {}
    for role, p in pats:
        ps = state_of(p)
        try:
            expected = R.embeddings_bt(ps["adj"], ps["lab"], st["adj"], st["lab"], WILD, cap=cap)
        except R.TooMany:
            ctx.count("dyn.match.skipped-too-many-embeddings")
            continue
        if xref:
            R.cross_check_embeddings(ps["n"], ps["edges"], ps["lab"], st["n"], st["edges"], st["lab"], WILD, expected)
            ctx.count("ref.nx.embeddings")
        answers[role] = frozenset(expected)
        ctx.count(counter)
        ctx.count("match.expected-nonempty" if expected else "match.expected-empty")
        if len(R.components(ps["n"], ps["adj"])) > 1:
            ctx.count("dyn.match.disconnected-pattern")
        info = dict(info0, pattern_role=role,
                    target={"n": st["n"], "edges": [list(e) for e in st["edges"]], "elements": st["lab"]},
                    pattern={"n": ps["n"], "edges": [list(e) for e in ps["edges"]], "elements": ps["lab"]},
                    expected=sorted(expected)[:12])
        check_match(ctx, x, kind, p, st["idx"], ps["adj"], ps["lab"], st["adj"], st["lab"], expected, info, **kw)
    return answers


def queries_now(ctx, x, kind, salt, info0):
    """all non-matching queries on a live object, against the graph it exposes now"""
    st = state_of(x)
    edges = [tuple(e) for e in st["edges"]]
    info = dict(info0, n=st["n"], edges=[list(e) for e in edges], receiver=kind)
    gref = graph_reference(ctx, st["n"], edges, st["adj"], salt)
    check_queries(ctx, x, kind, st["n"], st["adj"], salt, info, gref)
    return st, gref


def check_interleaved(ctx, rng, x, kind, others, info0):
    """several traversals alive at the same time (on the same object and on others), stepped in turn, with ring and
    adjacency queries between the steps: every sequence is judged like a traversal that ran alone"""
    R = REF
    st = state_of(x)
    n = st["n"]
    br = R.bridges(n, [tuple(e) for e in st["edges"]])
    runs = []

    def add(obj, sto, s, d, with_dist, tag):
        dist = R.bfs_dist(sto["adj"], s)
        if d is None:
            exp, alt = {v: k for v, k in dist.items() if v != s}, None
        else:
            exp = R.through(sto["adj"], s, d)
            alt = {v: dist[v] for v in exp}
        f = obj.yield_bfsd if with_dist else obj.yield_bfs
        a_s = sto["atoms"][s] if rng.random() < 0.5 else s
        gen = f(a_s) if d is None else f(a_s, sto["atoms"][d] if rng.random() < 0.5 else d)
        op = ("bfsd" if with_dist else "bfs") + ("" if d is None else "-dir") + "-interleaved"
        runs.append({"gen": gen, "op": op, "st": sto, "s": s, "exp": exp, "alt": alt, "with_dist": with_dist, "items": [],
                     "info": dict(info0, n=sto["n"], edges=[list(e) for e in sto["edges"]], start=s, direction=d,
                                  receiver=tag, alive_together=0)})

    for t in range(rng.randint(2, 4)):
        s = rng.randrange(n)
        d = rng.choice(sorted(st["adj"][s])) if st["adj"][s] and rng.random() < 0.4 else None
        add(x, st, s, d, rng.random() < 0.5, kind)
    r0 = runs[0]
    add(x, st, r0["s"], None, not r0["with_dist"], kind)  # the same start twice
    for tag, y in others:
        sty = state_of(y)
        if sty["n"]:
            add(y, sty, rng.randrange(sty["n"]), None, rng.random() < 0.5, tag)
    alive = list(range(len(runs)))
    tick = 0
    failed = set()
    while alive:
        for gi in list(alive):
            r = runs[gi]
            r["info"]["alive_together"] = max(r["info"]["alive_together"], len(alive))
            try:
                r["items"].append(next(r["gen"]))
            except StopIteration:
                alive.remove(gi)
                continue
            except Exception as e:  # noqa
                ctx.violation(f"{r['op']}:raises:{_exc(e)}", err=repr(e)[:200], **r["info"])
                alive.remove(gi)
                failed.add(gi)
                continue
            if len(r["items"]) > 2 * r["st"]["n"] + 4:
                alive.remove(gi)
            # between two steps: other queries on the same object
            tick += 1
            try:
                if st["bonds"] and tick % 2 == 0:
                    k = (tick // 2) % len(st["bonds"])
                    ctx.count("interleaved.ring-query")
                    got = bool(x.is_bond_in_ring(st["bonds"][k]))
                    bridge = tuple(sorted(st["edges"][k])) in br
                    if got and bridge:
                        ctx.violation("ring-interleaved:bridge-reported-in-ring", bond=list(st["edges"][k]), **r["info"])
                    if not got and not bridge:
                        ctx.violation("ring-interleaved:ring-bond-reported-not-in-ring", bond=list(st["edges"][k]),
                                      **r["info"])
                elif tick % 2 == 1:
                    v = tick % n
                    got = sorted(st["idx"].get(id(a), -1) for a in take(x.connected_atoms(v), len(st["edges"]) + 2))
                    if got != sorted(st["adj"][v]):
                        ctx.violation("connected_atoms-interleaved:differs-from-bond-list", got=got,
                                      expected=sorted(st["adj"][v]), atom=v, **r["info"])
            except Exception as e:  # noqa
                ctx.violation(f"query-between-traversal-steps:raises:{_exc(e)}", err=repr(e)[:200], **r["info"])
    for gi, r in enumerate(runs):
        if gi in failed:
            continue
        ctx.count("interleaved.traversal")
        if r["info"]["alive_together"] >= 2:
            ctx.count("interleaved.traversal.with-another-alive")
        judge_traversal(ctx, r["op"], r["items"], r["with_dist"], r["st"]["idx"], r["s"], r["exp"], r["alt"], r["info"])


def judge_exact(ctx, op, got, expected, structural, info):
    """results of a search under caller-supplied matchers: exactly the reference set under those predicates"""
    info = dict(info, got=sorted(got)[:12], n_got=len(got), n_expected=len(expected), expected=sorted(expected)[:12])
    if len(set(got)) != len(got):
        ctx.violation(f"{op}:duplicate-embedding", **info)
    extra = sorted(set(got) - set(expected))
    if extra:
        why = structural(extra[0]) or "rejected-by-the-given-matcher"
        ctx.violation(f"{op}:invalid-embedding:{why}", image=list(extra[0]), **info)
    missed = sorted(set(expected) - set(got))
    if missed:
        ctx.violation(f"{op}:missed-embedding", missed=missed[:6], **info)


def check_user_matchers(ctx, rng, x, kind, info0):
    """match(pattern, node_match=f) / match(pattern, edge_match=f) / both: the caller's predicate replaces the
    library's own for that kind of object and only for that kind; the answer is the set of induced embeddings under it.
    The predicates are symmetric in their two arguments (no assumption on the order target / pattern)."""
    R, L = REF, LIB
    st = state_of(x)
    n, adj, tlab = st["n"], st["adj"], st["lab"]
    tb = {frozenset(e): b.btype.name for e, b in zip(st["edges"], st["bonds"])}
    tq = [a.formal_charge for a in st["atoms"]]
    verts = R.random_connected_subset(rng, adj, rng.randint(2, 4))
    pedges = R.induced(verts, adj)
    pn = len(verts)
    padj = R.adjacency(pn, pedges)
    plab = [WILD if rng.random() < 0.3 else tlab[v] for v in verts]
    # (1) plain atoms, typed bonds: the target's own types, some replaced by another one (also by types the library's own
    #     bond rule would refuse or cannot handle)
    pb = {}
    bspecs = []
    for i, j in pedges:
        t = tb[frozenset((verts[i], verts[j]))]
        if rng.random() < 0.5:
            t = rng.choice(["Single", "Double", "Triple", "Aromatic", "Dummy", "NotConnected", "H_Donor"])
        pb[frozenset((i, j))] = t
        bspecs.append({"i": i, "j": j, "btype": t})
    p_typed = build_pattern("conn" if rng.random() < 0.5 else "mol", plab, pedges,
                            aspecs=[{"element": e} for e in plab], bspecs=bspecs)
    # (2) wildcard bonds, atoms with element and formal charge of the place they were drawn from (some charges changed)
    pq = [tq[v] if rng.random() < 0.7 else rng.choice([0, 1, -1]) for v in verts]
    pel = [tlab[v] for v in verts]
    p_wild = build_pattern("mol" if rng.random() < 0.5 else "conn", pel, pedges)
    for a, q in zip(p_wild.atoms, pq):
        a.formal_charge = q

    def any_pair(d1, d2):
        return True

    def same_btype(d1, d2):
        return d1["btype"] == d2["btype"]

    def same_element_and_charge(d1, d2):
        return d1["element"] == d2["element"] and d1["formal_charge"] == d2["formal_charge"]

    def el_rule(lab):
        return lambda i, t: lab[i] == WILD or lab[i] == tlab[t]

    jobs = [
        ("edge_match-given-alone:any-bond", p_typed, {"edge_match": any_pair}, el_rule(plab), lambda pe, te: True),
        ("edge_match-given-alone:equal-bond-type", p_typed, {"edge_match": same_btype}, el_rule(plab),
         lambda pe, te: pb[pe] == tb[te]),
        ("node_match-given-alone:any-atom", p_wild, {"node_match": any_pair}, lambda i, t: True, lambda pe, te: True),
        ("node_match-given-alone:equal-element-and-charge", p_wild, {"node_match": same_element_and_charge},
         lambda i, t: pel[i] == tlab[t] and pq[i] == tq[t], lambda pe, te: True),
        ("both-matchers-given", p_typed, {"node_match": any_pair, "edge_match": same_btype}, lambda i, t: True,
         lambda pe, te: pb[pe] == tb[te]),
    ]
    wild_lab = [WILD] * pn
    for name, pat, kw, node_ok, edge_ok in jobs:
        try:
            expected = R.embeddings_pred(padj, adj, node_ok, edge_ok, cap=1500)
        except R.TooMany:
            ctx.count("user-matcher.skipped-too-many-embeddings")
            continue
        ctx.count("user-matcher." + name.split(":")[0])
        ctx.count("user-matcher.expected-nonempty" if expected else "user-matcher.expected-empty")
        if rng.random() < 0.34:
            R.cross_check_embeddings_pred(pn, pedges, n, st["edges"], node_ok, edge_ok, expected)
            ctx.count("ref.nx.embeddings-under-predicates")
        info = dict(info0, receiver=kind, matcher=name,
                    target={"n": n, "edges": [list(e) for e in st["edges"]], "elements": tlab,
                            "btypes": [tb[frozenset(e)] for e in st["edges"]], "charges": tq},
                    pattern={"n": pn, "edges": [list(e) for e in pedges],
                             "elements": plab if pat is p_typed else pel,
                             "btypes": [pb[frozenset(e)] for e in pedges] if pat is p_typed else "wildcard",
                             "charges": None if pat is p_typed else pq})
        op = "match:" + name
        try:
            got = results_of_match(ctx, op, x, pat, st["idx"], 2 * len(expected) + 8, info, **kw)
        except NotImplementedError as e:
            # only the library's own bond rule raises this: the caller's predicate was not the one asked
            ctx.violation(f"{op}:raises:NotImplementedError", err=repr(e)[:200], **info)
            continue
        if got is not None:
            judge_exact(ctx, op, got, expected,
                        lambda img: R.embedding_defect(img, padj, wild_lab, adj, tlab, WILD), info)


def large_answer_case(ctx, rng, g):
    """targets and wildcard patterns with more than 1000 induced embeddings: none may be missed"""
    R = REF
    shape = rng.choice(["star", "star", "bipartite"])
    if shape == "star":
        leaves = rng.randint(33, 39)
        n = leaves + 1
        edges = [(0, i) for i in range(1, n)]
        tlab = ["C"] + [rng.choice(["H", "H", "F"]) for _ in range(leaves)]
        pedges = [(0, 1), (1, 2)]
        plab = [WILD, rng.choice([WILD, "C"]), WILD]
    else:
        a = rng.choice([3, 4])
        b = rng.randint(20, 26) if a == 3 else rng.randint(17, 22)
        n = a + b
        edges = [(i, a + j) for i in range(a) for j in range(b)]
        tlab = ["N"] * a + ["C"] * b
        pedges = [(0, 1), (1, 2)]
        plab = [rng.choice([WILD, "C"]), rng.choice([WILD, "N"]), WILD]
    perm = list(range(n))
    rng.shuffle(perm)
    edges = [(perm[i], perm[j]) if rng.random() < 0.5 else (perm[j], perm[i]) for i, j in edges]
    lab = [None] * n
    for i, e in enumerate(tlab):
        lab[perm[i]] = e
    rng.shuffle(edges)
    order = [0, 1, 2]
    rng.shuffle(order)
    pedges = [(order[i], order[j]) for i, j in pedges]
    pl = [None] * 3
    for i, e in enumerate(plab):
        pl[order[i]] = e
    adj, padj = R.adjacency(n, edges), R.adjacency(3, pedges)
    expected = R.embeddings_bt(padj, pl, adj, lab, WILD)
    if len(expected) <= 1000:
        raise RuntimeError(f"harness: large-answer case has only {len(expected)} embeddings")
    aspecs = [atom_spec(rng, e, rich=True) for e in lab]
    bspecs = [bond_spec(rng, i, j, rich=True, btypes=RAND_BTYPES) for i, j in edges]
    kind = KINDS[g % 3]
    x = build(kind, aspecs, bspecs, route=rng.randrange(3))
    idx = graph_of(x)[2]
    pobj = build_pattern("conn" if g % 2 else "mol", pl, pedges)
    ctx.count("match.large-answer")
    info = {"target": {"n": n, "shape": shape, "edges": [list(e) for e in edges], "elements": lab},
            "pattern": {"n": 3, "edges": [list(e) for e in pedges], "elements": pl}, "expected": sorted(expected)[:6]}
    via_match = rng.random() < 0.5
    check_match(ctx, x, kind, pobj, idx, padj, pl, adj, lab, expected, info, do_match=via_match, do_substr=not via_match)


def chunk_dyn(spec, ctx):
    R, L = REF, LIB
    for g in range(spec["lo"], spec["hi"]):
        case = ["dyn", g]
        if not ctx.want(case):
            continue
        rng = ctx.rng("dyn", g)
        kind = KINDS[g % 3]
        n = rng.randint(5, 13)
        style, edges = R.random_graph(rng, n)
        adj = R.adjacency(n, edges)
        pal = rng.choice(DYN_PALETTES)
        tlab = [rng.choice(pal) for _ in range(n)]
        aspecs = [atom_spec(rng, e, rich=True) for e in tlab]
        for i, a in enumerate(aspecs):  # labels that name one atom (mostly), so that the label form of AtomLike is usable
            a["label"] = rng.choice([f"a{i}", f"a{i}", f"a{i}", "twin", None])
        bspecs = [bond_spec(rng, i, j, rich=True, btypes=RAND_BTYPES) for i, j in edges]
        ctx.case(case, dkey=("dyn", n, sorted(tuple(sorted(e)) for e in edges), tuple(tlab)),
                 nontrivial=nontrivial(n, edges, adj),
                 sample={"n": n, "style": style, "edges": [list(e) for e in edges], "elements": tlab, "receiver": kind})
        ctx.count("dyn.cases")
        salt = rng.randrange(6)
        x = build(kind, aspecs, bspecs, route=rng.randrange(3), by_atom=rng.random() < 0.5)
        if not same_graph(graph_of(x)[3], bspecs):
            raise RuntimeError("harness: receiver exposes another graph than requested")
        confs = [x[i] for i in range(x.n_conformers)] if kind == "ens" else []  # live views, made before any edit
        st = state_of(x)
        p_edit = subset_pattern(rng, st, rng.randint(2, 4), "conn" if g % 2 else "mol", rng.choice([0.0, 0.3, 0.6]))
        p_keep = subset_pattern(rng, st, rng.randint(1, 3), "mol" if g % 2 else "conn", rng.choice([0.0, 0.3]))
        prev = {}
        # --- (1) the same receiver and the same pattern objects, edited between the calls
        for step in range(DYN_STEPS + 1):
            after = "nothing"
            if step:
                if step % 2 == 1:
                    after = "target:" + edit_graph(rng, x, pal, wild=False, allow_atoms=kind != "ens", max_atoms=15)
                    ctx.count("dyn.target-edit." + after[7:])
                    if after[7:] in ("element-changed", "bond-moved", "bond-repointed", "bond-type-changed", "connect_like"):
                        ctx.count("dyn.target-edit.counts-kept")
                else:
                    after = "pattern:" + edit_graph(rng, p_edit, list(pal) + [WILD], wild=True, allow_atoms=True,
                                                    max_atoms=5)
                    ctx.count("dyn.pattern-edit." + after[8:])
            recv, rkind = x, kind
            if confs and step % 2 == 1:
                recv, rkind = confs[(step // 2) % len(confs)], "conformer"
            info0 = {"after": after, "step": step}
            st, _ = queries_now(ctx, recv, rkind, salt, info0)
            pats = [("edited-between-calls", p_edit), ("kept", p_keep),
                    ("fresh", subset_pattern(rng, st, rng.randint(1, 4), "conn", rng.choice([0.0, 0.3, 1.0]),
                                             connected=rng.random() < 0.75))]
            ans = match_objects(ctx, recv, rkind, pats, info0, "dyn.match.decide", xref=step % 3 == 0)
            if step:
                ctx.count("dyn.match.after-edit", len(ans))
                for role in ("edited-between-calls", "kept"):
                    if role in ans and role in prev and ans[role] != prev[role]:
                        ctx.count("dyn.match.answer-changed-by-edit")
                        ctx.count("dyn.match.answer-changed-by-" + after.split(":")[0] + "-edit")
            prev = ans
        # --- (2) views and receivers that lent their atoms
        st = state_of(x)
        views = [("conformer", c) for c in confs]
        if kind in ("mol", "ens") and st["n"] >= 2:
            from molli.chem import Substructure
            owner = x if kind == "mol" else confs[rng.randrange(len(confs))]
            for t in range(2):
                subset = rng.sample(range(st["n"]), rng.randint(2, st["n"]))
                try:
                    sub = Substructure(owner, subset if t else [st["atoms"][v] for v in subset])
                except Exception:  # noqa  (making the view is not a query of this property; REQUIRED sees the lack)
                    ctx.count("view.substructure.could-not-be-made")
                    continue
                got = sorted(sorted(subset[i] for i in e) for e in graph_of(sub)[3])
                want = sorted(sorted(subset[i] for i in e) for e in R.induced(subset, st["adj"]))
                if got != want or [st["idx"][id(a)] for a in sub.atoms] != subset:
                    raise RuntimeError(f"harness: Substructure on {subset} exposes {got}, induced subgraph is {want}")
                views.append(("substructure", sub))
        for vkind, v in views:
            ctx.count("view." + vkind)
            info0 = {"after": "view-made", "view_of": kind}
            stv, _ = queries_now(ctx, v, vkind, salt, info0)
            pats = [("kept", p_keep), ("edited-between-calls", p_edit),
                    ("fresh", subset_pattern(rng, stv, rng.randint(1, 4), "mol", rng.choice([0.0, 0.3])))]
            match_objects(ctx, v, vkind, pats, info0, "view.match.decide")
        # the atoms are handed to another object (which is kept alive): the receiver still lists them, its answers stay
        k0 = rng.randrange(st["n"])
        borrowed = list(st["atoms"])[k0:] + (list(st["atoms"])[:k0] if rng.random() < 0.5 else [])
        borrower = (L.Connectivity if rng.random() < 0.5 else L.Molecule)(borrowed)
        ctx.count("lent-atoms.receivers")
        info0 = {"after": "atoms-lent-to-another-object", "lent_from": k0}
        st, gref = queries_now(ctx, x, kind, salt, info0)
        pats = [("kept", p_keep), ("fresh", subset_pattern(rng, st, rng.randint(2, 4), "conn", 0.3))]
        match_objects(ctx, x, kind, pats, info0, "lent-atoms.match.decide")
        if borrower.n_atoms != len(borrowed):
            raise RuntimeError("harness: borrower lost atoms")
        # --- (3) traversals alive together
        others = [(vk, v) for vk, v in views[-2:]]
        if not others:
            others = [("copy", type(x)(x))]
        check_interleaved(ctx, rng, x, kind, others, {"after": "edits"})
        if views:
            vk, v = views[-1]
            check_interleaved(ctx, rng, v, vk, [(kind, x)], {"after": "edits"})
        # --- (4) caller-supplied matchers
        for t in range(2):
            check_user_matchers(ctx, rng, x if t == 0 or not views else views[-1][1],
                                kind if t == 0 or not views else views[-1][0], {"after": "edits"})
        # --- (5) large answers
        if g % 10 == 0:
            large_answer_case(ctx, rng, g)


def run_chunk(spec, ctx):
    import time

    setup()
    kind = spec["kind"]
    t0 = time.process_time()
    try:
        _run_chunk(kind, spec, ctx)
    finally:
        ctx.note("cpu_s." + kind, round(time.process_time() - t0, 2))  # evidence only, never decides anything


def _run_chunk(kind, spec, ctx):
    if kind == "exh":
        chunk_exh(spec, ctx)
    elif kind == "exh7":
        chunk_exh7(spec, ctx)
    elif kind == "xmatch":
        chunk_xmatch(spec, ctx)
    elif kind == "rand":
        chunk_rand(spec, ctx)
    elif kind == "dyn":
        chunk_dyn(spec, ctx)
    else:
        raise ValueError(kind)


def post(run, results):
    total = sum(N_EXH.values())
    done = run.counters.get("exh.graphs", 0)
    run.extra["exhaustive_part"] = {
        "space": "all labelled simple graphs on 1..6 vertices", "size": total, "enumerated": done,
        "complete": done == total,
        "per_graph": "every start x {yield_bfsd, yield_bfs}, every (start, neighbour) direction x 2, every bond, every atom x 4 "
                     "adjacency queries; on Connectivity, Molecule and ConformerEnsemble (quick tier: 6-vertex graphs on one "
                     "seeded class of the three)",
        "receivers_run": {k: run.counters.get("recv." + k, 0) for k in KINDS}}
