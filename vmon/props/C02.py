"""
C02 -- a UKV file / UKV-backed Collection is an insert-only map over any operation history.

Monitor shape: executable reference model (vmon/models/kvmap.py) stepped beside the real objects, compared after
every operation, plus an independent raw-file scanner run whenever a writer has closed.
"""
from __future__ import annotations

import itertools

ID = "C02"
LEVEL = "exploration"
RULE = ("(a) bounded-exhaustive: every discipline-respecting sequence of <=5 (quick) / 6 (thorough) operations over "
        "{open r/a, close, put a(dup)/b(new)/256-byte key, get a/b, keys} x 2 handles on a file with one committed record; "
        "(b) seeded random UKVFile histories of 30-200 ops on 1-3 handles (keys of 0/1/255/256 bytes, binary keys, values "
        "0..70000 bytes, pickled-and-restored handles, reopenings); (c) random Collection+UkvCollectionBackend session "
        "histories on 1-3 collection objects with bufsize in {-1,0,64,1e6}. non-trivial = history has a reopen or a second "
        "handle AND a failing operation or a stale cached table of contents; distinct by canonical history string")
ASSUMPTIONS = [
    "session discipline of the backends: any number of read handles may be open together, a writable handle is the only "
    "open handle (keeping sessions apart is C04's subject)",
    "a stale handle must serve the keys it has seen; it need not see another handle's writes before its next open",
    "h1 is compared modulo the NUL padding of its 16-byte field",
]
REQUIRED = {"ukv.op": 2000, "ukv.failing-op": 200, "ukv.rawscan": 200, "ukv.reopen-stale": 50,
            "coll.session": 200, "coll.in-session-read": 200, "exh.sequences": 1000,
            "rejected.cases": 100, "coll.buffered-duplicate-put": 30, "rejected.duplicate-of-a-queued-record": 20}
CHUNK_TIMEOUT = 900
TECHNIQUE = "runtime monitoring: reference map model stepped beside real UKVFile/Collection handles + independent raw-file scan"
LEVEL_TEXT = ("Held on the histories produced: the real UKVFile / Collection objects are driven through exhaustive short and "
              "random long operation histories; after every operation results, key listings and (after writer close) the "
              "raw bytes are compared with a 60-line reference model and an independent scanner.")
LEVEL_NOTE = "Trusted: vmon/models/kvmap.py (model + scanner), the session discipline stated in ASSUMPTIONS."

K256 = b"K" * 256
K255 = b"k" * 255


def plan(tier, seed):
    specs = []
    L = 5 if tier == "quick" else 6
    # exhaustive: partition by the first two operations
    firsts = list(range(18))
    for f in firsts:
        specs.append({"kind": "exh", "first": f, "L": L})
    nrand = 48 if tier == "quick" else 320
    for i in range(nrand):
        specs.append({"kind": "rand", "chunk": i, "n": 12 if tier == "quick" else 30})
    for i in range(8 if tier == "quick" else 32):
        specs.append({"kind": "rejected", "chunk": i, "n": 30 if tier == "quick" else 100})
    ncoll = 48 if tier == "quick" else 320
    for i in range(ncoll):
        specs.append({"kind": "coll", "chunk": i, "n": 12 if tier == "quick" else 30})
    return specs


# ------------------------------------------------------------------------------------------------
# operation alphabet of the exhaustive part

def exh_alphabet():
    ops = []
    for h in (0, 1):
        ops += [("open", h, "r"), ("open", h, "a"), ("close", h),
                ("put", h, b"a", b"x"), ("put", h, b"b", b""), ("put", h, K256, b"x"),
                ("get", h, b"a"), ("get", h, b"b"), ("keys", h)]
    return ops


def run_chunk(spec, ctx):
    if spec["kind"] == "rejected":
        return run_coll_rejected(spec, ctx)
    if spec["kind"] == "exh":
        run_exhaustive(spec, ctx)
    elif spec["kind"] == "rand":
        run_random(spec, ctx)
    else:
        run_coll(spec, ctx)


# ------------------------------------------------------------------------------------------------

class UkvDriver:
    """steps the real handles and the model together"""

    def __init__(self, ctx, path, case, h1=None, h2=b"", b0=b"", initial=()):
        from molli.storage.ukvfile import UKVFile
        from vmon.models.kvmap import KVModel

        self.UKVFile = UKVFile
        self.ctx, self.path, self.case = ctx, path, case
        self.hist = []
        self.flags = set()
        creator = UKVFile(path, mode="w", h1=h1, h2=h2, b0=b0)
        self.h1 = (h1 or UKVFile.FILE_H1_DEFAULT)
        self.model = KVModel(self.h1, h2 or b"", b0 or b"")
        for k, v in initial:
            creator.put(k, v)
            self.model.committed[k] = v
        creator.close()
        self.objs = {}
        self.ok = True

    def v(self, key, **detail):
        self.ok = False
        self.ctx.violation(key, case=self.case, history=[_fmt(o) for o in self.hist[-12:]], **detail)

    def allowed(self, op):
        kind, h = op[0], op[1]
        if kind == "open":
            return self.model.may_open(h, op[2])
        if kind == "pickle":
            return h in self.objs and not self.model.handle(h).open
        if kind == "close":
            return h in self.objs and self.model.handle(h).open
        return h in self.objs  # put/get/keys need a constructed handle

    def step(self, op):
        import io
        import pickle

        ctx, m = self.ctx, self.model
        self.hist.append(op)
        kind, h = op[0], op[1]
        ctx.count("ukv.op")
        if kind == "open":
            mode = op[2]
            stale = h in self.objs and set(self.objs[h].keys()) != set(m.committed)
            try:
                if h not in self.objs:
                    self.objs[h] = self.UKVFile(self.path, mode=mode)
                else:
                    self.objs[h].open(mode)
            except Exception as e:  # noqa
                self.v(f"ukv:open-{mode}:raises:{type(e).__name__}", err=repr(e)[:200])
                return
            m.do_open(h, mode)
            if stale:
                ctx.count("ukv.reopen-stale")
                self.flags.add("stale")
            if len(self.objs) > 1:
                self.flags.add("multi")
            o = self.objs[h]
            if o.h1.rstrip(b"\0") != m.h1.rstrip(b"\0") or o.h2 != m.h2 or o.b0 != m.b0:
                self.v("ukv:open:headers-differ", got=[o.h1, o.h2, o.b0], want=[m.h1, m.h2, m.b0])
        elif kind == "close":
            was_writer = m.handle(h).open and m.handle(h).mode == "a"
            try:
                self.objs[h].close()
            except Exception as e:  # noqa
                self.v(f"ukv:close:raises:{type(e).__name__}", err=repr(e)[:200])
            m.do_close(h)
            if was_writer:
                self.rawscan()
        elif kind == "pickle":
            self.objs[h] = pickle.loads(pickle.dumps(self.objs[h]))
            self.flags.add("multi")
        elif kind == "put":
            k, val = op[2], op[3]
            exp = m.expect_put(h, k, val)
            try:
                self.objs[h].put(k, val)
                raised = None
            except Exception as e:  # noqa
                raised = e
            if exp[0] == "ok":
                if raised is not None:
                    self.v(f"ukv:put:valid-put-raises:{type(raised).__name__}", klen=len(k), vlen=len(val))
                else:
                    m.do_put(h, k, val)
            else:
                ctx.count("ukv.failing-op")
                ctx.count(f"ukv.failing-op.{exp[1]}")
                self.flags.add("fail")
                if raised is None:
                    self.v(f"ukv:put:{exp[1]}:accepted", klen=len(k), vlen=len(val))
                    return
                self.after_failure(f"put:{exp[1]}")
        elif kind == "get":
            k = op[2]
            exp = m.expect_get(h, k)
            try:
                got = self.objs[h].get(k)
                raised = None
            except Exception as e:  # noqa
                raised = e
            if exp[0] == "value":
                if raised is not None:
                    self.v(f"ukv:get:known-key-raises:{type(raised).__name__}", klen=len(k))
                elif got != exp[1]:
                    self.v("ukv:get:wrong-value", klen=len(k), got_len=len(got), want_len=len(exp[1]),
                           got_head=got[:24], want_head=exp[1][:24])
            else:
                ctx.count("ukv.failing-op")
                ctx.count(f"ukv.failing-op.get-{exp[1]}")
                if raised is None:
                    self.v(f"ukv:get:{exp[1]}:returns-value", klen=len(k), got_len=len(got))
        elif kind == "keys":
            pass
        self.check_views(kind)

    def check_views(self, after):
        for h, o in self.objs.items():
            want = self.model.expect_keys(h)
            got = set(o.keys())
            if got != want:
                extra = sorted(got - want)[:3]
                missing = sorted(want - got)[:3]
                self.v(f"ukv:keys:{'phantom' if extra else 'missing'}-key-after-{after}",
                       handle=h, extra=[len(x) for x in extra], missing=[len(x) for x in missing],
                       open=self.model.handle(h).open)
                # resynchronise so one defect is reported once per history
                self.model.handle(h).view = got

    def after_failure(self, what):
        """a failing operation leaves every handle's view unchanged and every known key readable"""
        for h, o in self.objs.items():
            hd = self.model.handle(h)
            if not hd.open:
                continue
            for k in sorted(hd.view)[:6]:
                try:
                    got = o.get(k)
                except Exception as e:  # noqa
                    self.v(f"ukv:{what}:known-key-unreadable-afterwards:{type(e).__name__}", klen=len(k))
                    continue
                if got != self.model.committed[k]:
                    self.v(f"ukv:{what}:value-changed-afterwards", klen=len(k))

    def rawscan(self):
        from vmon.models.kvmap import scan, ScanError

        self.ctx.count("ukv.rawscan")
        data = self.path.read_bytes()
        try:
            h1, h2, b0, recs, end = scan(data)
        except ScanError as e:
            self.v("ukv:rawscan:file-not-a-clean-record-sequence", err=str(e))
            return
        got = [(k, v) for k, v, _ in recs]
        want = list(self.model.committed.items())
        if got != want:
            self.v("ukv:rawscan:records-differ-from-model", n_got=len(got), n_want=len(want),
                   first_diff=next((i for i, (a, b) in enumerate(itertools.zip_longest(got, want)) if a != b), None))
        if h1.rstrip(b"\0") != self.model.h1.rstrip(b"\0") or h2 != self.model.h2 or b0 != self.model.b0:
            self.v("ukv:rawscan:headers-differ")

    def finish(self):
        for h, o in list(self.objs.items()):
            if self.model.handle(h).open:
                self.step(("close", h))
        self.rawscan()
        # a fresh reader sees exactly the committed map
        o = self.UKVFile(self.path, mode="r")
        try:
            if set(o.keys()) != set(self.model.committed):
                self.v("ukv:fresh-reader:keys-differ")
            for k, val in list(self.model.committed.items())[:40]:
                if o.get(k) != val:
                    self.v("ukv:fresh-reader:wrong-value", klen=len(k))
        finally:
            o.close()


def _fmt(op):
    out = []
    for x in op:
        if isinstance(x, (bytes, bytearray)):
            out.append(f"<{len(x)}B:{bytes(x[:6])!r}>")
        else:
            out.append(x)
    return out


def canon(hist):
    return ";".join(",".join(str(y) if not isinstance(y, bytes) else f"{len(y)}:{y[:4].hex()}" for y in op) for op in hist)


def feasible(ops):
    """pure-model dry run: does the sequence respect the session discipline and only touch constructed handles?"""
    from vmon.models.kvmap import KVModel

    m = KVModel()
    m.committed[b"a"] = b"0"
    made = set()
    for op in ops:
        kind, h = op[0], op[1]
        if kind == "open":
            if not m.may_open(h, op[2]):
                return False
            m.do_open(h, op[2])
            made.add(h)
        elif h not in made:
            return False
        elif kind == "close":
            if not m.handle(h).open:
                return False
            m.do_close(h)
        elif kind == "put" and m.expect_put(h, op[2], op[3])[0] == "ok":
            m.do_put(h, op[2], op[3])
    return True


def run_exhaustive(spec, ctx):
    ops = exh_alphabet()
    L = spec["L"]
    first = ops[spec["first"]]
    path = ctx.tmp / "e.ukv"
    n = 0

    def rec(prefix):
        nonlocal n
        # execute prefix from scratch, pruning by the model as we go
        if len(prefix) >= 1:
            case = ("exh", spec["first"], canon(prefix))
            if not feasible(prefix):
                return False
            if ctx.want(case):
                d = UkvDriver(ctx, path, case, initial=[(b"a", b"0")])
                for op in prefix:
                    assert d.allowed(op)
                    d.step(op)
                d.finish()
                n += 1
                ctx.count("exh.sequences")
                nt = ("fail" in d.flags) and ("multi" in d.flags or "stale" in d.flags)
                ctx.case(case, dkey=canon(prefix), nontrivial=nt,
                         sample={"history": [_fmt(o) for o in prefix]} if n % 997 == 1 else None)
        if len(prefix) == L:
            return True
        for op in ops:
            # symmetry: handle 1 is only touched after handle 0 was opened once
            if op[1] == 1 and not any(p[0] == "open" and p[1] == 0 for p in prefix):
                continue
            rec(prefix + [op])
        return True

    # an infeasible first op contributes nothing
    rec([first])


def run_random(spec, ctx):
    sizes = [0, 1, 2, 100, 8191, 8192, 8193, 20000]
    for j in range(spec["n"]):
        case = ("rand", spec["chunk"], j)
        if not ctx.want(case):
            continue
        rng = ctx.rng(*case)
        path = ctx.tmp / f"r{j}.ukv"
        h1 = rng.choice([None, b"ML10Library", b"X" * 16, b"ab"])
        h2 = rng.choice([b"", b"comment \xc3\xa9", b"c" * 300])
        b0 = rng.choice([b"", b"\x81\xa1a\x01", bytes(range(256)) * 3])
        keypool = [b"", b"a", b"\x00", b"\xff\x00\xfe", b"key-1", b"key-2", K255, K256, K255[:-1] + b"z",
                   "ü".encode(), b"a" * 17, b"b" * 64] + [f"r{i}".encode() for i in range(rng.randrange(3, 30))]
        initial = [(k, bytes([rng.randrange(256)]) * rng.choice([0, 1, 50])) for k in rng.sample(keypool[:7], rng.randrange(0, 4))]
        d = UkvDriver(ctx, path, case, h1=h1, h2=h2, b0=b0, initial=initial)
        nh = rng.choice([1, 2, 2, 3])
        L = rng.randrange(30, 200)
        big = rng.random() < 0.15
        for _ in range(L):
            h = rng.randrange(nh)
            r = rng.random()
            hd = d.model.handle(h)
            if r < 0.16:
                op = ("open", h, rng.choice("ra"))
            elif r < 0.30:
                op = ("close", h)
            elif r < 0.33:
                op = ("pickle", h)
            elif r < 0.62:
                k = rng.choice(keypool)
                if rng.random() < 0.5 and hd.open and hd.mode == "a":
                    # steer towards valid fresh keys while a writer is open
                    fresh = [x for x in keypool if x not in d.model.committed and len(x) <= 255]
                    if fresh:
                        k = rng.choice(fresh)
                sz = rng.choice(sizes + ([70000] if big else []))
                val = bytes([rng.randrange(256)]) * sz if sz < 3 else rng.randbytes(sz)
                op = ("put", h, k, val)
            elif r < 0.9:
                pool = list(d.model.committed) or keypool
                k = rng.choice(pool) if rng.random() < 0.8 else rng.choice(keypool)
                op = ("get", h, k)
            else:
                op = ("keys", h)
            if not d.allowed(op):
                continue
            d.step(op)
            if not d.ok:
                break
        d.finish()
        nt = ("fail" in d.flags) and ("multi" in d.flags or "stale" in d.flags)
        ctx.case(case, dkey=canon(d.hist), nontrivial=nt,
                 sample={"n_ops": len(d.hist), "handles": nh, "tail": [_fmt(o) for o in d.hist[-5:]]})
        try:
            path.unlink()
        except OSError:
            pass


# ------------------------------------------------------------------------------------------------
# Collection + UkvCollectionBackend sessions

def run_coll(spec, ctx):
    from molli.storage import Collection, UkvCollectionBackend
    from vmon.models.kvmap import scan, ScanError

    for j in range(spec["n"]):
        case = ("coll", spec["chunk"], j)
        if not ctx.want(case):
            continue
        rng = ctx.rng(*case)
        path = ctx.tmp / f"c{j}.ukv"
        ncol = rng.choice([1, 2, 3])
        cols, bufs, ro = [], [], []
        comment = rng.choice([None, "cmt", "é" * 10])
        b0 = rng.choice([None, b"\x01\x02descriptor"])
        for c in range(ncol):
            bs = rng.choice([-1, 0, 64, 10**6])
            readonly = c > 0 and rng.random() < 0.3
            cols.append(Collection(path, UkvCollectionBackend, overwrite=(c == 0), readonly=readonly, bufsize=bs,
                                   comment=comment, b0=b0))
            bufs.append(bs)
            ro.append(readonly)
        committed: dict[str, bytes] = {}
        hist = []
        flags = set()
        bad = [False]

        def v(key, **detail):
            bad[0] = True
            ctx.violation(key, case=case, history=hist[-10:], bufsizes=bufs, **detail)

        keypool = ["a", "b", "k" * 255, "K" * 256, "ü" * 127, "ü" * 128, "sp ace"] + [f"i{i}" for i in range(25)]
        nsess = rng.randrange(3, 12)
        for s in range(nsess):
            c = rng.randrange(ncol)
            col = cols[c]
            writing = rng.random() < 0.65
            ctx.count("coll.session")
            if ncol > 1:
                flags.add("multi")
            if writing and ro[c]:
                hist.append(("writing-on-readonly", c))
                try:
                    with col.writing():
                        pass
                    v("coll:writing-session-on-readonly-collection-accepted")
                except Exception:  # noqa
                    flags.add("fail")
                    ctx.count("coll.failing-op")
                continue
            buffered = bufs[c] > 0
            pending: dict[str, bytes] = {}
            hist.append(("begin", "w" if writing else "r", c, bufs[c]))
            exit_may_raise = False
            try:
                with (col.writing() if writing else col.reading()):
                    listed = set(col.keys())
                    if listed != set(committed):
                        v("coll:keys-at-session-begin-differ", extra=sorted(listed - set(committed))[:3],
                          missing=sorted(set(committed) - listed)[:3])
                        if listed - set(committed):
                            break
                    for _ in range(rng.randrange(0, 10)):
                        r = rng.random()
                        if writing and r < 0.5:
                            k = rng.choice(keypool)
                            if rng.random() < 0.6:
                                fresh = [x for x in keypool if x not in committed and x not in pending and len(x.encode()) <= 255]
                                if fresh:
                                    k = rng.choice(fresh)
                            val = rng.randbytes(rng.choice([0, 1, 10, 100, 9000]))
                            dup = k in committed or k in pending
                            over = len(k.encode()) > 255
                            if buffered and over:
                                continue  # an oversize key in buffered mode fails in the flush at exit: C04's fail cases
                            if buffered and dup:
                                ctx.count("coll.buffered-duplicate-put")
                            hist.append(("set", k[:8], len(k.encode()), len(val)))
                            try:
                                col[k] = val
                                raised = None
                            except Exception as e:  # noqa
                                raised = e
                            if dup or over:
                                ctx.count("coll.failing-op")
                                flags.add("fail")
                                why = "duplicate" if dup else "oversize-key"
                                if raised is None:
                                    v(f"coll:set:{why}:accepted")
                                known = {**committed, **pending}
                                if raised is None and buffered:
                                    break       # (reported above) the doomed record sits in the queue: nothing more to learn
                                if dup:
                                    try:
                                        if col[k] != known[k]:
                                            v(f"coll:set:{why}:get-returns-the-rejected-value")
                                            break
                                    except Exception as e:  # noqa
                                        v(f"coll:set:{why}:stored-record-unreadable-after-failed-put:{type(e).__name__}")
                                        break
                                now = set(col.keys())
                                want = set(committed) | set(pending)
                                if now != want:
                                    v(f"coll:set:{why}:key-listing-changed-by-failed-put",
                                      extra=[len(x) for x in now - want], missing=[len(x) for x in want - now])
                                    break
                            else:
                                if raised is not None:
                                    v(f"coll:set:valid-put-raises:{type(raised).__name__}", err=repr(raised)[:200])
                                    break
                                (pending if buffered else committed)[k] = val
                                if not buffered:
                                    pass
                        elif r < 0.75:
                            # every listed key is readable (also the ones written in this session)
                            known = {**committed, **pending}
                            ks = sorted(col.keys())
                            if set(ks) != set(known):
                                v("coll:keys-in-session-differ", extra=[x[:8] for x in set(ks) - set(known)][:3],
                                  missing=[x[:8] for x in set(known) - set(ks)][:3])
                                break
                            for k in rng.sample(ks, min(len(ks), 4)):
                                ctx.count("coll.in-session-read")
                                hist.append(("get", k[:8]))
                                try:
                                    got = col[k]
                                except Exception as e:  # noqa
                                    v(f"coll:get:listed-key-unreadable:{'pending' if k in pending else 'committed'}:"
                                      f"{type(e).__name__}", k=k[:8])
                                    continue
                                if got != known[k]:
                                    v("coll:get:wrong-value", k=k[:8])
                        elif r < 0.85:
                            k = "nope" + str(rng.randrange(5))
                            hist.append(("get-unknown", k))
                            try:
                                got = col[k]
                                v("coll:get:unknown-key-returns-value", got_len=len(got))
                            except Exception:  # noqa
                                ctx.count("coll.failing-op")
                        elif writing and r < 0.92:
                            hist.append(("flush",))
                            col.flush()
                            committed.update(pending)
                            pending.clear()
                        else:
                            hist.append(("len", len(col)))
                            if len(col) != len(committed) + len(pending):
                                v("coll:len-differs")
                hist.append(("end",))
            except Exception as e:  # noqa
                v(f"coll:session-raises:{type(e).__name__}", err=repr(e)[:300])
                break
            committed.update(pending)
            # raw scan after each session
            try:
                _h1, h2, b0_, recs, _end = scan(path.read_bytes())
            except ScanError as e:
                v("coll:rawscan:file-not-a-clean-record-sequence", err=str(e))
                break
            got = {k.decode(): val for k, val, _ in recs}
            if got != committed or len(recs) != len(committed):
                v("coll:rawscan:records-differ-from-model", n_got=len(recs), n_want=len(committed))
                break
            if h2 != (comment or "").encode() or b0_ != (b0 or b""):
                v("coll:rawscan:headers-differ", h2=h2, b0=b0_)
            if bad[0]:
                break
        ctx.case(case, dkey=repr(hist), nontrivial=("fail" in flags and "multi" in flags),
                 sample={"collections": ncol, "bufsizes": bufs, "sessions": nsess, "records": len(committed)})
        try:
            path.unlink()
        except OSError:
            pass


# ------------------------------------------------------------------------------------------------
# a record the file rejects sits in the MIDDLE of a buffered collection's write queue

def run_coll_rejected(spec, ctx):
    """The user catches the error and carries on; the session (or the next one) completes.  Every record whose put was
    not the rejected one must then be in the file: a failing put leaves everything else as it was."""
    from molli.storage import Collection, UkvCollectionBackend
    from vmon.models.kvmap import scan, ScanError

    for j in range(spec["n"]):
        case = ("rejected", spec["chunk"], j)
        if not ctx.want(case):
            continue
        rng = ctx.rng(*case)
        path = ctx.tmp / f"rej{j}.ukv"
        bufsize = rng.choice([64, 300, 5000, 10**6])
        col = Collection(path, UkvCollectionBackend, readonly=False, overwrite=True, bufsize=bufsize)
        want = {}
        with col.writing():
            for i in range(3):
                col[f"k{i}"] = f"old-{i}".encode() * 4
                want[f"k{i}"] = f"old-{i}".encode() * 4
        bad_kind = rng.choice(["duplicate", "oversize-key", "duplicate-of-queued"])
        n_before, n_after = rng.randrange(0, 4), rng.randrange(1, 5)
        if bad_kind == "duplicate-of-queued":
            # the key was put earlier in this very session and may still sit in the write buffer: the first put stands
            n_before = max(n_before, 1)
            bad_key = f"a{rng.randrange(n_before)}"
            ctx.count("rejected.duplicate-of-a-queued-record")
        else:
            bad_key = "k1" if bad_kind == "duplicate" else "K" * 256
        plan = [("ok", f"a{i}") for i in range(n_before)] + [("bad", bad_key)] + [("ok", f"b{i}") for i in range(n_after)]
        explicit_flush = rng.random() < 0.4
        errors = []
        hist = [("bufsize", bufsize), ("bad", bad_kind, "at", n_before)]
        session_error = None
        try:
            with col.writing():
                for kind, k in plan:
                    val = rng.randbytes(rng.choice([0, 5, 40, 200]))
                    if kind == "ok":
                        want[k] = val
                    try:
                        col[k] = val if kind == "ok" else b"rejected-value"
                    except Exception as e:  # noqa   (the user catches the error and carries on)
                        errors.append(type(e).__name__)
                if explicit_flush:
                    try:
                        col.flush()
                    except Exception as e:  # noqa
                        errors.append(type(e).__name__)
                want["tail"] = b"T"
                try:
                    col["tail"] = b"T"
                except Exception as e:  # noqa
                    errors.append(type(e).__name__)
        except Exception as e:  # noqa   (the rejected record was still queued at session exit)
            session_error = e
            errors.append(type(e).__name__)
        # whatever is still queued goes out with the next session of this handle; that one must complete
        try:
            with col.writing():
                pass
        except Exception as e:  # noqa
            try:
                with col.writing():
                    pass
            except Exception as e2:  # noqa
                ctx.violation("rejected:handle-cannot-complete-a-session-any-more", case=case, hist=hist, err=repr(e2)[:200])
                continue
        ctx.count("rejected.cases")
        ctx.case(case, dkey=(bufsize, bad_kind, n_before, n_after, explicit_flush), nontrivial=True,
                 sample={"bufsize": bufsize, "rejected": bad_kind, "queued_before": n_before, "queued_after": n_after,
                         "errors_seen_by_user": errors})
        if not errors:
            ctx.violation(f"rejected:{bad_kind}:accepted-silently", case=case, hist=hist)
        try:
            _, _, _, recs, _ = scan(path.read_bytes())
        except ScanError as e:
            ctx.violation("rejected:file-not-a-clean-record-sequence", case=case, hist=hist, err=str(e))
            continue
        got = {k.decode(): v for k, v, _ in recs}
        lost = sorted(k for k in want if k not in got)
        if lost:
            where = "queued-behind-the-rejected-record" if any(k.startswith("b") or k == "tail" for k in lost) else "queued-before"
            ctx.violation(f"rejected:{bad_kind}:accepted-records-lost:{where}", case=case, hist=hist, lost=lost, errors=errors)
            continue
        wrong = sorted(k for k in want if got[k] != want[k])
        if wrong:
            ctx.violation(f"rejected:{bad_kind}:record-altered", case=case, hist=hist, keys=wrong)
        extra = sorted(set(got) - set(want))
        if extra:
            ctx.violation(f"rejected:{bad_kind}:rejected-record-stored-anyway", case=case, hist=hist, extra=[len(x) for x in extra])
        fresh = Collection(path, UkvCollectionBackend, readonly=True)
        with fresh.reading():
            if set(fresh.keys()) != set(want):
                ctx.violation(f"rejected:{bad_kind}:fresh-reader-lists-other-keys", case=case, hist=hist)
