"""
C02 -- a UKV file / UKV-backed Collection is an insert-only map over any operation history.

Monitor shape: executable reference model (vmon/models/kvmap.py) stepped beside the real objects, compared after
every operation, plus an independent raw-file scanner run whenever a writer has closed.
"""
from __future__ import annotations

import itertools

ID = "C02"
LEVEL = "exploration"
RULE = ("(a) bounded-exhaustive: every discipline-respecting sequence of <=5 (quick) / 6 (thorough) operations over "
        "{open r/a, close, put a(dup)/b(new)/256-byte key, get a/b, keys} x 2 handles on a file with one committed record; "
        "(a') the same, <=3 / 4 operations, with the handle that CREATED the file (mode w / x, still open or closed once) as "
        "handle 0: reopened by open() without a mode, `with handle:`, open r/a, read through before its first close, items(); "
        "(b) seeded random UKVFile histories of 30-200 ops on 1-3 handles (keys of 0/1/255/256 bytes, binary keys, values "
        "0..70000 bytes, pickled-and-restored handles, reopenings with and without a mode, the creating handle kept in the "
        "handle set, h[k] / h[k]=v, items() / values(), exclusive creation over the existing file, copy_items into a second file); "
        "(c) random Collection+UkvCollectionBackend session histories on 1-3 collection objects with bufsize in {-1,0,64,1e6}, "
        "h1 / comment / descriptor block passed through the creating call, the path fresh or holding an older UKV file that is "
        "replaced (overwrite=True) or kept, non-creating collections given other descriptor arguments, items() / values() / "
        "iteration / `in` inside sessions, puts through read-only collections, session bodies left by an exception; "
        "(d) a record the file rejects in the middle of a buffered collection's queue: view inside the session after every step, "
        "second put of an accepted key and explicit flush in the next session, a reading() session in between (also with "
        "records still queued after a failed exit flush); (e) between two sessions of (c) the file is created anew "
        "(overwrite=True) by a further collection object with the same / another number of records, the same / other keys, "
        "while the older objects, which listed and read the old file, stay in use; (f) MoleculeLibrary / ConformerLibrary "
        "objects creating / replacing / opening the file (comment given or not), records put through a plain Collection on "
        "the same path, comment and lib.descriptor compared with the raw header; in (b) also open('x') on a closed handle "
        "of the existing file followed by open() without a mode. non-trivial = history has a reopen or a second "
        "handle AND a failing operation or a stale cached table of contents; distinct by canonical history string")
ASSUMPTIONS = [
    "session discipline of the backends: any number of read handles may be open together, a writable handle is the only "
    "open handle (keeping sessions apart is C04's subject)",
    "a stale handle must serve the keys it has seen; it need not see another handle's writes before its next open",
    "h1 is compared modulo the NUL padding of its 16-byte field",
    "a handle that created the file is a writer; reopened without a mode it appends (it must not create the file again)",
    "a key longer than 255 bytes put into a buffered collection is only found out by the flush: until an error has been "
    "raised the collection may or may not list it; afterwards it must not",
    "a put that returned without an error is a successful put, also when the body of its writing session raises later: "
    "after that session the file holds every earlier record, every accepted record of the session and nothing else "
    "(oversize keys, which a buffered collection only finds out at the flush, are not put in such sessions)",
    "a get of a key that was never put raises (it does not return None or any other value)",
    "a put inside reading() of a writable collection, str keys/values without an encoder and pickling an OPEN handle are "
    "outside the property's wording and are not driven",
]
REQUIRED = {"ukv.op": 2000, "ukv.failing-op": 200, "ukv.rawscan": 200, "ukv.reopen-stale": 50,
            "coll.session": 200, "coll.in-session-read": 200, "exh.sequences": 1000,
            "rejected.cases": 100, "coll.buffered-duplicate-put": 30, "rejected.duplicate-of-a-queued-record": 20,
            # added after the gap review
            "exh.creator-sequences": 2000, "ukv.creator-kept.w": 1000, "ukv.creator-kept.x": 1000,
            "ukv.creator-read-before-first-close": 800, "ukv.creator-put-before-first-close": 700,
            "ukv.creator-reopen-without-mode": 600, "ukv.bulk-read": 1000, "ukv.copy-items": 100, "ukv.file-recreated-under-closed-handles": 100, "ukv.item-syntax": 2500,
            "ukv.failing-op.create-x-on-existing-file": 300,
            "coll.bulk-read.with-queued-records": 150, "coll.h1-passed": 180, "coll.start.old-file-replaced": 90,
            "coll.start.old-file-kept": 40, "coll.write-on-readonly": 190, "coll.write-on-readonly.in-reading-session": 100,
            "coll.session-body-raised": 150, "rejected.in-session-view.after-an-error": 300,
            "rejected.flush-raises-with-records-queued-behind": 12,
            "rejected.second-put-while-the-first-is-still-queued": 15,
            # added after the second gap review
            "rejected.reading-session-next": 50, "rejected.reading-session-with-records-still-queued": 15,
            "coll.get-unknown": 400, "coll.file-created-anew-between-sessions": 150,
            "coll.file-created-anew-between-sessions.same-count-other-keys": 20,
            "coll.file-created-anew-between-sessions.same-keys-other-values": 20,
            "lib.rawscan-header-compared": 250, "lib.constructed.MoleculeLibrary": 70, "lib.constructed.ConformerLibrary": 70,
            "lib.comment-given": 90, "lib.start.old-file-replaced": 20, "lib.created-anew-under-older-objects": 30,
            "ukv.failing-op.reopen-x-on-existing-file": 150}
CHUNK_TIMEOUT = 900
TECHNIQUE = "runtime monitoring: reference map model stepped beside real UKVFile/Collection handles + independent raw-file scan"
LEVEL_TEXT = ("Held on the histories produced: the real UKVFile / Collection objects are driven through exhaustive short and "
              "random long operation histories; after every operation results, key listings and (after writer close) the "
              "raw bytes are compared with a 60-line reference model and an independent scanner.")
LEVEL_NOTE = "Trusted: vmon/models/kvmap.py (model + scanner), the session discipline stated in ASSUMPTIONS."

K256 = b"K" * 256
K255 = b"k" * 255

# ---- KNOWN_ON_UNCHANGED_TREE ------------------------------------------------------------------------------------
# Violation keys (without the "C02:" prefix) that the unchanged library produces; written up with a tested fix in
# /verif/tools/findings/C02-ext.json.  They are counted ("known.<key>") instead of reported.  REMOVE AFTER THE REPAIR.
KNOWN_ON_UNCHANGED_TREE = set()      # (repaired in the library: 60bd02b, 1113bbc; the stale table after a same-size re-creation is an OPEN finding in known_findings.json)


def known_or_violation(ctx, key, **detail):
    import os

    if key in KNOWN_ON_UNCHANGED_TREE and not os.environ.get("VERIF_C02_REPORT_KNOWN"):   # set it to test a repaired tree
        ctx.count("known." + key)
        return
    ctx.violation(key, **detail)


def plan(tier, seed):
    specs = []
    L = 5 if tier == "quick" else 6
    # exhaustive: partition by the first two operations
    firsts = list(range(18))
    for f in firsts:
        specs.append({"kind": "exh", "first": f, "L": L})
    # the same with the handle that created the file (mode "w" / "x"; still open / closed once) as handle 0
    nc = len(exhc_alphabet())
    for keep in ("open", "closed"):
        for cmode in ("w", "x"):
            if tier == "quick":
                specs.append({"kind": "exh", "first": list(range(0, nc, 2)), "L": 3, "keep": keep, "cmode": cmode})
                specs.append({"kind": "exh", "first": list(range(1, nc, 2)), "L": 3, "keep": keep, "cmode": cmode})
            else:
                for f in range(nc):
                    specs.append({"kind": "exh", "first": f, "L": 4, "keep": keep, "cmode": cmode})
    nrand = 48 if tier == "quick" else 320
    for i in range(nrand):
        specs.append({"kind": "rand", "chunk": i, "n": 12 if tier == "quick" else 30})
    for i in range(8 if tier == "quick" else 32):
        specs.append({"kind": "rejected", "chunk": i, "n": 60 if tier == "quick" else 100})
    ncoll = 48 if tier == "quick" else 320
    for i in range(ncoll):
        specs.append({"kind": "coll", "chunk": i, "n": 12 if tier == "quick" else 30})
    for i in range(8 if tier == "quick" else 24):
        specs.append({"kind": "lib", "chunk": i, "n": 25 if tier == "quick" else 50})
    return specs


# ------------------------------------------------------------------------------------------------
# operation alphabet of the exhaustive part

def exh_alphabet():
    ops = []
    for h in (0, 1):
        ops += [("open", h, "r"), ("open", h, "a"), ("close", h),
                ("put", h, b"a", b"x"), ("put", h, b"b", b""), ("put", h, K256, b"x"),
                ("get", h, b"a"), ("get", h, b"b"), ("keys", h)]
    return ops


def exhc_alphabet():
    """the handle that created the file (handle 0, modes "w" / "x", still open or closed once) beside a second handle"""
    return [("open", 0, None), ("open", 0, "with"), ("open", 0, "r"), ("open", 0, "a"), ("close", 0),
            ("put", 0, b"a", b"x"), ("put", 0, b"b", b""), ("put", 0, K256, b"x"),
            ("get", 0, b"a"), ("get", 0, b"b"), ("keys", 0), ("items", 0),
            ("open", 1, "r"), ("open", 1, "a"), ("close", 1), ("put", 1, b"b", b"y"),
            ("get", 1, b"a"), ("get", 1, b"b"), ("keys", 1)]


def run_chunk(spec, ctx):
    if spec["kind"] == "rejected":
        return run_coll_rejected(spec, ctx)
    if spec["kind"] == "lib":
        return run_lib(spec, ctx)
    if spec["kind"] == "exh":
        run_exhaustive(spec, ctx)
    elif spec["kind"] == "rand":
        run_random(spec, ctx)
    else:
        run_coll(spec, ctx)


# ------------------------------------------------------------------------------------------------

class UkvDriver:
    """steps the real handles and the model together"""

    def __init__(self, ctx, path, case, h1=None, h2=b"", b0=b"", initial=(), cmode="w", keep=None):
        """cmode: mode of the creating handle ("w" / "x"); keep: None - the creating handle is closed and dropped,
        "closed" / "open" - it stays in the handle set as handle 0 (closed after the initial puts / still open)"""
        from molli.storage.ukvfile import UKVFile
        from vmon.models.kvmap import KVModel

        self.UKVFile = UKVFile
        self.ctx, self.path, self.case = ctx, path, case
        self.hist = []
        self.flags = set()
        if cmode == "x" and path.exists():
            path.unlink()
        creator = UKVFile(path, mode=cmode, h1=h1, h2=h2, b0=b0)
        self.h1 = (h1 or UKVFile.FILE_H1_DEFAULT)
        self.model = KVModel(self.h1, h2 or b"", b0 or b"")
        self.objs = {}
        self.ok = True
        self.creator_first_session = False
        self.creator = None
        if keep:
            # the creating handle is a writer like any other: it may read what it has put and may be reopened
            self.objs[0] = creator
            self.creator = 0
            self.model.do_open(0, "a")
            self.creator_first_session = True
            self.flags.add("creator")
            ctx.count(f"ukv.creator-kept.{cmode}")
        for k, v in initial:
            creator.put(k, v)
            if keep:
                self.model.do_put(0, k, v)
            else:
                self.model.committed[k] = v
        if keep != "open":
            creator.close()
            if keep:
                self.model.do_close(0)
                self.creator_first_session = False

    def v(self, key, **detail):
        self.ok = False
        self.ctx.violation(key, case=self.case, history=[_fmt(o) for o in self.hist[-12:]], **detail)

    def eff_mode(self, h, mode):
        """open() without a mode / `with handle:` reopen in the handle's own mode; a handle that created the file is a
        writer (reopening it must not create the file again)"""
        return mode if mode in ("r", "a") else self.model.handle(h).mode

    def allowed(self, op):
        kind, h = op[0], op[1]
        if kind == "open":
            if op[2] in ("r", "a"):
                return self.model.may_open(h, op[2])
            return h in self.objs and self.model.may_open(h, self.eff_mode(h, op[2]))
        if kind == "pickle":
            return h in self.objs and not self.model.handle(h).open
        if kind == "close":
            return h in self.objs and self.model.handle(h).open
        if kind in ("items", "values"):
            return h in self.objs and self.model.handle(h).open
        if kind == "create-x":
            return True
        if kind == "reopen-x":
            # the closed handle is asked to create the file exclusively (refused: the file exists) and is then reopened in
            # its own mode, which the session discipline has to allow
            return h in self.objs and not self.model.handle(h).open and self.model.may_open(h, self.model.handle(h).mode)
        if kind == "recreate":
            return not any(x.open for x in self.model.handles.values())
        return h in self.objs  # put/get/keys need a constructed handle

    def step(self, op):
        import io
        import pickle

        ctx, m = self.ctx, self.model
        self.hist.append(op)
        kind, h = op[0], op[1]
        ctx.count("ukv.op")
        if kind == "open":
            how = op[2]                      # "r" / "a" / None: open() / "with": __enter__()
            mode = self.eff_mode(h, how)
            stale = h in self.objs and set(self.objs[h].keys()) != set(m.committed)
            try:
                if h not in self.objs:
                    self.objs[h] = self.UKVFile(self.path, mode=mode)
                elif how == "with":
                    self.objs[h].__enter__()
                elif how is None:
                    self.objs[h].open()
                else:
                    self.objs[h].open(mode)
            except Exception as e:  # noqa
                self.v(f"ukv:open-{how or 'same-mode'}:raises:{type(e).__name__}", err=repr(e)[:200])
                return
            m.do_open(h, mode)
            if how not in ("r", "a"):
                ctx.count("ukv.reopen-without-mode")
            if h == self.creator:
                ctx.count("ukv.creator-reopen")
                if how not in ("r", "a"):
                    ctx.count("ukv.creator-reopen-without-mode")
            if stale:
                ctx.count("ukv.reopen-stale")
                self.flags.add("stale")
            if len(self.objs) > 1:
                self.flags.add("multi")
            o = self.objs[h]
            if o.h1.rstrip(b"\0") != m.h1.rstrip(b"\0") or o.h2 != m.h2 or o.b0 != m.b0:
                self.v("ukv:open:headers-differ", got=[o.h1, o.h2, o.b0], want=[m.h1, m.h2, m.b0])
        elif kind == "close":
            was_writer = m.handle(h).open and m.handle(h).mode == "a"
            try:
                if len(op) > 2 and op[2] == "exit":
                    self.objs[h].__exit__(None, None, None)
                else:
                    self.objs[h].close()
            except Exception as e:  # noqa
                self.v(f"ukv:close:raises:{type(e).__name__}", err=repr(e)[:200])
            m.do_close(h)
            if h == self.creator:
                self.creator_first_session = False
            if was_writer:
                self.rawscan()
        elif kind == "pickle":
            self.objs[h] = pickle.loads(pickle.dumps(self.objs[h]))
            self.flags.add("multi")
        elif kind == "put":
            k, val = op[2], op[3]
            exp = m.expect_put(h, k, val)
            try:
                if len(op) > 4 and op[4] == "item":
                    ctx.count("ukv.item-syntax")
                    self.objs[h][k] = val
                else:
                    self.objs[h].put(k, val)
                raised = None
            except Exception as e:  # noqa
                raised = e
            if exp[0] == "ok":
                if raised is not None:
                    self.v(f"ukv:put:valid-put-raises:{type(raised).__name__}", klen=len(k), vlen=len(val))
                else:
                    m.do_put(h, k, val)
                    if h == self.creator and self.creator_first_session:
                        ctx.count("ukv.creator-put-before-first-close")
            else:
                ctx.count("ukv.failing-op")
                ctx.count(f"ukv.failing-op.{exp[1]}")
                self.flags.add("fail")
                if raised is None:
                    self.v(f"ukv:put:{exp[1]}:accepted", klen=len(k), vlen=len(val))
                    return
                self.after_failure(f"put:{exp[1]}")
        elif kind == "get":
            k = op[2]
            exp = m.expect_get(h, k)
            try:
                if len(op) > 3 and op[3] == "item":
                    ctx.count("ukv.item-syntax")
                    got = self.objs[h][k]
                else:
                    got = self.objs[h].get(k)
                raised = None
            except Exception as e:  # noqa
                raised = e
            if exp[0] == "value":
                if h == self.creator and self.creator_first_session:
                    ctx.count("ukv.creator-read-before-first-close")
                if raised is not None:
                    self.v(f"ukv:get:known-key-raises:{type(raised).__name__}", klen=len(k))
                elif got != exp[1]:
                    self.v("ukv:get:wrong-value", klen=len(k), got=_desc(got), want_len=len(exp[1]), want_head=exp[1][:24])
            else:
                ctx.count("ukv.failing-op")
                ctx.count(f"ukv.failing-op.get-{exp[1]}")
                if raised is None:
                    self.v(f"ukv:get:{exp[1]}:returns-value", klen=len(k), got=_desc(got))
        elif kind == "keys":
            pass
        elif kind in ("items", "values"):
            # bulk readers of an open handle: every key of the handle's view with the bytes that were put
            hd = m.handle(h)
            want = {k: m.committed[k] for k in hd.view}
            ctx.count("ukv.bulk-read")
            if h == self.creator and self.creator_first_session and want:
                ctx.count("ukv.creator-read-before-first-close")
            try:
                got = list(getattr(self.objs[h], kind)())
            except Exception as e:  # noqa
                self.v(f"ukv:{kind}:raises:{type(e).__name__}", n_keys=len(want), err=repr(e)[:200])
            else:
                if kind == "items":
                    bad = len(got) != len(want) or any(k not in want or want[k] != val for k, val in got)
                else:
                    bad = sorted(got) != sorted(want.values())
                if bad:
                    self.v(f"ukv:{kind}:differ-from-the-records-put", n_got=len(got), n_want=len(want))
        elif kind == "create-x":
            # exclusive creation over the existing file is an operation that fails: nothing may change
            ctx.count("ukv.failing-op")
            ctx.count("ukv.failing-op.create-x-on-existing-file")
            self.flags.add("fail")
            try:
                o = self.UKVFile(self.path, mode="x")
            except Exception:  # noqa
                self.after_failure("create-x-on-existing-file")
            else:
                o.close()
                self.v("ukv:create-x-on-existing-file:accepted")
        elif kind == "reopen-x":
            # open("x") on a closed handle of the existing file is an operation that fails: the file and the handle stay as
            # they were, so the handle can be reopened without a mode (in its own mode) and serves its records as before
            ctx.count("ukv.failing-op")
            ctx.count("ukv.failing-op.reopen-x-on-existing-file")
            self.flags.add("fail")
            o, mode = self.objs[h], m.handle(h).mode
            try:
                o.open("x")
            except Exception:  # noqa
                pass
            else:
                return self.v("ukv:reopen-x-on-existing-file:accepted")
            try:
                o.open()
            except Exception as e:  # noqa
                key = f"ukv:reopen-x-on-existing-file:refused-but-handle-cannot-be-reopened-without-a-mode-afterwards:{type(e).__name__}"
                if key in KNOWN_ON_UNCHANGED_TREE and not __import__("os").environ.get("VERIF_C02_REPORT_KNOWN"):
                    ctx.count("known." + key)
                    try:
                        o.open(mode)            # naming the mode again puts the handle right: the history goes on
                    except Exception as e2:  # noqa
                        return self.v(f"ukv:reopen-x-on-existing-file:handle-cannot-be-reopened-at-all-afterwards:{type(e2).__name__}")
                else:
                    return self.v(key, err=repr(e)[:200])
            m.do_open(h, mode)
            self.after_failure("reopen-x-on-existing-file")
            try:
                o.close()
            except Exception as e:  # noqa
                self.v(f"ukv:close:raises:{type(e).__name__}", err=repr(e)[:200])
            m.do_close(h)
            if mode == "a":
                self.rawscan()
        elif kind == "recreate":
            # while every handle is closed the file is created anew (mode "w") by another handle, with another comment /
            # descriptor block and other records: from now on the map is the new file's; handles reopened later follow it
            _, _, h2, b0, recs = op
            ctx.count("ukv.file-recreated-under-closed-handles")
            self.flags.add("recreated")
            try:
                o = self.UKVFile(self.path, mode="w", h1=self.h1, h2=h2, b0=b0)
                for k, v in recs:
                    o.put(k, v)
                o.close()
            except Exception as e:  # noqa
                return self.v(f"ukv:recreate:raises:{type(e).__name__}", err=repr(e)[:200])
            m.committed = dict(recs)
            m.h2, m.b0 = h2, b0
        self.check_views(kind)

    def check_views(self, after):
        for h, o in self.objs.items():
            want = self.model.expect_keys(h)
            got = set(o.keys())
            if got != want:
                extra = sorted(got - want)[:3]
                missing = sorted(want - got)[:3]
                self.v(f"ukv:keys:{'phantom' if extra else 'missing'}-key-after-{after}",
                       handle=h, extra=[len(x) for x in extra], missing=[len(x) for x in missing],
                       open=self.model.handle(h).open)
                # resynchronise so one defect is reported once per history
                self.model.handle(h).view = got

    def after_failure(self, what):
        """a failing operation leaves every handle's view unchanged and every known key readable"""
        for h, o in self.objs.items():
            hd = self.model.handle(h)
            if not hd.open:
                continue
            for k in sorted(hd.view)[:6]:
                try:
                    got = o.get(k)
                except Exception as e:  # noqa
                    self.v(f"ukv:{what}:known-key-unreadable-afterwards:{type(e).__name__}", klen=len(k))
                    continue
                if got != self.model.committed[k]:
                    self.v(f"ukv:{what}:value-changed-afterwards", klen=len(k))

    def rawscan(self):
        from vmon.models.kvmap import scan, ScanError

        self.ctx.count("ukv.rawscan")
        data = self.path.read_bytes()
        try:
            h1, h2, b0, recs, end = scan(data)
        except ScanError as e:
            self.v("ukv:rawscan:file-not-a-clean-record-sequence", err=str(e))
            return
        got = [(k, v) for k, v, _ in recs]
        want = list(self.model.committed.items())
        if got != want:
            self.v("ukv:rawscan:records-differ-from-model", n_got=len(got), n_want=len(want),
                   first_diff=next((i for i, (a, b) in enumerate(itertools.zip_longest(got, want)) if a != b), None))
        if h1.rstrip(b"\0") != self.model.h1.rstrip(b"\0") or h2 != self.model.h2 or b0 != self.model.b0:
            self.v("ukv:rawscan:headers-differ")

    def finish(self, copy_rng=None):
        for h, o in list(self.objs.items()):
            if self.model.handle(h).open:
                self.step(("close", h))
        self.rawscan()
        # a fresh reader sees exactly the committed map
        o = self.UKVFile(self.path, mode="r")
        try:
            if set(o.keys()) != set(self.model.committed):
                self.v("ukv:fresh-reader:keys-differ")
            for k, val in list(self.model.committed.items())[:40]:
                if o.get(k) != val:
                    self.v("ukv:fresh-reader:wrong-value", klen=len(k))
            if copy_rng is not None and self.ok:
                self.copy_out(o, copy_rng)
        finally:
            o.close()

    def copy_out(self, src, rng):
        """copy_items = get through one handle + put through another: the copy holds the chosen records, in the order
        asked for, and a second copy of a key is refused without changing the destination"""
        from vmon.models.kvmap import scan, ScanError

        keys = list(self.model.committed)
        rng.shuffle(keys)
        keys = keys[:rng.randrange(0, len(keys) + 1)]
        dpath = self.path.with_suffix(".copy")
        if dpath.exists():
            dpath.unlink()
        self.ctx.count("ukv.copy-items")
        dest = self.UKVFile(dpath, mode="x", h2=b"copy")
        try:
            try:
                src.copy_items(dest, keys)
            except Exception as e:  # noqa
                self.v(f"ukv:copy-items:raises:{type(e).__name__}", n=len(keys), err=repr(e)[:200])
                return
            if keys:
                try:
                    src.copy_items(dest, keys[-1:])
                except Exception:  # noqa
                    self.ctx.count("ukv.failing-op")
                    self.ctx.count("ukv.failing-op.copy-duplicate")
                else:
                    self.v("ukv:copy-items:duplicate:accepted")
            if set(dest.keys()) != set(keys):
                self.v("ukv:copy-items:destination-lists-other-keys")
        finally:
            dest.close()
        try:
            _, h2, _, recs, _ = scan(dpath.read_bytes())
        except ScanError as e:
            self.v("ukv:copy-items:destination-not-a-clean-record-sequence", err=str(e))
        else:
            if [(k, val) for k, val, _ in recs] != [(k, self.model.committed[k]) for k in keys] or h2 != b"copy":
                self.v("ukv:copy-items:destination-records-differ", n_got=len(recs), n_want=len(keys))
        dpath.unlink()


def _desc(got):
    """what a get returned, for a witness: never raises, whatever kind of object it is"""
    if isinstance(got, (bytes, bytearray)):
        return f"<{len(got)}B:{bytes(got[:24])!r}>"
    return f"{type(got).__name__}:{repr(got)[:40]}"


def _fmt(op):
    out = []
    for x in op:
        if isinstance(x, (bytes, bytearray)):
            out.append(f"<{len(x)}B:{bytes(x[:6])!r}>")
        else:
            out.append(x)
    return out


def canon(hist):
    return ";".join(",".join(str(y) if not isinstance(y, bytes) else f"{len(y)}:{y[:4].hex()}" for y in op) for op in hist)


def feasible(ops, keep=None):
    """pure-model dry run: does the sequence respect the session discipline and only touch constructed handles?"""
    from vmon.models.kvmap import KVModel

    m = KVModel()
    m.committed[b"a"] = b"0"
    made = set()
    if keep:
        m.do_open(0, "a")
        made.add(0)
        if keep == "closed":
            m.do_close(0)
    for op in ops:
        kind, h = op[0], op[1]
        if kind == "open":
            mode = op[2]
            if mode not in ("r", "a"):
                if h not in made:
                    return False
                mode = m.handle(h).mode
            if not m.may_open(h, mode):
                return False
            m.do_open(h, mode)
            made.add(h)
        elif h not in made:
            return False
        elif kind == "close":
            if not m.handle(h).open:
                return False
            m.do_close(h)
        elif kind in ("items", "values"):
            if not m.handle(h).open:
                return False
        elif kind == "put" and m.expect_put(h, op[2], op[3])[0] == "ok":
            m.do_put(h, op[2], op[3])
    return True


def run_exhaustive(spec, ctx):
    keep, cmode = spec.get("keep"), spec.get("cmode", "w")
    ops = exhc_alphabet() if keep else exh_alphabet()
    L = spec["L"]
    firsts = spec["first"] if isinstance(spec["first"], list) else [spec["first"]]
    path = ctx.tmp / "e.ukv"
    n = 0

    def rec(prefix):
        nonlocal n
        # execute prefix from scratch, pruning by the model as we go
        if len(prefix) >= 1:
            case = ("exh", spec["first"], canon(prefix)) if not keep else ("exhc", keep, cmode, canon(prefix))
            if not feasible(prefix, keep):
                return False
            if ctx.want(case):
                d = UkvDriver(ctx, path, case, initial=[(b"a", b"0")], cmode=cmode, keep=keep,
                              h2=b"c" if keep else b"", b0=b"d" if keep else b"")
                for op in prefix:
                    assert d.allowed(op)
                    d.step(op)
                d.finish()
                n += 1
                ctx.count("exh.creator-sequences" if keep else "exh.sequences")
                nt = ("fail" in d.flags) and ("multi" in d.flags or "stale" in d.flags)
                ctx.case(case, dkey=(keep, cmode, canon(prefix)), nontrivial=nt,
                         sample={"history": [_fmt(o) for o in prefix], "creator": [cmode, keep] if keep else None}
                         if n % 997 == 1 else None)
        if len(prefix) == L:
            return True
        for op in ops:
            # symmetry: handle 1 is only touched after handle 0 was opened once
            if not keep and op[1] == 1 and not any(p[0] == "open" and p[1] == 0 for p in prefix):
                continue
            rec(prefix + [op])
        return True

    # an infeasible first op contributes nothing
    for f in firsts:
        rec([ops[f]])


def run_random(spec, ctx):
    sizes = [0, 1, 2, 100, 8191, 8192, 8193, 20000]
    for j in range(spec["n"]):
        case = ("rand", spec["chunk"], j)
        if not ctx.want(case):
            continue
        rng = ctx.rng(*case)
        path = ctx.tmp / f"r{j}.ukv"
        h1 = rng.choice([None, b"ML10Library", b"X" * 16, b"ab"])
        h2 = rng.choice([b"", b"comment \xc3\xa9", b"c" * 300])
        b0 = rng.choice([b"", b"\x81\xa1a\x01", bytes(range(256)) * 3])
        keypool = [b"", b"a", b"\x00", b"\xff\x00\xfe", b"key-1", b"key-2", K255, K256, K255[:-1] + b"z",
                   "ü".encode(), b"a" * 17, b"b" * 64] + [f"r{i}".encode() for i in range(rng.randrange(3, 30))]
        initial = [(k, bytes([rng.randrange(256)]) * rng.choice([0, 1, 50])) for k in rng.sample(keypool[:7], rng.randrange(0, 4))]
        cmode = rng.choice("wx")
        keep = rng.choice([None, "closed", "open", "open"])
        d = UkvDriver(ctx, path, case, h1=h1, h2=h2, b0=b0, initial=initial, cmode=cmode, keep=keep)
        nh = rng.choice([1, 2, 2, 3])
        L = rng.randrange(30, 200)
        big = rng.random() < 0.15
        # a handle that created the file mostly works on for a while before anything else happens
        solo = rng.randrange(0, 12) if keep == "open" else 0
        for step_no in range(L):
            h = rng.randrange(nh) if step_no >= solo else 0
            r = rng.random()
            if step_no < solo and r < 0.30:
                r = 0.33 + r        # puts and gets instead of open / close / pickle
            hd = d.model.handle(h)
            item = "item" if rng.random() < 0.2 else None
            if r < 0.16:
                op = ("open", h, rng.choice(["r", "a", "r", "a", None, "with"]))
            elif r < 0.30:
                op = ("close", h) if rng.random() < 0.7 else ("close", h, "exit")
            elif r < 0.33:
                op = ("pickle", h)
            elif r < 0.34:
                op = ("create-x", h)
            elif r < 0.36:
                op = ("recreate", h, rng.choice([b"", b"new", b"n" * 301, b"comment \xc3\xa9"]), rng.choice([b"", b"\x90", bytes(range(200))]),
                      [(f"n{step_no}-{i}".encode(), rng.randbytes(rng.choice([0, 3, 40]))) for i in range(rng.randrange(0, 3))])
            elif r < 0.62:
                k = rng.choice(keypool)
                if rng.random() < 0.5 and hd.open and hd.mode == "a":
                    # steer towards valid fresh keys while a writer is open
                    fresh = [x for x in keypool if x not in d.model.committed and len(x) <= 255]
                    if fresh:
                        k = rng.choice(fresh)
                sz = rng.choice(sizes + ([70000] if big else []))
                val = bytes([rng.randrange(256)]) * sz if sz < 3 else rng.randbytes(sz)
                op = ("put", h, k, val) + ((item,) if item else ())
            elif r < 0.88:
                pool = list(d.model.committed) or keypool
                k = rng.choice(pool) if rng.random() < 0.8 else rng.choice(keypool)
                op = ("get", h, k) + ((item,) if item else ())
            elif r < 0.94:
                op = (rng.choice(["items", "values"]), h)
            elif r < 0.975:
                op = ("keys", h)
            else:
                op = ("reopen-x", h)
            if not d.allowed(op):
                continue
            d.step(op)
            if not d.ok:
                break
        d.finish(copy_rng=rng if rng.random() < 0.4 else None)
        nt = ("fail" in d.flags) and ("multi" in d.flags or "stale" in d.flags or "creator" in d.flags)
        ctx.case(case, dkey=(cmode, keep, canon(d.hist)), nontrivial=nt,
                 sample={"n_ops": len(d.hist), "handles": nh, "creator": [cmode, keep],
                         "tail": [_fmt(o) for o in d.hist[-5:]]})
        try:
            path.unlink()
        except OSError:
            pass


# ------------------------------------------------------------------------------------------------
# Collection + UkvCollectionBackend sessions

def run_coll(spec, ctx):
    import os

    from molli.storage import Collection, UkvCollectionBackend
    from molli.storage.ukvfile import UKVFile
    from vmon.models.kvmap import scan, ScanError

    class Boom(Exception):
        """raised by the session body (user code)"""

    for j in range(spec["n"]):
        case = ("coll", spec["chunk"], j)
        if not ctx.want(case):
            continue
        rng = ctx.rng(*case)
        path = ctx.tmp / f"c{j}.ukv"
        ncol = rng.choice([1, 2, 3])
        cols, bufs, ro = [], [], []
        committed: dict[str, bytes] = {}
        hist = []
        # what the path holds before the first collection is made: nothing, or an older UKV file that the creating
        # call either replaces (overwrite=True, descriptor arguments passed explicitly) or keeps (overwrite=False)
        start = rng.choice(["fresh", "fresh", "fresh", "old-file-replaced", "old-file-replaced", "old-file-kept"])
        explicit = start == "old-file-replaced"
        comment = rng.choice(["cmt", "é" * 10] + ([] if explicit else [None]))
        b0 = rng.choice([b"\x01\x02descriptor", bytes(range(200))] + ([] if explicit else [None]))
        h1 = rng.choice([b"MYFMT01", b"F" * 16] + ([] if explicit else [None, None]))
        want_head = [h1 or UKVFile.FILE_H1_DEFAULT, (comment or "").encode(), b0 or b""]
        if start != "fresh":
            ctx.count(f"coll.start.{start}")
            old = UKVFile(path, mode="w", h1=b"OLDFMT", h2=b"older comment", b0=b"older-descriptor-block")
            for k in ["a", "i1", "i2", "older"][:rng.randrange(0, 5)]:
                old.put(k.encode(), b"older-" + k.encode())
                if start == "old-file-kept":
                    committed[k] = b"older-" + k.encode()
            old.close()
            if start == "old-file-kept":
                want_head = [b"OLDFMT", b"older comment", b"older-descriptor-block"]
        if h1 is not None:
            ctx.count("coll.h1-passed")
        hist.append(("start", start))
        for c in range(ncol):
            bs = rng.choice([-1, 0, 64, 10**6])
            readonly = c > 0 and rng.random() < 0.4
            if c == 0:
                kw = dict(overwrite=(start == "old-file-replaced" or (start == "fresh" and rng.random() < 0.5)),
                          comment=comment, b0=b0, h1=h1)
            else:
                # a collection that does not create the file may be given any descriptor arguments: the file keeps its own
                kw = dict(overwrite=False, comment=rng.choice([comment, None, "another comment"]),
                          b0=rng.choice([b0, None, b"another"]), h1=rng.choice([h1, None, b"ANOTHER"]))
            cols.append(Collection(path, UkvCollectionBackend, readonly=readonly, bufsize=bs,
                                   **{k: val for k, val in kw.items() if val is not None or rng.random() < 0.5}))
            bufs.append(bs)
            ro.append(readonly)
        flags = set()
        bad = [False]

        def v(key, **detail):
            bad[0] = True
            ctx.violation(key, case=case, history=hist[-10:], bufsizes=bufs, **detail)

        def full_view(c, stage):
            """collection c opens a session of its own, lists the keys and reads every record: the map it shows is the
            one the file holds now, whatever file the path held when this object looked last"""
            col = cols[c]
            as_writer = not ro[c] and rng.random() < 0.4
            hist.append(("look-at-everything", stage, c, "w" if as_writer else "r"))
            ctx.count("coll.session")
            try:
                with (col.writing() if as_writer else col.reading()):
                    listed = set(col.keys())
                    if listed != set(committed) or len(col) != len(committed):
                        v(f"coll:{stage}:keys-differ-from-the-file:{'phantom' if listed - set(committed) else 'missing'}",
                          collection=c, extra=sorted(listed - set(committed))[:3], missing=sorted(set(committed) - listed)[:3])
                    for k in sorted(listed):
                        ctx.count("coll.in-session-read")
                        try:
                            got = col[k]
                        except Exception as e:  # noqa
                            v(f"coll:{stage}:listed-key-unreadable:{type(e).__name__}", collection=c, k=k[:8])
                            break
                        if k in committed and got != committed[k]:
                            key = f"coll:{stage}:get-returns-other-bytes-than-the-file-holds"
                            if key in KNOWN_ON_UNCHANGED_TREE and not os.environ.get("VERIF_C02_REPORT_KNOWN"):
                                ctx.count("known." + key)
                                break
                            v(key, collection=c, k=k[:8], got=_desc(got), bytes_of_the_replaced_file=(got == replaced.get(k)))
                            break
            except Exception as e:  # noqa
                v(f"coll:{stage}:session-raises:{type(e).__name__}", collection=c, err=repr(e)[:200])

        keypool = ["a", "b", "k" * 255, "K" * 256, "ü" * 127, "ü" * 128, "sp ace"] + [f"i{i}" for i in range(25)]
        nsess = rng.randrange(3, 12)
        n_anew = 0
        replaced: dict[str, bytes] = {}
        for s in range(nsess):
            if s >= 1 and n_anew < 2 and rng.random() < 0.16:
                # (e) between two sessions the library is created anew (overwrite=True) by a FURTHER collection object - a
                # script run a second time, a notebook cell executed again - while the older objects, which have listed and
                # read the records of the file so far, stay in use.  From now on the map is the new file's, for every handle.
                n_anew += 1
                for c0 in range(ncol):
                    full_view(c0, "before-the-file-is-created-anew")
                if bad[0]:
                    break
                shape = rng.choice(["same-count-other-keys", "same-keys-other-values", "same-keys-other-values-same-sizes",
                                    "other-count", "other-count", "empty", "same-sizes-in-another-order"])
                try:
                    file_order = [k.decode() for k, _, _ in scan(path.read_bytes())[3]]
                except ScanError as e:
                    v("coll:rawscan:file-not-a-clean-record-sequence", err=str(e))
                    break
                ctx.count("coll.file-created-anew-between-sessions")
                ctx.count(f"coll.file-created-anew-between-sessions.{shape}")
                flags.add("anew")
                comment, b0, h1 = rng.choice(["anew", "anew é", None]), rng.choice([b"\x05new-descriptor", None]), rng.choice([b"NEWFMT", None])
                kw = dict(comment=comment, b0=b0, h1=h1)
                bs = rng.choice([-1, 0, 64, 10**6])
                hist.append(("created-anew-by-a-further-collection", shape, bs))
                try:
                    newcol = Collection(path, UkvCollectionBackend, readonly=False, overwrite=True, bufsize=bs,
                                        **{k: val for k, val in kw.items() if val is not None or rng.random() < 0.5})
                except Exception as e:  # noqa
                    v(f"coll:created-anew:constructor-raises:{type(e).__name__}", err=repr(e)[:200])
                    break
                cols.append(newcol)
                bufs.append(bs)
                ro.append(False)
                ncol += 1
                replaced = dict(committed)
                committed.clear()
                want_head = [h1 or UKVFile.FILE_H1_DEFAULT, (comment or "").encode(), b0 or b""]
                start = "created-anew-between-sessions"
                oldk = [k for k in file_order if k in replaced]       # the order the records have in the replaced file
                in_another_order = False
                if shape == "same-count-other-keys":
                    recs = [(f"n{n_anew}-{i}", rng.randbytes(rng.choice([0, 3, 40]))) for i in range(len(oldk))]
                elif shape == "same-keys-other-values":
                    recs = [(k, b"new:" + replaced[k][::-1]) for k in oldk]
                elif shape in ("same-keys-other-values-same-sizes", "same-sizes-in-another-order"):
                    recs = [(k, bytes(x ^ 0x55 for x in replaced[k])) for k in oldk]
                    if shape == "same-sizes-in-another-order":
                        # a file of the very same size whose records sit elsewhere
                        rng.shuffle(recs)
                        in_another_order = [k for k, _ in recs] != oldk
                elif shape == "other-count":
                    recs = [(k, b"new:" + replaced[k][:50]) for k in oldk[:rng.randrange(0, len(oldk) + 1)]]
                    recs += [(f"n{n_anew}-{i}", b"N" * i) for i in range(rng.choice([1, 2, 3]) if len(recs) == len(oldk) else rng.randrange(0, 3))]
                else:
                    recs = []
                if shape in ("same-count-other-keys", "other-count"):
                    rng.shuffle(recs)
                try:
                    with newcol.writing():
                        for k, val in recs:
                            newcol[k] = val
                            committed[k] = val
                except Exception as e:  # noqa
                    v(f"coll:created-anew:first-writing-session-raises:{type(e).__name__}", err=repr(e)[:200])
                    break
                try:
                    h1_, h2, b0_, got_recs, _end = scan(path.read_bytes())
                except ScanError as e:
                    v("coll:rawscan:file-not-a-clean-record-sequence", err=str(e))
                    break
                if {k.decode(): val for k, val, _ in got_recs} != committed or len(got_recs) != len(committed):
                    v("coll:rawscan:records-differ-from-model:after-the-file-was-created-anew", n_got=len(got_recs), n_want=len(committed))
                    break
                for c0 in range(ncol - 1):
                    full_view(c0, "older-collection-after-the-file-was-created-anew" +
                              ("-with-the-same-sizes-in-another-order" if in_another_order else ""))
                if bad[0] or in_another_order:
                    break           # (the known defect below leaves older handles with a wrong table: the case ends here)
            c = rng.randrange(ncol)
            col = cols[c]
            writing = rng.random() < 0.65
            ctx.count("coll.session")
            if ncol > 1:
                flags.add("multi")
            if writing and ro[c]:
                hist.append(("writing-on-readonly", c))
                try:
                    with col.writing():
                        pass
                    v("coll:writing-session-on-readonly-collection-accepted")
                except Exception:  # noqa
                    flags.add("fail")
                    ctx.count("coll.failing-op")
                if rng.random() < 0.5:
                    # a put on the read-only collection outside any session is refused as well
                    ctx.count("coll.write-on-readonly")
                    hist.append(("set-on-readonly-outside-session", c, bufs[c]))
                    try:
                        col[rng.choice(["ro-new", "a", "i3"])] = b"written through a read-only collection"
                    except Exception:  # noqa
                        ctx.count("coll.failing-op")
                    else:
                        v("coll:set:readonly-collection:accepted:outside-session")
                        break
                continue
            buffered = bufs[c] > 0
            pending: dict[str, bytes] = {}
            hist.append(("begin", "w" if writing else "r", c, bufs[c]))
            nops = rng.randrange(0, 10)
            # some session bodies end with an exception: raised by the user's code or by a refused put that nobody catches
            raise_at = rng.randrange(0, nops + 1) if writing and rng.random() < 0.15 else None
            body_raised = [None]
            try:
                with (col.writing() if writing else col.reading()):
                    listed = set(col.keys())
                    if listed != set(committed):
                        v("coll:keys-at-session-begin-differ", extra=sorted(listed - set(committed))[:3],
                          missing=sorted(set(committed) - listed)[:3])
                        if listed - set(committed):
                            break
                    for opno in range(nops + 1):
                        if opno == raise_at:
                            known = {**committed, **pending}
                            if known and rng.random() < 0.5:
                                k = rng.choice(sorted(known))
                                hist.append(("set-duplicate-uncaught", k[:8]))
                                body_raised[0] = "refused-put"
                                flags.add("fail")
                                ctx.count("coll.failing-op")
                                col[k] = b"second put, nobody catches the error"
                                body_raised[0] = None
                                v("coll:set:duplicate:accepted")
                                break
                            hist.append(("raise",))
                            body_raised[0] = "user-code"
                            raise Boom()
                        if opno == nops:
                            break
                        r = rng.random()
                        if ro[c] and r < 0.25:
                            # a put through a read-only collection is refused; listing and file stay as they are
                            ctx.count("coll.write-on-readonly")
                            ctx.count("coll.write-on-readonly.in-reading-session")
                            flags.add("fail")
                            k = rng.choice(["ro-new", "ro-new2"] + sorted(committed)[:2])
                            hist.append(("set-on-readonly", k[:8], bufs[c]))
                            try:
                                col[k] = b"written through a read-only collection"
                            except Exception:  # noqa
                                ctx.count("coll.failing-op")
                            else:
                                v("coll:set:readonly-collection:accepted")
                                break
                            now = set(col.keys())
                            if now != set(committed):
                                v("coll:set:readonly-collection:key-listing-changed-by-failed-put",
                                  extra=[len(x) for x in now - set(committed)], missing=[len(x) for x in set(committed) - now])
                                break
                            for k2 in sorted(committed)[:3]:
                                try:
                                    if col[k2] != committed[k2]:
                                        v("coll:set:readonly-collection:value-changed-by-failed-put")
                                except Exception as e:  # noqa
                                    v(f"coll:set:readonly-collection:stored-record-unreadable-after-failed-put:{type(e).__name__}")
                        elif writing and r < 0.5:
                            k = rng.choice(keypool)
                            if rng.random() < 0.6:
                                fresh = [x for x in keypool if x not in committed and x not in pending and len(x.encode()) <= 255]
                                if fresh:
                                    k = rng.choice(fresh)
                            val = rng.randbytes(rng.choice([0, 1, 10, 100, 9000]))
                            dup = k in committed or k in pending
                            over = len(k.encode()) > 255
                            if buffered and over:
                                continue  # an oversize key in buffered mode fails in the flush at exit: C04's fail cases
                            if buffered and dup:
                                ctx.count("coll.buffered-duplicate-put")
                            hist.append(("set", k[:8], len(k.encode()), len(val)))
                            try:
                                col[k] = val
                                raised = None
                            except Exception as e:  # noqa
                                raised = e
                            if dup or over:
                                ctx.count("coll.failing-op")
                                flags.add("fail")
                                why = "duplicate" if dup else "oversize-key"
                                if raised is None:
                                    v(f"coll:set:{why}:accepted")
                                known = {**committed, **pending}
                                if raised is None and buffered:
                                    break       # (reported above) the doomed record sits in the queue: nothing more to learn
                                if dup:
                                    try:
                                        if col[k] != known[k]:
                                            v(f"coll:set:{why}:get-returns-the-rejected-value")
                                            break
                                    except Exception as e:  # noqa
                                        v(f"coll:set:{why}:stored-record-unreadable-after-failed-put:{type(e).__name__}")
                                        break
                                now = set(col.keys())
                                want = set(committed) | set(pending)
                                if now != want:
                                    v(f"coll:set:{why}:key-listing-changed-by-failed-put",
                                      extra=[len(x) for x in now - want], missing=[len(x) for x in want - now])
                                    break
                            else:
                                if raised is not None:
                                    v(f"coll:set:valid-put-raises:{type(raised).__name__}", err=repr(raised)[:200])
                                    break
                                (pending if buffered else committed)[k] = val
                                if not buffered:
                                    pass
                        elif r < 0.75:
                            # every listed key is readable (also the ones written in this session)
                            known = {**committed, **pending}
                            ks = sorted(col.keys())
                            if set(ks) != set(known):
                                v("coll:keys-in-session-differ", extra=[x[:8] for x in set(ks) - set(known)][:3],
                                  missing=[x[:8] for x in set(known) - set(ks)][:3])
                                break
                            for k in rng.sample(ks, min(len(ks), 4)):
                                ctx.count("coll.in-session-read")
                                hist.append(("get", k[:8]))
                                try:
                                    got = col[k]
                                except Exception as e:  # noqa
                                    v(f"coll:get:listed-key-unreadable:{'pending' if k in pending else 'committed'}:"
                                      f"{type(e).__name__}", k=k[:8])
                                    continue
                                if got != known[k]:
                                    v("coll:get:wrong-value", k=k[:8])
                            if rng.random() < 0.5:
                                # the bulk readers and the membership test say the same as keys() and get()
                                ctx.count("coll.bulk-read")
                                state = "with-queued-records" if pending else "nothing-queued"
                                ctx.count(f"coll.bulk-read.{state}")
                                hist.append(("items/values/iter/in",))
                                try:
                                    items = list(col.items())
                                    values = list(col.values())
                                    names = list(col)
                                    member = [k in col for k in ks[:5]] + ["nope0" not in col]
                                    n_items = col.n_items
                                except Exception as e:  # noqa
                                    v(f"coll:bulk-read:raises:{state}:{type(e).__name__}", err=repr(e)[:200])
                                    break
                                if len(items) != len(known) or any(k not in known or known[k] != val for k, val in items):
                                    v(f"coll:items:differ-from-the-records-put:{state}", n_got=len(items), n_want=len(known))
                                if sorted(values) != sorted(known.values()):
                                    v(f"coll:values:differ-from-the-records-put:{state}", n_got=len(values), n_want=len(known))
                                if sorted(names) != sorted(known) or n_items != len(known):
                                    v(f"coll:iter:differs-from-keys:{state}")
                                if not all(member):
                                    v(f"coll:contains:disagrees-with-keys:{state}")
                                # the backend object answers the same questions (skipped if it is not reachable this way)
                                be = getattr(col, "_backend", None)
                                if be is not None and hasattr(be, "__contains__") and hasattr(be, "__len__"):
                                    if not all(k in be for k in ks[:5]) or "nope0" in be or len(be) != len(known):
                                        v(f"coll:backend-contains-or-len:disagrees-with-keys:{state}")
                        elif r < 0.85:
                            k = "nope" + str(rng.randrange(5))
                            hist.append(("get-unknown", k))
                            ctx.count("coll.get-unknown")
                            try:
                                got = col[k]
                            except Exception:  # noqa
                                ctx.count("coll.failing-op")
                            else:
                                v("coll:get:unknown-key-returns-value", got=_desc(got))
                                break
                            if k in col or k in set(col.keys()):
                                v("coll:get:unknown-key-listed-after-failed-get")
                                break
                        elif writing and r < 0.92:
                            hist.append(("flush",))
                            col.flush()
                            committed.update(pending)
                            pending.clear()
                        else:
                            hist.append(("len", len(col)))
                            if len(col) != len(committed) + len(pending):
                                v("coll:len-differs")
                hist.append(("end",))
            except Exception as e:  # noqa
                if body_raised[0] is None or (body_raised[0] == "user-code" and not isinstance(e, Boom)):
                    v(f"coll:session-raises:{type(e).__name__}", err=repr(e)[:300])
                    break
                ctx.count("coll.session-body-raised")
                ctx.count(f"coll.session-body-raised.{body_raised[0]}")
                hist.append(("left-by-exception", body_raised[0]))
            # raw scan after each session
            try:
                h1_, h2, b0_, recs, _end = scan(path.read_bytes())
            except ScanError as e:
                v("coll:rawscan:file-not-a-clean-record-sequence", err=str(e))
                break
            got = {k.decode(): val for k, val, _ in recs}
            if body_raised[0] is not None and pending:
                # the file holds every earlier record and nothing that was not put ...
                if len(recs) != len(got) or any(got.get(k) != val for k, val in committed.items()) \
                        or any(k not in committed and pending.get(k) != val for k, val in got.items()):
                    v("coll:rawscan:records-differ-from-model:after-session-left-by-exception",
                      n_got=len(recs), n_committed=len(committed), n_buffered=len(pending))
                    break
                if any(k not in got for k in pending):
                    # every put of this session that was accepted is a successful put: once the session has ended (however
                    # it ended) the record belongs to the map every handle sees
                    v("coll:session-left-by-exception:accepted-records-not-in-the-file-after-the-session",
                      missing=sorted(k for k in pending if k not in got)[:4], left_by=body_raised[0])
                    break
                committed.update(pending)
            else:
                committed.update(pending)
                if got != committed or len(recs) != len(committed):
                    v("coll:rawscan:records-differ-from-model", n_got=len(recs), n_want=len(committed))
                    break
            if [h1_.rstrip(b"\0"), h2, b0_] != [want_head[0].rstrip(b"\0")] + want_head[1:]:
                which = [n for n, a, b in zip(("h1", "comment", "descriptor-block"),
                                              [h1_.rstrip(b"\0"), h2, b0_], [want_head[0].rstrip(b"\0")] + want_head[1:]) if a != b]
                v(f"coll:rawscan:headers-differ:{'+'.join(which)}:{start}", h1=h1_, h2=h2, b0=b0_)
                break
            if bad[0]:
                break
        ctx.case(case, dkey=repr(hist), nontrivial=("fail" in flags and "multi" in flags),
                 sample={"collections": ncol, "bufsizes": bufs, "sessions": nsess, "records": len(committed), "start": start})
        try:
            path.unlink()
        except OSError:
            pass


# ------------------------------------------------------------------------------------------------
# a record the file rejects sits in the MIDDLE of a buffered collection's write queue

def run_coll_rejected(spec, ctx):
    """The user catches the error and carries on; the session (or the next one) completes.  Every record whose put was
    not the rejected one must then be in the file: a failing put leaves everything else as it was."""
    from molli.storage import Collection, UkvCollectionBackend
    from vmon.models.kvmap import scan, ScanError

    for j in range(spec["n"]):
        case = ("rejected", spec["chunk"], j)
        if not ctx.want(case):
            continue
        rng = ctx.rng(*case)
        path = ctx.tmp / f"rej{j}.ukv"
        bufsize = rng.choice([64, 300, 5000, 10**6])
        col = Collection(path, UkvCollectionBackend, readonly=False, overwrite=True, bufsize=bufsize)
        want = {}
        with col.writing():
            for i in range(3):
                col[f"k{i}"] = f"old-{i}".encode() * 4
                want[f"k{i}"] = f"old-{i}".encode() * 4
        bad_kind = rng.choice(["duplicate", "oversize-key", "oversize-key", "duplicate-of-queued"])
        n_before, n_after = rng.randrange(0, 4), rng.randrange(1, 5)
        if bad_kind == "duplicate-of-queued":
            # the key was put earlier in this very session and may still sit in the write buffer: the first put stands
            n_before = max(n_before, 1)
            bad_key = f"a{rng.randrange(n_before)}"
            ctx.count("rejected.duplicate-of-a-queued-record")
        else:
            bad_key = "k1" if bad_kind == "duplicate" else "K" * 256
        plan = [("ok", f"a{i}") for i in range(n_before)] + [("bad", bad_key)] + [("ok", f"b{i}") for i in range(n_after)]
        explicit_flush = rng.random() < 0.4
        errors = []
        hist = [("bufsize", bufsize), ("bad", bad_kind, "at", n_before)]
        session_error = None
        # an oversize key is only found out by the flush: until an error has been raised the collection may list it
        state = {"doomed": set(), "bad": 0}

        def inside(stage):
            """inside the session the user who caught the error sees what was there before: every accepted key is
            listed and readable with the bytes of its one accepted put, the refused record is neither"""
            ctx.count("rejected.in-session-view")
            if stage != "after-quiet-put":
                ctx.count("rejected.in-session-view.after-an-error")
            listed = set(col.keys())
            exp = set(want)
            if exp - listed:
                state["bad"] += 1
                ctx.violation(f"rejected:{bad_kind}:in-session:accepted-key-unlisted:{stage}", case=case, hist=hist,
                              missing=sorted(exp - listed)[:4], errors=errors)
            if listed - exp - state["doomed"]:
                state["bad"] += 1
                ctx.violation(f"rejected:{bad_kind}:in-session:refused-key-listed:{stage}", case=case, hist=hist,
                              extra=[len(x) for x in listed - exp], errors=errors)
            if len(col) != len(listed):
                state["bad"] += 1
                ctx.violation(f"rejected:{bad_kind}:in-session:len-differs-from-listing:{stage}", case=case, hist=hist)
            for k in sorted(exp & listed):
                try:
                    got = col[k]
                except Exception as e:  # noqa
                    state["bad"] += 1
                    ctx.violation(f"rejected:{bad_kind}:in-session:accepted-key-unreadable:{stage}:{type(e).__name__}",
                                  case=case, hist=hist, key=k, errors=errors)
                    continue
                if got != want[k]:
                    state["bad"] += 1
                    ctx.violation(f"rejected:{bad_kind}:in-session:get-returns-other-bytes-than-the-accepted-put:{stage}",
                                  case=case, hist=hist, key=k, refused_value=(got == b"rejected-value"), errors=errors)

        try:
            with col.writing():
                for kind, k in plan:
                    val = rng.randbytes(rng.choice([0, 5, 40, 200]))
                    if kind == "ok":
                        want[k] = val
                    try:
                        col[k] = val if kind == "ok" else b"rejected-value"
                    except Exception as e:  # noqa   (the user catches the error and carries on)
                        errors.append(type(e).__name__)
                        state["doomed"].clear()
                        inside("after-raising-put")
                    else:
                        if kind == "bad" and bad_kind == "oversize-key":
                            state["doomed"].add(k)
                        inside("after-quiet-put")
                    if state["bad"]:
                        break
                if explicit_flush and not state["bad"]:
                    try:
                        col.flush()
                    except Exception as e:  # noqa
                        errors.append(type(e).__name__)
                        state["doomed"].clear()
                        ctx.count("rejected.flush-raises-with-records-queued-behind")
                        inside("after-raising-flush")
                    else:
                        inside("after-quiet-flush")
                want["tail"] = b"T"
                try:
                    col["tail"] = b"T"
                except Exception as e:  # noqa
                    errors.append(type(e).__name__)
                    state["doomed"].clear()
                if not state["bad"]:
                    inside("after-last-put")
        except Exception as e:  # noqa   (the rejected record was still queued at session exit)
            session_error = e
            errors.append(type(e).__name__)
        if state["bad"]:
            continue
        # the next session of this handle may as well be a READING one: the handle accepted every put of `want`, so it lists
        # them and returns their bytes, whether they have reached the file or still wait in its buffer (they do when the
        # flush at the exit of the writing session was stopped by the rejected record)
        if rng.random() < (0.6 if session_error is not None else 0.3):
            hist.append(("reading-session-before-the-next-writing-one", "records-still-queued" if session_error is not None else "all-flushed"))
            if errors:
                state["doomed"].clear()
            try:
                with col.reading():
                    ctx.count("rejected.reading-session-next")
                    if session_error is not None:
                        ctx.count("rejected.reading-session-with-records-still-queued")
                    inside("reading-session-after-failed-exit-flush" if session_error is not None else "reading-session-next")
                    if not state["bad"]:
                        try:
                            got = col["never-put"]
                        except Exception:  # noqa
                            pass
                        else:
                            state["bad"] += 1
                            ctx.violation(f"rejected:{bad_kind}:reading-session:unknown-key-returns-value", case=case, hist=hist,
                                          got=_desc(got))
                        names, n_in = sorted(col), sum(k in col for k in want)
                        if names != sorted(want) or n_in != len(want):
                            state["bad"] += 1
                            ctx.violation(f"rejected:{bad_kind}:reading-session:iteration-or-membership-disagree-with-the-accepted-puts",
                                          case=case, hist=hist, n_listed=len(names), n_member=n_in, n_want=len(want))
            except Exception as e:  # noqa
                state["bad"] += 1
                ctx.violation(f"rejected:{bad_kind}:reading-session-raises:{type(e).__name__}", case=case, hist=hist, err=repr(e)[:200])
            if state["bad"]:
                continue
        # whatever is still queued goes out with the next session of this handle; that one must complete.  The user may
        # put one of the accepted keys again there (e.g. repeating the batch after the error): whether that put is refused
        # at once or at the flush, get keeps returning the bytes of the first, accepted put - they are what the file gets
        reput = rng.choice(sorted(k for k in want if k[0] in "bt")) if rng.random() < 0.7 else None
        hist.append(("second-put-in-next-session", reput))
        try:
            with col.writing():
                # the handle accepted these puts: it lists them whether they are in the file or still in its buffer
                unlisted = sorted(set(want) - set(col.keys()))
                if unlisted:
                    known_or_violation(ctx, f"rejected:{bad_kind}:next-session:accepted-key-still-queued-is-unlisted",
                                       case=case, hist=hist, missing=unlisted[:4], errors=errors)
                if session_error is not None:
                    ctx.count("rejected.next-session-after-failed-exit-flush")
                if reput is not None:
                    if session_error is not None:
                        ctx.count("rejected.second-put-while-the-first-is-still-queued")
                    try:
                        col[reput] = b"second put of an accepted key"
                    except Exception as e:  # noqa
                        pass
                    try:
                        got = col[reput]
                    except Exception as e:  # noqa
                        ctx.violation(f"rejected:{bad_kind}:next-session:accepted-key-unreadable-after-second-put:{type(e).__name__}",
                                      case=case, hist=hist)
                    else:
                        if got != want[reput]:
                            ctx.violation(f"rejected:{bad_kind}:next-session:get-returns-the-bytes-of-the-second-put",
                                          case=case, hist=hist, queued_leftover=session_error is not None)
                if rng.random() < 0.7:
                    hist.append(("flush-in-next-session",))
                    try:
                        col.flush()
                    except Exception as e:  # noqa   (the second put reached the file and was refused there)
                        errors.append(type(e).__name__)
                        ctx.count("rejected.next-session-flush-raises")
                        now = set(col.keys())
                        if now != set(want):
                            ctx.violation(f"rejected:{bad_kind}:next-session:"
                                          f"{'accepted-key-unlisted' if set(want) - now else 'refused-key-listed'}:after-raising-flush",
                                          case=case, hist=hist, missing=sorted(set(want) - now)[:4],
                                          extra=[len(x) for x in now - set(want)])
                        for k in sorted(now & set(want)):
                            try:
                                if col[k] != want[k]:
                                    ctx.violation(f"rejected:{bad_kind}:next-session:wrong-value-after-raising-flush",
                                                  case=case, hist=hist, key=k)
                            except Exception as e2:  # noqa
                                ctx.violation(f"rejected:{bad_kind}:next-session:listed-key-unreadable-after-raising-flush:"
                                              f"{type(e2).__name__}", case=case, hist=hist, key=k)
        except Exception as e:  # noqa
            try:
                with col.writing():
                    pass
            except Exception as e2:  # noqa
                ctx.violation("rejected:handle-cannot-complete-a-session-any-more", case=case, hist=hist, err=repr(e2)[:200])
                continue
        ctx.count("rejected.cases")
        ctx.case(case, dkey=(bufsize, bad_kind, n_before, n_after, explicit_flush, reput), nontrivial=True,
                 sample={"bufsize": bufsize, "rejected": bad_kind, "queued_before": n_before, "queued_after": n_after,
                         "errors_seen_by_user": errors})
        if not errors:
            ctx.violation(f"rejected:{bad_kind}:accepted-silently", case=case, hist=hist)
        try:
            _, _, _, recs, _ = scan(path.read_bytes())
        except ScanError as e:
            ctx.violation("rejected:file-not-a-clean-record-sequence", case=case, hist=hist, err=str(e))
            continue
        got = {k.decode(): v for k, v, _ in recs}
        lost = sorted(k for k in want if k not in got)
        if lost:
            where = "queued-behind-the-rejected-record" if any(k.startswith("b") or k == "tail" for k in lost) else "queued-before"
            ctx.violation(f"rejected:{bad_kind}:accepted-records-lost:{where}", case=case, hist=hist, lost=lost, errors=errors)
            continue
        wrong = sorted(k for k in want if got[k] != want[k])
        if wrong:
            ctx.violation(f"rejected:{bad_kind}:record-altered", case=case, hist=hist, keys=wrong)
        extra = sorted(set(got) - set(want))
        if extra:
            ctx.violation(f"rejected:{bad_kind}:rejected-record-stored-anyway", case=case, hist=hist, extra=[len(x) for x in extra])
        fresh = Collection(path, UkvCollectionBackend, readonly=True)
        with fresh.reading():
            if set(fresh.keys()) != set(want):
                ctx.violation(f"rejected:{bad_kind}:fresh-reader-lists-other-keys", case=case, hist=hist)


# ------------------------------------------------------------------------------------------------
# the public wrappers: MoleculeLibrary / ConformerLibrary are UKV-backed Collections created with a comment and a descriptor

def run_lib(spec, ctx):
    """A library object creates the file (fresh path / over an older file with overwrite=True) or opens an existing one; the
    comment passed to it and its format descriptor (`lib.descriptor`) are the headers the file was created with and stay
    so; the keys it lists are the records of the file.  Records are put through a plain Collection on the same path (a
    second handle), so that no chemistry is needed here (C01 stores and restores molecules through these classes)."""
    import molli as ml
    from molli.storage import Collection, UkvCollectionBackend
    from molli.storage.ukvfile import UKVFile
    from vmon.models.kvmap import scan, ScanError

    for j in range(spec["n"]):
        case = ("lib", spec["chunk"], j)
        if not ctx.want(case):
            continue
        rng = ctx.rng(*case)
        cname = rng.choice(["MoleculeLibrary", "ConformerLibrary"])
        cls = getattr(ml, cname)
        path = ctx.tmp / f"l{j}{'.mlib' if cname == 'MoleculeLibrary' else '.clib'}"
        hist = []
        bad = [False]

        def v(key, **detail):
            bad[0] = True
            ctx.violation(key, case=case, history=hist[-10:], **detail)

        def make(how, overwrite, comment, readonly=False):
            kw = dict(readonly=readonly, bufsize=rng.choice([-1, 0, 64, 10**6]))
            if overwrite or rng.random() < 0.5:
                kw["overwrite"] = overwrite
            if comment is not None or rng.random() < 0.5:
                kw["comment"] = comment
            hist.append((how, cname, {k: val for k, val in kw.items()}))
            ctx.count(f"lib.constructed.{cname}")
            ctx.count("lib.comment-given" if comment is not None else "lib.comment-not-given")
            return cls(path, **kw)

        committed: dict[str, bytes] = {}
        start = rng.choice(["fresh", "fresh", "old-file-replaced", "old-file-replaced", "old-file-kept"])
        ctx.count(f"lib.start.{start}")
        if start != "fresh":
            old = UKVFile(path, mode="w", h1=b"OLDFMT", h2=b"older comment", b0=b"older-descriptor-block")
            for k in ["a", "i1", "older"][:rng.randrange(0, 4)]:
                old.put(k.encode(), b"older-" + k.encode())
                if start == "old-file-kept":
                    committed[k] = b"older-" + k.encode()
            old.close()
        comment = rng.choice(["cmt", "é" * 10, "c" * 300, None])
        try:
            lib = make("create", start == "old-file-replaced", comment)
        except Exception as e:  # noqa
            v(f"lib:constructor-raises:{start}:{type(e).__name__}", err=repr(e)[:200])
            continue
        if start == "old-file-kept":
            want_head = [b"OLDFMT", b"older comment", b"older-descriptor-block"]
        else:
            want_head = [UKVFile.FILE_H1_DEFAULT, (comment or "").encode(), getattr(lib, "descriptor", None) or b""]
        libs = [lib]
        plain = None
        for s in range(rng.randrange(2, 7)):
            r = rng.random()
            if r < 0.3:
                # records arrive through a second handle on the same path
                if plain is None:
                    plain = Collection(path, UkvCollectionBackend, readonly=False, bufsize=rng.choice([-1, 0, 64, 10**6]))
                hist.append(("plain-collection-writes",))
                with plain.writing():
                    for i in range(rng.randrange(0, 4)):
                        k = f"r{s}-{i}"
                        plain[k] = committed[k] = rng.randbytes(rng.choice([0, 7, 300]))
            elif r < 0.45:
                # a further library object on the existing file, given another comment: the file keeps its own
                other = rng.choice(["another comment", None, comment])
                try:
                    libs.append(make("open-existing", False, other, readonly=rng.random() < 0.5))
                except Exception as e:  # noqa
                    v(f"lib:constructor-raises:existing-file:{type(e).__name__}", err=repr(e)[:200])
                    break
            elif r < 0.6 and len(libs) < 4:
                # created anew by a further library object while the older ones stay in use
                comment = rng.choice(["anew", "anew é", None])
                ctx.count("lib.created-anew-under-older-objects")
                try:
                    libs.append(make("create-anew", True, comment))
                except Exception as e:  # noqa
                    v(f"lib:constructor-raises:create-anew:{type(e).__name__}", err=repr(e)[:200])
                    break
                committed.clear()
                start = "created-anew"
                want_head = [UKVFile.FILE_H1_DEFAULT, (comment or "").encode(), getattr(libs[-1], "descriptor", None) or b""]
            # one of the library objects opens a session and lists the file
            li = rng.randrange(len(libs))
            L = libs[li]
            as_writer = rng.random() < 0.5
            hist.append(("session", li, "w" if as_writer else "r"))
            ctx.count("lib.session")
            try:
                try:
                    cm = L.writing() if as_writer else L.reading()
                    cm.__enter__()
                except Exception:  # noqa   (a writing session on a read-only library is refused)
                    if not as_writer:
                        raise
                    cm = L.reading()
                    cm.__enter__()
                try:
                    listed = set(L.keys())
                    if listed != set(committed) or len(L) != len(committed) or any(k not in L for k in committed) \
                            or sorted(L) != sorted(committed):
                        v(f"lib:keys-differ-from-the-file:{'phantom' if listed - set(committed) else 'missing'}",
                          extra=sorted(listed - set(committed))[:3], missing=sorted(set(committed) - listed)[:3])
                finally:
                    cm.__exit__(None, None, None)
            except Exception as e:  # noqa
                v(f"lib:session-raises:{type(e).__name__}", err=repr(e)[:200])
                break
            try:
                h1_, h2, b0_, recs, _end = scan(path.read_bytes())
            except ScanError as e:
                v("lib:rawscan:file-not-a-clean-record-sequence", err=str(e))
                break
            ctx.count("lib.rawscan-header-compared")
            got_head = [h1_.rstrip(b"\0"), h2, b0_]
            if got_head != [want_head[0].rstrip(b"\0")] + want_head[1:]:
                which = [n for n, a, b in zip(("h1", "comment", "descriptor-block"), got_head,
                                              [want_head[0].rstrip(b"\0")] + want_head[1:]) if a != b]
                v(f"lib:rawscan:headers-differ:{'+'.join(which)}:{start}", wrapper=cname, h1=h1_, h2=h2[:40], b0=b0_[:40],
                  want=[x[:40] for x in want_head])
                break
            if start != "old-file-kept" and not b0_:
                v(f"lib:rawscan:new-library-has-no-descriptor-block:{start}", wrapper=cname)
                break
            if {k.decode(): val for k, val, _ in recs} != committed or len(recs) != len(committed):
                v("lib:rawscan:records-differ-from-model", n_got=len(recs), n_want=len(committed))
                break
        ctx.case(case, dkey=repr(hist), nontrivial=len(libs) > 1 or plain is not None,
                 sample={"wrapper": cname, "start": start, "objects": len(libs), "records": len(committed)})
        try:
            path.unlink()
        except OSError:
            pass
