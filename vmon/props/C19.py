"""
C19 -- distance kernels and grid descriptors equal their mathematical definition.

Three parts, every run:

1. kernels through Python: every exported cdist* name of the DEPLOYED extension module (molli_xt*.so) on many
   shapes / dtypes / memory layouts against a float64 numpy evaluation; wrong ndim must raise (run in a
   subprocess so a crash is observed, not suffered); 8 threads calling concurrently on shared inputs.
   (vmon/models/c19_kernels.py)
2. kernels under sanitizers: the CURRENT source molli_xt/distance.cpp + _molli_xt.hpp of the working tree is compiled,
   unmodified, against a stand-in for the pybind11 names it uses (vmon/native/c19_pybind11_shim) into
   vmon/native/c19_harness.cpp, once with -fsanitize=address,undefined and once with -fsanitize=thread; the harness calls
   every registered kernel by its exported name and compares with a long-double loop.  Arguments are described on the
   caller's side (logical values + memory layout: C, transposed, strided / reversed / windowed / broadcast axes, swapaxes)
   and converted to the kernel's declared array type the way pybind11's type caster does (the stand-in records the flags
   of every registered signature), so a kernel that receives a non-contiguous view and is not prepared for it is observed
   as wrong values and/or an out-of-bounds read.  The same run has a sweep with several hundred to a few thousand points /
   up to 300 conformers per argument, a sweep with a wrong number of dimensions (the stand-in's unchecked<N>() / shape(i) refuse
   what pybind11 refuses; a call that returns, or reads past the buffer, is reported), and the recorded array flag words of every
   registration are judged: for every dtype a Python caller passes some overload of the name must take it (forcecast, or a
   conversion numpy regards as safe).  thorough: valgrind on the interpreter driving the deployed .so.  (this file)
3. descriptors: rectangular_grid, nearest_atom_index, prune, atomic_indicator_field, aso, aeif against float64 references with
   the float32 rounding bands excluded: fresh objects, the same objects again after caller-side edits and on a second grid of the
   same shape, keyword / positional / all-keyword argument forms, arguments compared with their values before each call, a few
   grids of 2**15..2**17 points and ensembles of 129..310 atoms, several threads calling at once.  (vmon/models/c19_descriptors.py)

The evidence records which binary (.so path + sha256) and which source hashes each part exercised.
"""
from __future__ import annotations

import hashlib
import os
import re
import shutil
import subprocess
import sys
from pathlib import Path

ID = "C19"
LEVEL = "exploration"
TECHNIQUE = ("runtime monitoring: differential oracle (float64 numpy / long-double C++) on the deployed kernels and the "
             "grid descriptors + ASan/UBSan/TSan builds of the unmodified kernel source (+ valgrind on the deployed .so)")
RULE = ("kernel cases: every exported cdist* name x shapes N,M in {0,1,2,7,64}+seeded, X in {0,1,2,5} x dtypes "
        "(f4,f8,f2,i4,i8,u1,>f4,>f8,mixed) x layouts (C,F,strided rows, strided last axis, transposed, negative stride, "
        "read-only, unaligned, broadcast, nested lists) x 5 value regimes; non-trivial = both arrays non-empty and at least "
        "one input non-contiguous or not of the kernel's native dtype; distinct by (name, shapes, dtypes, layouts, regime). "
        "native cases: one per (registered name, width, shape, regime) in the C++ shape sweep plus one per (registered name, width, "
        "layout of 1st argument, layout of 2nd argument, shape incl. 0 and 1 points, regime) in the C++ layout sweep "
        "(11 layouts: c-contiguous, fortran-transposed, strided/reversed/broadcast last axis, strided/reversed/broadcast first axis, "
        "column window, swapaxes-0-1, swapaxes-1-2). descriptor cases: seeded molecules "
        "(1..24 atoms, chain or cloud, offset up to 15 A) and ensembles (1..5 conformers, random weights and charges), "
        "grids from rectangular_grid (padding 0..2.5, spacing 0.45..2, float32/float64) plus hand-placed points; "
        "non-trivial = grid with >= 8 points having both occupied and unoccupied points; distinct by hash of coordinates and grid parameters. "
        "every descriptor case has three rounds on the same objects: fresh; after 1-2 coordinate edits (coords setter, translate, rotate, scale, "
        "in-place edit of the coords array) plus weights / charges setters / an element change; on a second grid of the same shape (shifted, "
        "reversed, jittered copy or the same array shifted by the caller); every call in one of three argument forms (optional arguments by "
        "keyword / all positional in the documented order / all by keyword). large cases: one grid each of 37026, 68921, 132600 points with "
        "conformers in opposite corners of the box, one ensemble each of 129-150, 250-262, 290-310 atoms; kernel cases with 257..5000 points in "
        "one argument or 9..300 conformers. concurrent cases: 4 (thorough also 8) threads, own ensemble each (equal shapes), one grid, "
        "7 operations, first all threads in the same function, then in different ones")
ASSUMPTIONS = [
    "kernel oracle: inputs are first cast to the float width of the returned array (the kernels' documented force-cast), "
    "then evaluated in float64 (Python) / long double (C++); tolerance 4 ulp of the output width + the smallest normal number",
    "overloaded names (cdist22_eu, ...) called with float64 data that is not C-contiguous resolve to the float32 overload in the "
    "deployed binary; the result is then compared at float32 precision and only counted (kernel.float64-input-computed-in-float32)",
    "inputs whose last dimension is not 3, NaN/inf and magnitudes whose squares overflow the float width are outside the workload",
    "descriptor comparisons exclude grid points within 1e-4 A of a vdW sphere surface, of the nearest-atom cut-off or of a nearest-atom tie",
    "rectangular_grid: steps compared to the spacing with 5e-6 relative + 4 ulp of the coordinate magnitude; the point count may differ "
    "by one only where extent/spacing is within rounding (1e-5 + 8 ulp(coordinates)/spacing) of an integer",
    "the stand-in pybind11 header models array_t<T, Flags> as shape + byte strides over an exact-size malloc buffer, unchecked<N>() "
    "indexing through the strides without bounds checks, and the call boundary for arguments that already have the kernel's dtype "
    "(PyArray_FromAny semantics: C-/Fortran-ordered copy only when the kernel's array type carries c_style/f_style and the view is not "
    "contiguous in numpy's sense, else the caller's buffer and strides are passed through); dtype conversion and overload resolution of "
    "Python arguments are exercised only in part 1, against the deployed binary",
    "a change to distance.cpp is seen by part 2 immediately but by parts 1 and 3 only after the extension is rebuilt",
    "argument forms: the parameter names, order and defaults of molli/descriptor/gridbased.py at HEAD b8d273d are taken as the documented "
    "signatures (c19_descriptors.SIGNATURES)",
    "a descriptor call must leave grid, ensemble coordinates / weights / charges, geometry coordinates and caller-supplied tables bit-identical "
    "(a drifted grid makes the next descriptor on 'the same grid' answer for other points)",
    "concurrent descriptor calls are compared with the serial result of the same call (float results within 1e-9, index results exactly); "
    "the serial results are judged against the definitions",
    "array flag words: without forcecast pybind11 converts an argument only where numpy's 'safe' casting rule allows it (f2,f4,u1 -> float32; "
    "f2,f4,f8,i4,i8,u1 -> float64); a name none of whose overloads takes one of these caller dtypes is reported",
    "the package not importing / misbehaving when the compiled extension is absent is outside this check",
]
EXHAUSTIVE = False
CHUNK_TIMEOUT = 900

VERIF = Path(__file__).resolve().parent.parent.parent
NATIVE = VERIF / "vmon" / "native"
CXX = os.environ.get("VERIF_CXX", "clang++-14")
SAN_FLAGS = {
    "asan": ["-fsanitize=address,undefined", "-fno-sanitize-recover=all"],
    "tsan": ["-fsanitize=thread", "-pthread"],
}
COMMON_FLAGS = ["-std=c++17", "-O1", "-g", "-fno-omit-frame-pointer"]
NATIVE_LAYOUTS = ("c-contiguous", "fortran-transposed", "strided-last-axis", "reversed-last-axis", "strided-first-axis",
                  "reversed-first-axis", "column-window", "broadcast-first-axis", "broadcast-last-axis", "swapaxes-0-1", "swapaxes-1-2")
ARRAY_FLAGS = {1: "c_style", 2: "f_style", 16: "forcecast"}
CRASH_SIGNALS = {4: "SIGILL", 6: "SIGABRT", 7: "SIGBUS", 8: "SIGFPE", 11: "SIGSEGV"}


def REQUIRED(tier):
    k = 1 if tier == "quick" else 10
    req = {
        "native.asan-ubsan.kernel-calls": 40000 * k, "native.asan-ubsan.elements-compared": 4 * 10 ** 6 * k,
        "native.asan-ubsan.registered-kernels": 8,
        "native.asan-ubsan.alias.calls-with-both-arguments-in-one-buffer": 5000 * k, "native.asan-ubsan.alias.same-start-address": 1500 * k,
        "native.asan-ubsan.alias.same-array-twice": 100 * k,
        "native.asan-ubsan.noncontiguous-argument-calls": 25000 * k, "native.asan-ubsan.noncontiguous-elements-compared": 10 ** 6 * k,
        "native.asan-ubsan.arguments-converted-at-call-boundary": 60000 * k, "native.tsan.concurrent-calls": 300, "native.tsan.registered-kernels": 8,
        "kernel.cases": 250 * k, "kernel.elements-compared": 10 ** 5 * k, "kernel.noncontiguous-or-foreign-dtype-cases": 100 * k,
        "kernel.wrong-ndim.raised": 40, "kernel.concurrent.calls": 90, "kernel.inputs-unmodified": 250 * k,
        "grid.checked": 60 * k, "nearest.geometry.checked": 60 * k, "nearest.ensemble.checked": 60 * k,
        "nearest.points.within-cutoff": 1000, "nearest.points.beyond-cutoff": 1000,
        "prune.checked": 60 * k, "prune.points.kept": 500, "prune.points.dropped": 500,
        "aso.checked": 60 * k, "descriptor.large-ensembles": 2 * k, "aeif.checked": 60 * k, "aso.points.compared": 5000, "aeif.points.compared": 5000,
        "aso.points.occupied": 500, "aeif.weighted.checked": 20 * k, "aso.weighted.checked": 20 * k,
        # extensions after the gap review: the same objects again after caller-side edits / on a second grid of the same shape,
        # documented argument forms, arguments compared after every call, large inputs, concurrent callers
        "descriptor.repeat.after-ensemble-edit": 40 * k, "descriptor.repeat.second-grid-of-same-shape": 40 * k,
        "descriptor.calls.positional": 550 * k, "descriptor.calls.all-keyword": 300 * k,
        "descriptor.calls.positional.aso": 100 * k, "descriptor.calls.positional.aeif": 100 * k, "descriptor.calls.positional.prune": 90 * k,
        "descriptor.calls.positional.nearest_atom_index": 200 * k, "descriptor.calls.positional.rectangular_grid": 12 * k,
        "descriptor.calls.positional.atomic_indicator_field": 10 * k, "atomic_indicator_field.checked": 50 * k,
        "descriptor.arguments-compared-after-call": 2000 * k, "descriptor.concurrent.calls": 140,
        "descriptor.large-grid.above-32768-points": 1, "descriptor.large-grid.above-65536-points": 1,
        "aso.large-grid.occupied-points-in-last-sixteenth": 150, "aso.large-grid.occupied-points-in-first-sixteenth": 150,
        "aeif.large-grid.occupied-points-in-last-sixteenth": 150,
        "descriptor.many-atoms.above-128-atoms": 1, "nearest.points.naming-an-atom-index-above-127": 10000,
        "kernel.large-argument-cases": 15 * k,
        "native.asan-ubsan.large.second-argument-above-256-points": 40 * k, "native.asan-ubsan.large.first-argument-above-256-rows": 40 * k,
        "native.asan-ubsan.large.more-than-8-conformers": 25 * k, "native.asan-ubsan.large.elements-compared": 3 * 10 ** 6 * k,
        "native.asan-ubsan.wrong-ndim.raised": 150, "native.asan-ubsan.registrations-with-array-flags-judged": 16,
    }
    for lay in NATIVE_LAYOUTS:       # every memory layout must have reached the kernels (swapaxes: first argument of cdist32* only)
        req[f"native.asan-ubsan.layout.{lay}"] = (1500 if lay.startswith("swapaxes") else 7000) * k
    if tier == "thorough":
        req["valgrind.kernel-calls"] = 200
    return req


def plan(tier, seed):
    quick = tier == "quick"
    specs = []
    # part 2 first: the builds are the longest single items
    if quick:
        specs.append({"kind": "native", "san": "asan", "hseed": seed, "rounds": 1})
        specs.append({"kind": "native", "san": "tsan", "threads": 8, "hseed": seed, "reps": 3})
    else:
        specs.append({"kind": "valgrind"})
        for i in range(6):
            specs.append({"kind": "native", "san": "asan", "hseed": seed * 100 + i, "rounds": 3})
        specs.append({"kind": "native", "san": "tsan", "threads": 8, "hseed": seed, "reps": 30})
        specs.append({"kind": "native", "san": "tsan", "threads": 16, "hseed": seed + 1, "reps": 30})
    # part 1
    specs.append({"kind": "kndim"})
    specs.append({"kind": "kthreads", "threads": 8, "reps": 1 if quick else 8})
    nk, per = (12, 30) if quick else (48, 220)
    for i in range(nk):
        specs.append({"kind": "kernel", "chunk": i, "n": per})
    # part 3
    # the few large inputs and the concurrent callers first: they are the longest descriptor items
    for i in range(3):
        specs.append({"kind": "desc-large", "variant": "grid", "chunk": i, "n": 1 if quick else 4})
        specs.append({"kind": "desc-large", "variant": "atoms", "chunk": i, "n": 1 if quick else 6})
    specs.append({"kind": "desc-threads", "threads": 4, "reps": 5 if quick else 25})
    if not quick:
        specs.append({"kind": "desc-threads", "threads": 8, "reps": 12})
    nd, perd = (16, 5) if quick else (64, 36)
    for i in range(nd):
        specs.append({"kind": "desc", "chunk": i, "n": perd, "ngrid": 6 if quick else 40})
    return specs


def run_chunk(spec, ctx):
    kind = spec["kind"]
    if kind == "native":
        return run_native(spec, ctx)
    if kind == "valgrind":
        return run_valgrind(spec, ctx)
    if kind in ("kernel", "kndim", "kthreads"):
        from vmon.models import c19_kernels
        return getattr(c19_kernels, "run_" + kind)(spec, ctx)
    if kind in ("desc", "desc-large", "desc-threads"):
        from vmon.models import c19_descriptors
        return getattr(c19_descriptors, "run_" + kind.replace("-", "_"))(spec, ctx)
    raise ValueError(kind)


# ------------------------------------------------------------------------------------------------------------
# shared helpers

def repo_root() -> Path:
    return Path(os.environ.get("VERIF_REPO", "/repo"))


def sha256_file(p) -> str:
    return hashlib.sha256(Path(p).read_bytes()).hexdigest()


def deployed_binary():
    """path + sha256 of the extension module the interpreter actually imports"""
    import molli_xt
    p = Path(molli_xt.__file__).resolve()
    return {"path": str(p), "sha256": sha256_file(p)}


def native_sources():
    d = repo_root() / "molli_xt"
    return {str(p): sha256_file(p) for p in sorted(d.glob("*")) if p.suffix in (".cpp", ".hpp", ".h")}


def trim_report(text: str, lines=28, width=260) -> str:
    out = []
    for ln in text.splitlines():
        if ln.startswith(("REG ", "OTHER ")):
            continue
        out.append(ln if len(ln) <= width else ln[:width] + " ...")
        if len(out) >= lines:
            out.append("[...]")
            break
    return "\n".join(out)


# ------------------------------------------------------------------------------------------------------------
# part 2: sanitizer builds of the working tree's source

def build_native(san: str, ctx) -> tuple[Path, Path, list]:
    src = repo_root() / "molli_xt"
    if not (src / "distance.cpp").is_file():
        raise RuntimeError(f"{src}/distance.cpp not found")
    bdir = NATIVE / "build" / f"{san}-{os.getpid()}"
    shutil.rmtree(bdir, ignore_errors=True)
    bdir.mkdir(parents=True)
    exe = bdir / f"c19_{san}"
    cmd = [CXX, *COMMON_FLAGS, *SAN_FLAGS[san], f"-I{NATIVE / 'c19_pybind11_shim'}", f"-I{src}",
           str(NATIVE / "c19_harness.cpp"), "-o", str(exe)]
    p = subprocess.run(cmd, capture_output=True, text=True, timeout=300)
    if p.returncode != 0 or not exe.exists():
        shutil.rmtree(bdir, ignore_errors=True)
        # not a verdict about the kernels: the stand-in header does not cover what the source now uses (or a syntax error)
        raise RuntimeError("native build failed (stand-in pybind11 header insufficient or source does not compile): "
                           + trim_report(p.stderr, 20))
    return bdir, exe, cmd


def classify_sanitizer(err: str):
    """(tool, kind, frame) of the first sanitizer report in stderr, or None"""
    m = re.search(r"ERROR: AddressSanitizer: ([\w-]+)", err)
    tool = kind = None
    if m:
        tool, kind = "address", m.group(1)
    elif re.search(r"ERROR: LeakSanitizer: detected memory leaks", err):
        tool, kind = "leak", "memory-leak"
    elif (m := re.search(r"WARNING: ThreadSanitizer: ([\w -]+?)(?: \(pid=\d+\))?\s*$", err, re.M)):
        tool, kind = "thread", m.group(1).strip().replace(" ", "-")
    elif (m := re.search(r"runtime error: (.+)$", err, re.M)):
        tool = "undefined"
        kind = re.sub(r"[-+]?\d[\w.+-]*|0x[0-9a-f]+|'[^']*'", "", m.group(1))     # drop values, addresses, type names
        kind = "-".join(re.findall(r"[a-z]+", kind.lower())[:6]) or "report"
    elif re.search(r"(Address|Thread|Leak|UndefinedBehavior)Sanitizer", err):
        tool, kind = "sanitizer", "report"
    if tool is None:
        return None
    fm = re.search(r"#\d+ (?:0x[0-9a-f]+ in )?(?:\w+ )?(molli::\w+)", err)
    return tool, kind, (fm.group(1) if fm else None)


def flag_names(word) -> str:
    w = int(word)
    return "|".join(v for k, v in ARRAY_FLAGS.items() if w & k) + (f"|{w & ~19}" if w & ~19 else "") or "0"


# dtypes a Python caller passes (part 1 does, against the deployed binary) -> kernel widths numpy converts to under its "safe"
# rule, i.e. without NPY_ARRAY_FORCECAST.  pybind11's caster for array_t<T, Flags> is PyArray_FromAny(obj, dtype(T), 0, 0,
# ENSUREARRAY | Flags): without forcecast in Flags a conversion that is not "safe" fails and the overload is skipped; when no
# overload of the name is left the caller gets "TypeError: incompatible function arguments" instead of distances.
CALLER_DTYPES = ("f2", "f4", "f8", "i4", "i8", "u1")
SAFE_CAST_TO = {"f": {"f2", "f4", "u1"}, "d": {"f2", "f4", "f8", "i4", "i8", "u1"}}


def judge_array_flags(ctx, case, reg3):
    """every exported name must have, for every caller dtype, an overload whose two argument types take that dtype"""
    byname = {}
    for n, t, fr, fa, fb in reg3:
        if fr != "":
            byname.setdefault(n, []).append((t, int(fa), int(fb)))
            ctx.count("native.asan-ubsan.registrations-with-array-flags-judged")
    for n, ovs in sorted(byname.items()):
        refused = [u for u in CALLER_DTYPES
                   if not any(all((f & 16) or u in SAFE_CAST_TO[t] for f in (fa, fb)) for t, fa, fb in ovs)]
        if refused:
            ctx.violation(f"native:argument-dtype-refused-for-lack-of-forcecast:{n}", case=case, refused_input_dtypes=refused,
                          overloads=[f"{t}: takes {flag_names(fa)}, {flag_names(fb)}" for t, fa, fb in ovs],
                          effect="TypeError (incompatible function arguments) instead of a converted argument")


def report_value_lines(ctx, case, out, val, reg3):
    """violations from the MISMATCH/MMLAYOUT/SHAPE/INPUTCHANGED/NOGIL/RAISED lines of the reference run"""
    flags = {(n, t): f"returns {flag_names(fr)}; takes {flag_names(fa)}, {flag_names(fb)}" for n, t, fr, fa, fb in reg3 if fr != ""}
    pairs = {}          # name -> list of (width, layout of 1st argument, layout of 2nd argument) with mismatching elements
    for m in re.finditer(r"^MMLAYOUT (\S+) ([fd]) (\S+) (\S+)$", out, re.M):
        pairs.setdefault(m.group(1), []).append((m.group(2), m.group(3), m.group(4)))
    counts = {m.group(1): int(m.group(2)) for m in re.finditer(r"^MMCOUNT (.+) (\d+)$", out, re.M)}
    witness = {}
    for m in re.finditer(r"^MISMATCH (\S+) ([fd]) (.*)$", out, re.M):
        witness.setdefault(m.group(1), (m.group(2), m.group(3)[:500]))
    for name in sorted(set(pairs) | set(witness)):
        pl = pairs.get(name, [])
        contiguous_too = not pl or any(a == b == "c-contiguous" for _, a, b in pl)
        w, wit = witness.get(name, (pl[0][0] if pl else None, None))
        detail = dict(width=w, witness=wit, mismatching_elements_all_names=val.get("NMISMATCH"),
                      layout_pairs_affected=[f"{t}: {a} / {b}" + (f" ({counts[f'{name} {t} {a} {b}']} elements)" if f"{name} {t} {a} {b}" in counts else "")
                                             for t, a, b in pl][:40],
                      registered_array_flags={t: flags.get((name, t)) for t in "fd" if (name, t) in flags})
        if contiguous_too:
            ctx.violation(f"native:kernel-differs-from-long-double-reference:{name}", case=case, **detail)
        else:       # right for C-contiguous arguments, wrong only for views with other strides
            ctx.violation(f"native:kernel-wrong-for-noncontiguous-argument:{name}", case=case, **detail)
    for key, pat in (("native:result-shape-wrong", r"^SHAPE (\S+) ([fd]) (.*)$"), ("native:kernel-modifies-input", r"^INPUTCHANGED (\S+) ([fd]) (.*)$"),
                     ("native:array-allocated-while-gil-released", r"^NOGIL (\S+) ([fd])()$"),
                     ("native:wrong-ndim-accepted", r"^NDIMACCEPTED (\S+) ([fd]) (.*)$"),
                     ("native:kernel-raised-on-valid-arguments", r"^RAISED (\S+) ([fd]) (.*)$")):
        seen = set()
        for m in re.finditer(pat, out, re.M):
            if m.group(1) not in seen:
                seen.add(m.group(1))
                ctx.violation(f"{key}:{m.group(1)}", case=case, width=m.group(2), **({"witness": m.group(3)[:500]} if m.group(3) else {}))


def run_native(spec, ctx):
    san = spec["san"]
    tag = "asan-ubsan" if san == "asan" else "tsan"
    case = ["native", san, spec.get("threads", 1), spec["hseed"]]
    if not ctx.want(case):
        return
    srcs = native_sources()
    bdir, exe, cmd = build_native(san, ctx)
    try:
        env = dict(os.environ)
        env["ASAN_OPTIONS"] = "halt_on_error=1:detect_leaks=1:abort_on_error=0:exitcode=97:allocator_may_return_null=0"
        env["UBSAN_OPTIONS"] = "halt_on_error=1:print_stacktrace=1:exitcode=98"
        env["TSAN_OPTIONS"] = "halt_on_error=1:exitcode=96:second_deadlock_stack=1"
        args = ["ref", str(spec["hseed"]), str(spec["rounds"])] if san == "asan" else \
            ["threads", str(spec["threads"]), str(spec["hseed"]), str(spec["reps"])]
        p = subprocess.run([str(exe), *args], capture_output=True, text=True, timeout=600, env=env)
        out, err = p.stdout, p.stderr
        ctx.count(f"native.{tag}.runs")
        reg3 = re.findall(r"^REG (\S+) ([fd])(?: flags=(\d+),(\d+),(\d+))?$", out, re.M)
        reg = [(n, t) for n, t, *_ in reg3]
        flagwords = sorted({f"{n}:{t}: returns {flag_names(fr)}; takes {flag_names(fa)}, {flag_names(fb)}"
                            for n, t, fr, fa, fb in reg3 if fr != ""})
        other = sorted(set(re.findall(r"^OTHER (\S+)$", out, re.M)))
        val = {k: int(v) for k, v in re.findall(r"^(CALLS|ELEMS|NMISMATCH|NSHAPE|NINPUTCHANGED|NRAISED|THREADS|THREADMISMATCH|NONCONTIGCALLS|"
                                                r"NONCONTIGELEMS|CASTCOPY|CASTPASS|PASSNONCONTIG|ALIASCALLS|ALIASSAMESTART|ALIASIDENTICAL|ALIASOVERLAP|"
                                                r"LARGECALLS|LARGEELEMS|LARGESECOND|LARGEFIRST|LARGECONFORMERS|LARGENONCONTIG|NDIMCALLS|NDIMRAISED|"
                                                r"NDIMACCEPTED_TOTAL) (\d+)$", out, re.M)}
        layouts = {k: int(v) for k, v in re.findall(r"^LAYOUT (\S+) (\d+)$", out, re.M)}
        ctx.count(f"native.{tag}.registered-kernels", len(reg))
        ctx.note(f"part2_native_{san}", {
            "source_sha256": srcs, "harness_sha256": sha256_file(NATIVE / "c19_harness.cpp"),
            "shim_sha256": sha256_file(NATIVE / "c19_pybind11_shim" / "pybind11" / "pybind11.h"),
            "compile_cmd": " ".join(cmd), "run_args": args,
            "registered": sorted({f"{n}:{t}" for n, t in reg}), "unrecognised_registrations": other,
            "registered_array_flags": flagwords,
            "exercises": "current source of the working tree (NOT the deployed .so)"})
        ctx.case(case, dkey=("native", san, spec.get("threads", 1), spec["hseed"], spec.get("rounds"), spec.get("reps")),
                 nontrivial=len(reg) > 0 and val.get("CALLS", 0) > 0,
                 sample={"part": 2, "build": tag, "args": args, "registered": len(reg), "calls": val.get("CALLS", 0),
                         "elements": val.get("ELEMS"), "exit": p.returncode})
        # a typed name must be backed by the kernel of that width; an untyped (overloaded) name by both widths
        byname = {}
        for n, t in reg:
            byname.setdefault(n, set()).add(t)
        for n, ts in sorted(byname.items()):
            m = re.match(r"^cdist\d\d([fd]?)_", n)
            if m and m.group(1) and ts != {m.group(1)}:
                ctx.violation(f"native:name-registered-with-wrong-float-width:{n}", case=case, name=n, widths=sorted(ts))
            if m and not m.group(1) and ts != {"f", "d"}:
                ctx.violation(f"native:overloaded-name-lacks-a-float-width:{n}", case=case, name=n, widths=sorted(ts))
        if san == "asan":        # lines printed before a sanitizer abort count too (stdout of the harness is line-buffered)
            report_value_lines(ctx, case, out, val, reg3)
            judge_array_flags(ctx, case, reg3)
        rep = classify_sanitizer(err)
        if rep is not None:
            tool, kind, frame = rep
            ctx.count(f"native.{tag}.sanitizer-reports")
            ctx.violation(f"native:sanitizer:{tool}:{kind}", case=case, frame=frame, build=tag, exit=p.returncode,
                          report=trim_report(err), source_sha256=srcs)
            return
        if p.returncode < 0:
            ctx.violation(f"native:harness-killed-by-signal:{CRASH_SIGNALS.get(-p.returncode, -p.returncode)}", case=case,
                          build=tag, stderr=trim_report(err), stdout_tail=out[-600:])
            return
        if p.returncode != 0 or "DONE" not in out:
            raise RuntimeError(f"native harness ended rc={p.returncode} without a sanitizer report: {trim_report(err, 12)} | {out[-400:]}")
        ctx.count(f"native.{tag}.{'kernel-calls' if san == 'asan' else 'concurrent-calls'}", val.get("CALLS", 0))
        if san == "asan":
            ctx.count("native.asan-ubsan.elements-compared", val.get("ELEMS", 0))
            ctx.count("native.asan-ubsan.noncontiguous-argument-calls", val.get("NONCONTIGCALLS", 0))
            ctx.count("native.asan-ubsan.noncontiguous-elements-compared", val.get("NONCONTIGELEMS", 0))
            ctx.count("native.asan-ubsan.arguments-converted-at-call-boundary", val.get("CASTCOPY", 0) + val.get("CASTPASS", 0))
            ctx.count("native.asan-ubsan.arguments-copied-to-contiguous-by-cast", val.get("CASTCOPY", 0))
            ctx.count("native.asan-ubsan.arguments-passed-through-by-cast", val.get("CASTPASS", 0))
            ctx.count("native.asan-ubsan.noncontiguous-arguments-reaching-a-kernel", val.get("PASSNONCONTIG", 0))
            ctx.count("native.asan-ubsan.alias.calls-with-both-arguments-in-one-buffer", val.get("ALIASCALLS", 0))
            ctx.count("native.asan-ubsan.alias.same-start-address", val.get("ALIASSAMESTART", 0))
            ctx.count("native.asan-ubsan.alias.same-array-twice", val.get("ALIASIDENTICAL", 0))
            ctx.count("native.asan-ubsan.alias.overlapping-windows", val.get("ALIASOVERLAP", 0))
            for lay, n in layouts.items():
                ctx.count(f"native.asan-ubsan.layout.{lay}", n)
            for k, name in (("LARGECALLS", "calls"), ("LARGEELEMS", "elements-compared"), ("LARGESECOND", "second-argument-above-256-points"),
                            ("LARGEFIRST", "first-argument-above-256-rows"), ("LARGECONFORMERS", "more-than-8-conformers"),
                            ("LARGENONCONTIG", "noncontiguous-argument-calls")):
                ctx.count(f"native.asan-ubsan.large.{name}", val.get(k, 0))
            ctx.count("native.asan-ubsan.wrong-ndim.calls", val.get("NDIMCALLS", 0))
            ctx.count("native.asan-ubsan.wrong-ndim.raised", val.get("NDIMRAISED", 0))
        else:
            ctx.count("native.tsan.threads", val.get("THREADS", 0))
            if val.get("THREADMISMATCH", 0):
                ctx.violation("native:concurrent-result-differs-from-serial", case=case, mismatches=val["THREADMISMATCH"],
                              threads=val.get("THREADS"))
    finally:
        shutil.rmtree(bdir, ignore_errors=True)


# ------------------------------------------------------------------------------------------------------------
# part 2b (thorough): valgrind on the interpreter driving the deployed extension

VALGRIND_DRIVER = r"""
import sys, numpy as np, molli_xt, re
names = sorted(n for n in dir(molli_xt) if re.match(r'^cdist(22|32)[fd]?_eu2?$', n))
rng = np.random.default_rng(int(sys.argv[1]))
calls = 0
for name in names:
    f = getattr(molli_xt, name)
    three = name.startswith('cdist32')
    for N in (0, 1, 2, 7, 33):
        for M in (0, 1, 5, 33):
            for X in ((0, 1, 3) if three else (1,)):
                for dt, lay in (('f4', 'C'), ('f8', 'C'), ('f8', 'S'), ('i4', 'C'), ('f4', 'T')):
                    a = (rng.random((X, N, 3) if three else (N, 3)) * 10).astype(dt)
                    b = (rng.random((M, 3)) * 10).astype(dt)
                    if lay == 'S':
                        big = np.zeros((2 * M, 3), dt); big[::2] = b; b = big[::2]
                    if lay == 'T':
                        b = np.ascontiguousarray(b.T).T
                    r = f(a, b); calls += 1
                    assert r.shape == ((X, N, M) if three else (N, M))
                    float(r.sum())
    for bad in (np.zeros(3), np.zeros((2, 2, 2, 3))):
        try:
            f(bad, bad)
        except Exception:
            pass
        calls += 1
print('CALLS', calls)
"""


def valgrind_blocks(text: str):
    """(all error blocks with a stack, those with a frame inside the molli_xt extension) of a memcheck log"""
    blocks = [b for b in re.split(r"\n==\d+== *\n", text) if re.search(r"^==\d+== +(at|by) 0x", b, re.M)]
    mine = [b for b in blocks if re.search(r"^==\d+== +(at|by) 0x.*molli_xt", b, re.M)]
    return blocks, mine


def run_valgrind(spec, ctx):
    case = ["valgrind"]
    if not ctx.want(case):
        return
    vg = shutil.which("valgrind")
    if vg is None:
        raise RuntimeError("valgrind not installed")
    binary = deployed_binary()
    script = ctx.tmp / "c19_valgrind_driver.py"
    script.write_text(VALGRIND_DRIVER)
    log = ctx.tmp / "valgrind.log"
    env = dict(os.environ)
    env["PYTHONMALLOC"] = "malloc"
    cmd = [vg, "--error-exitcode=0", f"--log-file={log}", "--num-callers=40", "--read-var-info=no",
           sys.executable, str(script), str(ctx.seed)]
    p = subprocess.run(cmd, capture_output=True, text=True, timeout=800, env=env)
    m = re.search(r"^CALLS (\d+)$", p.stdout, re.M)
    if p.returncode < 0:
        ctx.violation(f"valgrind:interpreter-killed-by-signal:{CRASH_SIGNALS.get(-p.returncode, -p.returncode)}", case=case,
                      stderr=trim_report(p.stderr), binary=binary)
        return
    if not m:
        raise RuntimeError(f"valgrind driver did not finish rc={p.returncode}: {p.stderr[-600:]}")
    ctx.count("valgrind.kernel-calls", int(m.group(1)))
    text = log.read_text(errors="replace") if log.exists() else ""
    blocks, mine = valgrind_blocks(text)
    ctx.count("valgrind.report-blocks.total", len(blocks))
    ctx.count("valgrind.report-blocks.with-molli_xt-frame", len(mine))
    ctx.note("part2_valgrind", {"binary": binary, "cmd": " ".join(cmd[:5]) + " python <driver>",
                                "exercises": "deployed extension module under valgrind memcheck"})
    ctx.case(case, dkey=("valgrind", binary["sha256"]), nontrivial=True,
             sample={"part": "2b", "valgrind_blocks": len(blocks), "with_molli_xt_frame": len(mine), "calls": int(m.group(1))})
    seen = set()
    for b in mine:
        first = re.sub(r"^==\d+== *", "", b.strip().splitlines()[0])
        kind = "-".join(re.findall(r"[a-z]+", re.sub(r"\d[\d,]*", "", first).lower())[:6]) or "report"
        if kind in seen:
            continue
        seen.add(kind)
        ctx.violation(f"valgrind:{kind}", case=case, report=trim_report(re.sub(r"(?m)^==\d+== ?", "", b)), binary=binary)


# ------------------------------------------------------------------------------------------------------------
# parent side: a kernel/descriptor chunk that died from a signal is a crash of the code under test, not "inconclusive"

def post(run, results):
    specs = plan(run.tier, run.seed)
    if len(specs) != len(results):
        return
    for spec, res in zip(specs, results):
        if "evaluations" in res:
            continue
        for why in res.get("inconclusive", ()):
            m = re.search(r"died rc=-(\d+)", why)
            if m and int(m.group(1)) in CRASH_SIGNALS and spec["kind"] in ("kernel", "kthreads", "desc", "desc-large", "desc-threads"):
                run.violations.append({
                    "key": f"C19:{'kernel' if not spec['kind'].startswith('desc') else 'descriptor'}:interpreter-killed-by-signal:"
                           f"{CRASH_SIGNALS[int(m.group(1))]}",
                    "spec": spec, "case": None, "detail": {"stderr_tail": why[-1500:]}})


LEVEL_TEXT = ("Held on the executions produced: the deployed kernels agree with a float64 evaluation on every generated shape/dtype/"
              "layout and under 8 concurrent callers; the current kernel source runs clean under ASan+UBSan+LSan and TSan while matching "
              "a long-double reference for every registered name (also for arguments of several hundred to a few thousand points, with wrong-ndim "
              "arguments refused); the grid descriptors agree with float64 definitions outside the "
              "float32 rounding bands, also when the same objects are used again after edits, on a second grid of the same shape, in positional "
              "form, on grids of 2**15..2**17 points, ensembles of up to 310 atoms and from 4 threads at once, and leave their arguments unmodified. Not a proof: reach is that of the sweeps and generators.")
LEVEL_NOTE = ("Trusted: numpy float64 arithmetic, the long-double loop and the pybind11 stand-in of the C++ harness (models array_t as shape + strides "
              "over an exact-size buffer and the contiguity part of pybind11's argument conversion; dtype conversion and overload resolution "
              "are exercised only through the deployed binary), clang-14 "
              "sanitizer runtimes, valgrind. Parts 1/3 see the deployed .so, part 2 the working-tree source; hashes of both are in the evidence.")
